import CsVerif.Lemmas.C13
import CsVerif.Gen.StrLit
/-! C13 property theorems: a profile generated from a beacon configuration is valid and faithful.

Model: `fromBeaconConfig` (Model/C13.lean) on the pretty values `settings_by_index` presents and `config.uris`;
`WellFormedCfg` is the decidable domain of the property (any latin-1 text in text settings, any `config.uris`, any text in
the quoted part of execute items: no character restriction anywhere); `ValidTree` / `Derives` (Lemmas/C13.lean) say that a tree is the
tree of a derivation of the generated grammar (C10's model of Lark); `specDict` is the dictionary of a tree, `expectedDict`
the dictionary the property promises. -/
namespace C13
set_option maxRecDepth 100000

/-! ### generated obligations: every name the generator can emit exists in the grammar, where it is emitted

(`Gen.ProfileGen` = names found in the source by introspection, `Grammar` = Lark's loaded grammar; `decide +kernel`) -/

/-- `profile.set_option(kw, …)`: every keyword is an alternative of the OPTION terminal, and `set OPTION string ;` exists -/
theorem emitted_options_in_grammar : emittedOptionsOK = true := by decide +kernel

/-- `block.set_option(kw, …)` / `block._pair(kw, …)`: below the block path there is a production with that label and that
number of literals -/
theorem emitted_statements_in_grammar : emittedStmtsOK = true := by decide +kernel

/-- every block path the generator can create exists as nested block productions -/
theorem emitted_blocks_in_grammar : emittedBlocksOK = true := by decide +kernel

/-- every execute option accepted by the generator (`NtQueueApcThread_s` included) has its production -/
theorem emitted_execute_in_grammar : emittedExecuteOK = true := by decide +kernel

/-- every BeaconGate name (`BeaconGateOptions` fields and the four group names, lower-cased) has its production -/
theorem emitted_gate_in_grammar : emittedGateOK = true := by decide +kernel

/-- every BUILD argument is a data-transform block of its client block, and every step / termination label
`DataTransformBlock` can emit is a statement of `steps` / `termination` there; the same for http-get.server.output -/
theorem emitted_transforms_in_grammar : emittedTransformsOK = true := by decide +kernel

theorem emitted_names_in_grammar :
    emittedOptionsOK = true ∧ emittedStmtsOK = true ∧ emittedBlocksOK = true ∧ emittedExecuteOK = true ∧
      emittedGateOK = true ∧ emittedTransformsOK = true :=
  ⟨emitted_options_in_grammar, emitted_statements_in_grammar, emitted_blocks_in_grammar, emitted_execute_in_grammar,
    emitted_gate_in_grammar, emitted_transforms_in_grammar⟩

/-! ### generated obligations: the tables of the hand-written model are the ones the source has now -/

/-- no setting value is tested twice in the if/elif chain -/
theorem chain_keys_nodup : (actionTable.map (·.1)).Nodup := by decide +kernel

/-- same settings, in the same order, with the same `and value` guards -/
theorem chain_matches : actionTable.map (fun e => (e.1, e.2.1)) = Gen.ProfileGen.chain := by decide +kernel
theorem options_match : modelOptions = Gen.ProfileGen.options := by decide +kernel
theorem stmts_match : sameSet modelStmts Gen.ProfileGen.stmts = true := by decide +kernel
theorem literals_match : sameSet modelLiterals Gen.ProfileGen.literalValues = true := by decide +kernel

theorem execute_matches :
    Gen.ProfileGen.executeEnable = execEnable.map (fun s => (toText s, toText (dashToUnderscore (lower s)))) ∧
    Gen.ProfileGen.executeSpecial = [(toText (b "CreateThread"), toText (b "createthread_special")),
      (toText (b "CreateRemoteThread"), toText (b "createremotethread_special"))] ∧
    Gen.ProfileGen.executePath = (pathOf .procInj ++ [b "execute"]).map toText := by decide +kernel

theorem gate_matches :
    Gen.ProfileGen.gateNames = gateLabels.map (fun s => (toText s, toText (lower s))) ∧
    Gen.ProfileGen.gatePath = (pathOf .stage ++ [b "beacon_gate"]).map toText ∧
    (actionTable.find? (·.1 == Gen.ProfileGen.gateSetting)).map (·.2.2) = some Act.gate := by decide +kernel

theorem transform_names_match :
    Gen.ProfileGen.dtFlagSteps = dtFlagSteps.map toText ∧
    Gen.ProfileGen.dtTerminationOptions = dtTermOptions.map toText ∧
    Gen.ProfileGen.dtArgTerminations = dtArgTerms.map toText ∧
    sameSet (Gen.ProfileGen.requestEnable.map (·.2))
      ([EnStep.base64, .base64url, .netbios, .netbiosu, .uriAppend, .print, .mask].map fun e => toText e.pyName) = true ∧
    sameSet (Gen.ProfileGen.requestArg.map (·.2))
      ([ArgStep.header, .parameter, .append, .prepend].map fun e => toText e.pyName) = true ∧
    sameSet (Gen.ProfileGen.requestStatic.map (·.2))
      ([StaticStep.hdr, .hostHdr, .param].map fun e => toText e.pyName) = true ∧
    sameSet (Gen.ProfileGen.recoverFlags.map (·.2) ++ Gen.ProfileGen.recoverLens.map (·.2))
      ([RStep.append 0, .prepend 0, .base64, .print, .netbios, .netbiosu, .base64url, .mask].map fun r =>
        match recoverOpt r with
        | .bare n => toText n
        | .pair n _ => toText n) = true := by decide +kernel

theorem blocks_match :
    Gen.ProfileGen.buildNames = [(12, toText (k "metadata")), (12, toText (k "output")), (13, toText (k "id")), (13, toText (k "output"))] ∧
    Gen.ProfileGen.dtBlocks = [(12, (pathOf .getClient).map toText), (13, (pathOf .postClient).map toText)] ∧
    Gen.ProfileGen.serverOutput = [b "http_get", b "server", b "output"].map toText ∧
    Gen.ProfileGen.recoverSetting = 11 ∧
    Gen.ProfileGen.finalBlocks = [[b "http_get", b "server"], [b "http_get", b "client"], [b "http_get"],
      [b "http_post", b "client"], [b "http_post"], [b "stage"], [b "process_inject"], [b "dns_beacon"],
      [b "http_beacon"]].map (·.map toText) := by decide +kernel

theorem listProps_pinned : listProps.length = 9 := by decide +kernel

/-- the labels `noEmptyBlocks` / `empty_blocks_absent` speak about are exactly the labels of the `{ … }` blocks the generator
can create, at any depth (`Gen.ProfileGen.blocks`: every block path found in the source, prefix closed) -/
theorem brace_labels_are_blocks :
    sameSet (Gen.ProfileGen.blocks.filterMap List.getLast?) (braceLabels.map toText) = true := by decide +kernel

/-- the settings loop starts with `if isinstance(value, str): value = value.encode("latin-1")`: text taken from the
configuration reaches `value_to_string` as bytes (`vts (.str s) = C12.valueToString s`, everything escaped).  Without it
`str` values would take the `str` path, which escapes `"` only (a backslash in a user agent would change the value). -/
theorem str_values_encoded : Gen.ProfileGen.strValuesEncoded = true := by decide

/-- the SETTING_DOMAINS branch is the modelled one: join of the URIs that are not `None`, option omitted when the joined
text is empty, literal written from `uris.encode("latin-1")` (bytes path) -/
theorem uris_branch_modelled : Gen.ProfileGen.urisBranch = true := by decide

/-- the execute branch hands the quoted part of `CreateThread "…"` / `CreateRemoteThread "…"` to `value_to_string` as
`val[1:-1].encode()`: bytes path (`execItem` writes `C12.valueToString val`).  As a `str` only `"` would be escaped and a
backslash in a module name (`C:\win\a.dll!f`) would change or break the regenerated statement. -/
theorem execute_val_encoded : Gen.ProfileGen.executeValEncoded = true := by decide

/-- what the two facts above mean for the model: text and the joined URIs are written with the bytes escaping -/
theorem text_takes_bytes_path (s : Bytes) (uris : List (Option Bytes)) (st : St) :
    vts (.str s) = some (C12.valueToString s) ∧
    runAct uris st .none .uris =
      .ok (if (joinUris uris).isEmpty then st else st.app .httpGet (stmt (b "uri") [C12.valueToString (joinUris uris)])) := by
  refine ⟨rfl, ?_⟩
  simp only [runAct]
  split <;> rfl


/-- the STRING terminal is the regular expression C12's scanner (used by `litOK`) was derived from -/
theorem string_pattern_is_modelled :
    Gen.StrLit.stringPattern = C12.modelledPattern ∧ Gen.StrLit.stringPatternFlags = [] ∧
      Gen.StrLit.globalRegexFlags = 0 ∧ Gen.StrLit.quoteTerminals = ["STRING"] := by
  decide

/-! ### generation never fails -/

/-- For every well-formed configuration `from_beacon_config` returns a tree (no exception). -/
theorem generation_total (cfg : List (Nat × PVal)) (uris : List (Option Bytes)) (h : WellFormedCfg cfg = true) :
    ∃ t, fromBeaconConfig cfg uris = .ok t := by
  obtain ⟨t, ht, _⟩ := total_and_valid h
  exact ⟨t, ht⟩

/-- the settings may come in any TLV order, repeated or not: `settings_by_index` has unique keys -/
theorem settingsByIndex_nodup (tlvs : List (Nat × PVal)) : ((settingsByIndex tlvs).map (·.1)).Nodup :=
  settingsByIndex_keys_nodup tlvs

/-! ### the generated tree is valid -/

/-- For every well-formed configuration the generated tree is the tree of a well-formed derivation of the grammar as
it is now; hence Lark's Reconstructor (C10's `printTree`) prints it, to the token sequence of that derivation. -/
theorem generated_valid (cfg : List (Nat × PVal)) (uris : List (Option Bytes)) (h : WellFormedCfg cfg = true)
    (t : PTree) (ht : fromBeaconConfig cfg uris = .ok t) :
    ∃ d : C10.Deriv, d.WF C10.gen = true ∧ C10.toTree d = t.intern ∧
      C10.printTree C10.gen t.intern = some d.yield ∧ printable t = true := by
  obtain ⟨t', ht', hv⟩ := total_and_valid h
  rw [ht] at ht'
  cases ht'
  obtain ⟨d, hd, hdt⟩ := valid_deriv hv
  have hp := print_of_deriv d hd
  rw [hdt] at hp
  exact ⟨d, hd, hdt, hp, by simp [printable, hp]⟩

/-- Every token of the generated tree is well formed: an OPTION token is an alternative of the OPTION terminal, and every
STRING token (configuration text and bytes with `repr`-style escapes, numbers, the `"X" * n` placeholders, constants)
is matched by the STRING regular expression as exactly one token (`litOK`: C12's scanner consumes it up to its own
closing quote and nothing else) — no value can end its literal early or leave it open. -/
theorem generated_tokens_wellformed (cfg : List (Nat × PVal)) (uris : List (Option Bytes))
    (h : WellFormedCfg cfg = true) (t : PTree) (ht : fromBeaconConfig cfg uris = .ok t) : tokensOK t.kids = true := by
  simp only [WellFormedCfg, Bool.and_eq_true] at h
  unfold fromBeaconConfig at ht
  cases hr : runSettings uris St.init cfg with
  | error e => simp [hr] at ht
  | ok st =>
    simp only [hr, Except.ok.injEq] at ht
    subst ht
    exact finalize_tk (runSettings_tk uris cfg St.init st h.2 ⟨fun _ => rfl, fun _ h => by cases h⟩ hr)

/-- such a literal is a lexable token in the sense of C10's lexer model (whatever the keyword set) -/
theorem literal_token_lexes (kws : List C10.Text) (tok : Bytes) (h : litOK tok = true) :
    C10.lexableTok kws (toText tok) = true :=
  litOK_lexable kws tok h

/-- The regenerated text is valid: for every well-formed configuration whose tree carries no `# dns_resolver` comment
statement (`noComment`; the comment is, by design, not a token sequence for the lexer), `as_text()` exists and lexes
— white space and indentation of `postproc` included — back to exactly the tokens the Reconstructor printed, i.e. to the
token sequence of a derivation of the grammar (C10's lexer model `lexProfile`, any identifier-character test `idc`
that rejects blank, line feed and `;`). -/
theorem generated_text_relexes (idc : Nat → Bool) (hidc : C10.IdcOK idc) (cfg : List (Nat × PVal))
    (uris : List (Option Bytes)) (h : WellFormedCfg cfg = true) (t : PTree) (ht : fromBeaconConfig cfg uris = .ok t)
    (hc : noComment t.kids = true) :
    ∃ toks, C10.printTree C10.gen t.intern = some toks ∧
      (C10.asText C10.gen idc t.intern).bind (C10.lexProfile C10.gen.words) = some (toks.map C10.gen.tokText) := by
  have htk := generated_tokens_wellformed cfg uris h t ht
  simp only [WellFormedCfg, Bool.and_eq_true] at h
  unfold fromBeaconConfig at ht
  cases hr : runSettings uris St.init cfg with
  | error e => simp [hr] at ht
  | ok st =>
    simp only [hr, Except.ok.injEq] at ht
    subst ht
    obtain ⟨st', hs', hi⟩ := runSettings_inv uris cfg St.init h.2 inv_init
    rw [hr] at hs'
    cases hs'
    exact relex_of_valid idc hidc (finalize st).kids (finalize_allOf hi) htk hc

/-- Blocks with no content are omitted: in the generated tree no node that is printed as `keyword { … }` (http_get,
http_post, stage, process_inject, dns_beacon, http_beacon, client, server, output, metadata, id, transform_x86/x64,
execute, beacon_gate), at any depth, has an empty children list. -/
theorem empty_blocks_absent (cfg : List (Nat × PVal)) (uris : List (Option Bytes)) (h : WellFormedCfg cfg = true)
    (t : PTree) (ht : fromBeaconConfig cfg uris = .ok t) : noEmptyBlocks t.kids = true := by
  simp only [WellFormedCfg, Bool.and_eq_true] at h
  unfold fromBeaconConfig at ht
  cases hr : runSettings uris St.init cfg with
  | error e => simp [hr] at ht
  | ok st =>
    simp only [hr, Except.ok.injEq] at ht
    subst ht
    exact finalize_ne (runSettings_ne uris cfg St.init st h.2 (fun _ => rfl) hr)

/-! ### the generated profile is faithful -/

/-- For every well-formed configuration the dictionary of the re-parsed profile (`specDict` of the generated tree
without the `# dns_resolver` comment) is, entry for entry and in order, the dictionary the property promises
(`expectedDict`): sleeptime, jitter, spawnto, useragent, frame headers, URIs (those present, joined with `, `; no `uri`
entry when there is none), verbs, submit URI, static headers and
parameters, the steps of every BUILD group of the http-get / http-post client and of the http-get server output
(arguments byte-exact: `.tuple kw [.ok bytes]` by C12's `literal_roundtrip`), process-inject, DNS, stage and BeaconGate
options; guarded settings with a zero / empty value are absent. -/
theorem generated_faithful (cfg : List (Nat × PVal)) (uris : List (Option Bytes)) (h : WellFormedCfg cfg = true)
    (t : PTree) (ht : fromBeaconConfig cfg uris = .ok t) :
    specDict t.reparsed = expectedDict cfg uris := by
  simp only [WellFormedCfg, Bool.and_eq_true, decide_eq_true_eq] at h
  unfold fromBeaconConfig at ht
  cases hr : runSettings uris St.init cfg with
  | error e => simp [hr] at ht
  | ok st =>
    simp only [hr, Except.ok.injEq] at ht
    subst ht
    have := runSettings_finv uris cfg [] St.init st (finv_init uris) h.2 (by simpa using h.1) hr
    exact finalize_spec (by simpa using this)

/-- the same for a configuration given as an arbitrary TLV sequence (repeated settings allowed): dict semantics first -/
theorem generated_faithful_tlv (tlvs : List (Nat × PVal)) (uris : List (Option Bytes))
    (h : (settingsByIndex tlvs).all wfSetting = true) (t : PTree)
    (ht : fromBeaconConfig (settingsByIndex tlvs) uris = .ok t) :
    specDict t.reparsed = expectedDict (settingsByIndex tlvs) uris :=
  generated_faithful _ uris (by simp [WellFormedCfg, h, settingsByIndex_keys_nodup]) t ht

/-- plain text options state the configured text, whatever its characters (backslashes, quotes, control characters,
non-ASCII latin-1): the literal written for a text value is one STRING token and decodes (profile escape rules,
`string_token_to_bytes`) to the text itself; the dictionary value `lit (.str s)` is the text between its quotes -/
theorem text_literal_decodes (s : Bytes) :
    ∃ l, vts (.str s) = some l ∧ litOK l = true ∧ C12.stringTokenToBytes l = .ok s ∧ unquote l = lit (.str s) :=
  ⟨_, rfl, litOK_bytes s, C12.roundtrip s, rfl⟩

/-- the same for the `uri` option: its literal decodes to the URIs that are present, joined with `, ` -/
theorem uris_literal_decodes (uris : List (Option Bytes)) :
    litOK (C12.valueToString (joinUris uris)) = true ∧
      C12.stringTokenToBytes (C12.valueToString (joinUris uris)) = .ok (joinUris uris) :=
  ⟨litOK_bytes _, C12.roundtrip _⟩

/-- the literal written for any scalar consists of printable ASCII characters only: a line feed in configured text is
written `\n`, never as a raw line break -/
theorem scalar_literal_one_line (v : PVal) (l : Bytes) (h : vts v = some l) : ∀ c ∈ l, 0x20 ≤ c ∧ c < 0x7f :=
  vts_printable h

/-- The `# dns_resolver "…";` statement stays on one line, for every well-formed configuration: wherever the generated
tree has a `comment_dns_resolver` node, none of its tokens contains a line feed, so the comment the lexer sees
(`SH_COMMENT`, up to the end of the line) ends exactly where the statement ends and swallows nothing else; `reparsed`
(the tree without that statement) is then the tree of the regenerated text. -/
theorem resolver_comment_one_line (cfg : List (Nat × PVal)) (uris : List (Option Bytes)) (h : WellFormedCfg cfg = true)
    (t : PTree) (ht : fromBeaconConfig cfg uris = .ok t) : t.kids.commentsOneLine = true := by
  simp only [WellFormedCfg, Bool.and_eq_true] at h
  unfold fromBeaconConfig at ht
  cases hr : runSettings uris St.init cfg with
  | error e => simp [hr] at ht
  | ok st =>
    simp only [hr, Except.ok.injEq] at ht
    subst ht
    exact finalize_col (runSettings_col uris cfg St.init st h.2 ⟨fun _ => rfl, fun _ h => by cases h⟩ hr)

/-- every plain option states its value: the literal written for a number / text / bytes value decodes to the decimal
digits / the text / the bytes, and the dictionary value `lit v` is the text between its quotes -/
theorem scalar_literal_decodes (v : PVal) (hw : wfScalar v = true) :
    ∃ s, vts v = some s ∧ C12.stringTokenToBytes s = .ok (scalarBytes v) ∧ unquote s = lit v := by
  obtain ⟨s, hs⟩ := wfScalar_vts hw
  exact ⟨s, hs, vts_decodes hw hs, unquote_vts hw hs⟩

/-- execute items state the configured names byte for byte, whatever their characters: the generated statement(s) for a
well-formed item consist of well-formed tokens (the quoted part is one STRING literal) and their dictionary entries are the
promised ones — for `CreateThread "<text>"` the tuple `(CreateThread, <bytes of text>)` decoded from the literal -/
theorem execute_item_faithful (s : Bytes) (h : wfExecItem (some s) = true) :
    ∃ f, execItem (some s) = .ok f ∧ tokensOK f = true ∧ specForest execN execPath f.reparsed = expExecItem s := by
  obtain ⟨f, hf, hs⟩ := spec_execItem h
  obtain ⟨f', hf', ht⟩ := tk_execItem s
  rw [hf] at hf'
  cases hf'
  exact ⟨f, hf, ht, hs⟩

/-- byte-valued options (frame headers, transform arguments, static headers) decode to the exact bytes -/
theorem bytes_literal_decodes (v : Bytes) : C12.stringTokenToBytes (C12.valueToString v) = .ok v :=
  C12.roundtrip v

/-! ### non-vacuity -/

/-- sleeptime, a user agent with a quote, a backslash, a line feed and `é`, an http-get client program with binary arguments,
an execute list with a module name containing a backslash, a quote and `é` (UTF-8), a gate list, a DNS resolver with a line
feed (written as the `# dns_resolver` comment) -/
def exampleCfg : List (Nat × PVal) := [
  (3, .int 60000), (9, .str [65, 34, 92, 10, 233]), (8, .str []), (66, .str [56, 10, 56]),
  (12, .transform [.static .hdr [65, 58, 32, 66], .build (k "metadata"), .en .base64, .arg .prepend [0, 34, 92, 255],
    .arg .header [67]]),
  (11, .recover [.print, .prepend 3, .base64]),
  (51, .execute [some (k "CreateThread"), some (k "NtQueueApcThread_s"),
    some (k "CreateRemoteThread \"C:\\a\"" ++ [195, 169] ++ k ".dll!f+0x10\"")]),
  (78, .gate [k "Core", k "ExitThread"])]

example : WellFormedCfg exampleCfg = true := by decide +kernel
example : (fromBeaconConfig exampleCfg [some [47, 120]]).toOption.map printable = some true := by decide +kernel
example : (fromBeaconConfig exampleCfg [some [47, 120]]).toOption.map (fun t => noComment t.kids) = some false := by
  decide +kernel
example : (fromBeaconConfig (exampleCfg.filter (·.1 != 66)) [some [47, 120]]).toOption.map (fun t => noComment t.kids) = some true := by
  decide +kernel
example : (fromBeaconConfig exampleCfg [some [47, 120]]).toOption.map (fun t => (specDict t.reparsed).length) = some 15 := by
  decide +kernel
/-- URIs: a missing one (odd number of SETTING_DOMAINS fields) is skipped; with none left the `uri` option is absent -/
example : (expectedDict exampleCfg [some [47, 120], none, some []]).length = 15 ∧ (expectedDict exampleCfg [none]).length = 14 ∧
    (expectedDict exampleCfg [some []]).length = 14 := by decide +kernel
/-- the execute item `CreateRemoteThread "C:\a"é.dll!f+0x10"` is promised with exactly the bytes between its quotes -/
example : expExecItem (k "CreateRemoteThread \"C:\\a\"" ++ [195, 169] ++ k ".dll!f+0x10\"") =
    [([k "process-inject", k "execute"], .tuple (k "CreateRemoteThread") [.ok (k "C:\\a\"" ++ [195, 169] ++ k ".dll!f+0x10")])] := by
  decide +kernel
/-- the user agent `A"\<LF>é` is promised as the text `A\"\\\n\xe9` between the quotes -/
example : lit (.str [65, 34, 92, 10, 233]) = b "A\\\"\\\\\\n\\xe9" := by decide +kernel

end C13

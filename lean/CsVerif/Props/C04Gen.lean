import CsVerif.Gen.PyC2T
import CsVerif.Props.C04
import CsVerif.Lemmas.C04Gen
/-!
C04 — the tie between the source text and the model, by (untyped) translation.

`Gen/PyC2T.lean` is produced on every run by `tools/py2leanu.py` from the *source* of `HttpDataTransform.__init__`, `.transform`
and `.recover` (c2.py): every Python value is a `PyU.V`, every Python operation one total function of
`lean/CsVerif/Model/PyU.lean` (+ `PyU_T04.lean`); `self` is an instance record with the attributes `tsteps`, `rsteps`; the two
`for step, step_val in …` loops are separate definitions run by `PyU.forList`; `assert` raises `PyU.ExcA.assertion`;
`base64.b64encode / urlsafe_b64encode / b64decode / urlsafe_b64decode` and the stream `random.getrandbits` are EXTERNAL:
parameters of the translated definitions, instantiated here with the codec models of `Model/C04.lean` and the scripted mask
stream (`Model/C04Gen.lean`); `netbios_encode`, `netbios_decode`, `xor`, `p32be` are the typed translations of utils.py
(`Gen/PyUtils.lean`, tied to the C20 model by `Props/C20Gen.lean`).

Domain of the equivalence theorems: `C04Gen.stepsOf vs = some ss` — every item of the Python step list `vs` is a tuple
`(name, value)` that denotes a step of the model (`C04Gen.stepOf`): `name` an ASCII `str` in any mixture of upper and lower case
(so the classification after `step.lower()` is part of what is proved), `value` of the kind the step asserts (bytes for
`header / parameter / _header / _hostheader / _parameter`, bytes or int-like for `append / prepend`, anything for the steps that
ignore it; for a step of unknown name a value whose `repr` is modelled).  The constructor theorem needs no domain at all.

`gen_transform` / `gen_recover` state that the translated definitions compute exactly the encoding of what the hand-written
model computes — including `ValueError` (unknown step, base64 / NetBIOS decoding failures), `KeyError` (missing header /
parameter), `IndexError` (odd NetBIOS input) and the `AssertionError` of `uri_append` / `parameter` on a response.  So every
theorem of `Props/C04.lean` is a theorem about the function text as it stands now (the corollaries below restate the central
ones for the translated definitions), and an edit of one of the three methods that changes its meaning breaks the proof here.
Helper lemmas: `Lemmas/C04Gen.lean`.
-/
namespace C04Gen
open PyU C04

/-! ### the translated definitions equal the model -/

/-- `HttpDataTransform(steps, reverse, build)` for a `list` of arbitrary items: `tsteps` / `rsteps` are `C04Gen.mkLists`
(copy / reversed copy, swapped when `reverse` is true, `("BUILD", build)` put first / last when `build is not None`) -/
theorem gen_http_data_transform_init (vs : List V) (reverse build : V) :
    Gen.PyC2T.http_data_transform_init (.list vs) reverse build
      = .ok (encT (mkLists vs (truthy reverse) build).1 (mkLists vs (truthy reverse) build).2) :=
  gen_http_data_transform_init_proof vs reverse build

/-- the same for a `tuple` of steps -/
theorem gen_http_data_transform_init_tuple (vs : List V) (reverse build : V) :
    Gen.PyC2T.http_data_transform_init (.tuple vs) reverse build
      = .ok (encT (mkLists vs (truthy reverse) build).1 (mkLists vs (truthy reverse) build).2) :=
  gen_http_data_transform_init_tuple_proof vs reverse build

/-- on step lists of the domain the constructed lists denote `C04.mkTransform` -/
theorem gen_http_data_transform_init_model (vs : List V) (ss : List Step) (h : stepsOf vs = some ss) (reverse build : V) :
    ∃ tvs rvs, Gen.PyC2T.http_data_transform_init (.list vs) reverse build = .ok (encT tvs rvs) ∧
      stepsOf tvs = some (mkTransform ss (truthy reverse) (buildOf build)).tsteps ∧
      stepsOf rvs = some (mkTransform ss (truthy reverse) (buildOf build)).rsteps :=
  ⟨_, _, gen_http_data_transform_init_proof vs reverse build, stepsOf_mkLists vs ss h (truthy reverse) build⟩

/-- `transform`: for every instance whose `tsteps` denote the model steps `t.tsteps`, every mask stream, every `C2Data`-like
tuple (`cls` any class with the fields `output, metadata, id`), `request` `None` or a request -/
theorem gen_transform (rand : Rand) (cls : Cls) (hc : cls.fields = ["output", "metadata", "id"]) (tvs rvs : List V)
    (t : Transform) (h : stepsOf tvs = some t.tsteps) (c2 : C2Data) (req : Option Req) :
    Gen.PyC2T.transform b64encodeX urlsafeB64encodeX (getrandbitsX rand) (encT tvs rvs) (encC2 cls c2) (encOptReq req)
      = encR encReq (C04.transform t rand c2 req) :=
  gen_transform_proof rand cls hc tvs rvs t h c2 req

/-- `recover`: for every instance whose `rsteps` denote `t.rsteps` and every request / response (`status`, `reason`, `request`
of a response arbitrary); the result is a `ClientC2Data` for a request, a `ServerC2Data` for a response -/
theorem gen_recover (status reason request : V) (tvs rvs : List V) (t : Transform) (h : stepsOf rvs = some t.rsteps)
    (http : Http) :
    Gen.PyC2T.recover b64decodeX urlsafeB64decodeX (encT tvs rvs) (encHttp status reason request http)
      = encR (encC2 (resultCls http)) (C04.recover t http) :=
  gen_recover_proof status reason request tvs rvs t h http

/-! ### the property theorems, restated for the translated definitions -/

/-- the constructor, for arbitrary items: `rsteps` is `tsteps` reversed -/
theorem gen_rsteps_eq_reverse_tsteps (vs : List V) (rev : Bool) (build : V) :
    (mkLists vs rev build).2 = (mkLists vs rev build).1.reverse := by
  simp only [mkLists]
  cases rev <;> cases isNone build <;> simp

/-- `recover_transform_partial` for the source text: construct (`HttpDataTransform(steps)`), transform, recover.  For every
Python step list `vs` that denotes the compiled form of a valid program (step names in any case), every payload, mask stream and
initial request (empty initial URI when the program uses uri-append) -/
theorem gen_recover_transform_partial (p : Ref.Program) (hv : Ref.valid p = true) (vs : List V)
    (h : stepsOf vs = some (Ref.compile p)) (cls : Cls) (hc : cls.fields = ["output", "metadata", "id"]) (c2 : C2Data)
    (rand : Rand) (req : Option Req) (hu : Ref.usesUri p = true → (req.getD emptyReq).uri = []) :
    ∃ self r, Gen.PyC2T.http_data_transform_init_default2 (.list vs) = .ok self ∧
      transformG rand self (encC2 cls c2) (encOptReq req) = .ok (encReq r) ∧
      recoverG self (encReq r) = .ok (encC2 Gen.PyC2U.ClientC2Data (Ref.normalise p c2)) := by
  obtain ⟨tvs, rvs, h0, h1, h2⟩ := gen_http_data_transform_init_model vs _ h (.bool false) .none
  have hp := recover_transform_partial p hv c2 rand req hu
  simp only [truthy, buildOf, isNone, if_true] at h1 h2
  cases ht : C04.transform (mkTransform (Ref.compile p) false none) rand c2 req with
  | error e => rw [ht] at hp; cases hp
  | ok r =>
    rw [ht] at hp
    refine ⟨encT tvs rvs, r, h0, ?_, ?_⟩
    · rw [transformG, gen_transform rand cls hc tvs rvs _ h1 c2 req, ht]; rfl
    · have := gen_recover .none .none .none tvs rvs _ h2 (.request r)
      simp only [encHttp] at this
      rw [recoverG, this]
      simp only [Except.bind] at hp
      rw [hp]; rfl

/-- one block `field { es…; print; }` (`chain_inverse` through the source text): every order and repetition of the seven encoders -/
theorem gen_block_roundtrip (f : Field) (es : List Enc) (hok : ∀ e ∈ es, encOk e = true) (vs : List V)
    (h : stepsOf vs = some (Ref.Block.toSteps ⟨f, es, .print⟩)) (cls : Cls) (hc : cls.fields = ["output", "metadata", "id"])
    (c2 : C2Data) (rand : Rand) (req : Option Req) :
    ∃ self r, Gen.PyC2T.http_data_transform_init_default2 (.list vs) = .ok self ∧
      transformG rand self (encC2 cls c2) (encOptReq req) = .ok (encReq r) ∧
      recoverG self (encReq r)
        = .ok (encC2 Gen.PyC2U.ClientC2Data (Ref.normalise [.block ⟨f, es, .print⟩] c2)) := by
  have hv : Ref.valid [.block ⟨f, es, .print⟩] = true := by simpa [Ref.valid, Ref.places] using hok
  exact gen_recover_transform_partial _ hv vs (by simpa [Ref.compile] using h) cls hc c2 rand req
    (fun hu => by simp [Ref.usesUri, Ref.places, Ref.Item.place] at hu)

/-- server side for the source text: `HttpDataTransform(parse_recover_binary(..), reverse=True, build="output")`, transform,
recover from the response (any status / reason) -/
theorem gen_recover_transform_server (es : List Enc) (hok : ∀ e ∈ es, encOk e = true) (vs : List V)
    (h : stepsOf vs = some (Ref.serverSteps es)) (cls : Cls) (hc : cls.fields = ["output", "metadata", "id"]) (c2 : C2Data)
    (rand : Rand) (req : Option Req) (status reason request : V) :
    ∃ self r, Gen.PyC2T.http_data_transform_init (.list vs) (.bool true) (lit "output") = .ok self ∧
      transformG rand self (encC2 cls c2) (encOptReq req) = .ok (encReq r) ∧
      recoverG self (encHttp status reason request (.response r.headers r.body))
        = .ok (encC2 Gen.PyC2U.ServerC2Data ⟨some ((c2.output).getD []), none, none⟩) := by
  obtain ⟨tvs, rvs, h0, h1, h2⟩ := gen_http_data_transform_init_model vs _ h (.bool true) (lit "output")
  have hb : buildOf (lit "output") = some (some .output) := by decide
  have hp := recover_transform_server es hok c2 rand req
  simp only [truthy, hb] at h1 h2
  cases ht : C04.transform (mkTransform (Ref.serverSteps es) true (some (some .output))) rand c2 req with
  | error e => rw [ht] at hp; cases hp
  | ok r =>
    rw [ht] at hp
    refine ⟨encT tvs rvs, r, h0, ?_, ?_⟩
    · rw [transformG, gen_transform rand cls hc tvs rvs _ h1 c2 req, ht]; rfl
    · rw [recoverG, gen_recover status reason request tvs rvs _ h2 (.response r.headers r.body)]
      simp only [Except.bind] at hp
      rw [hp]; rfl

/-- reference-encoded messages (base64url unpadded, as Cobalt Strike emits it) are recovered by the source text -/
theorem gen_model_decodes_ref (p : Ref.Program) (hv : Ref.valid p = true) (vs : List V)
    (h : stepsOf vs = some (Ref.compile p)) (c2 : C2Data) (rand : Rand) (req : Req)
    (hu : Ref.usesUri p = true → req.uri = []) :
    ∃ self, Gen.PyC2T.http_data_transform_init_default2 (.list vs) = .ok self ∧
      recoverG self (encReq (Ref.encode p rand c2 req)) = .ok (encC2 Gen.PyC2U.ClientC2Data (Ref.normalise p c2)) := by
  obtain ⟨tvs, rvs, h0, _, h2⟩ := gen_http_data_transform_init_model vs _ h (.bool false) .none
  simp only [truthy, buildOf, isNone, if_true] at h2
  refine ⟨encT tvs rvs, h0, ?_⟩
  have := gen_recover .none .none .none tvs rvs _ h2 (.request (Ref.encode p rand c2 req))
  simp only [encHttp] at this
  rw [recoverG, this, model_decodes_ref p hv c2 rand req hu]; rfl

/-- the exceptions the source text of `recover` can raise on the domain: ValueError, KeyError, IndexError, AssertionError -/
theorem gen_recover_exceptions (status reason request : V) (tvs rvs : List V) (t : Transform) (h : stepsOf rvs = some t.rsteps)
    (http : Http) (e : ExcA)
    (he : Gen.PyC2T.recover b64decodeX urlsafeB64decodeX (encT tvs rvs) (encHttp status reason request http) = .error e) :
    ∃ e', C04.recover t http = .error e' ∧ e = encExc e' := by
  rw [gen_recover status reason request tvs rvs t h http] at he
  cases hr : C04.recover t http with
  | ok c => rw [hr] at he; cases he
  | error e' => rw [hr] at he; exact ⟨e', rfl, by injection he with he; exact he.symm⟩

/-! ### Non-vacuity: the domain is inhabited, the translated definitions evaluated on concrete inputs -/

/-- `[("BUILD", "metadata"), ("NetBIOS", True), ("prepend", b"="), ("Header", b"h")]` -/
def exampleSteps : List V :=
  [.tuple [lit "BUILD", lit "metadata"], .tuple [lit "NetBIOS", .bool true], .tuple [lit "prepend", .bytes [61]],
   .tuple [lit "Header", .bytes [104]]]

example : stepsOf exampleSteps
    = some (Ref.compile [.block ⟨.metadata, [.netbios, .prepend (.bytes [61])], .header [104]⟩]) := by decide +kernel
-- int-like arguments, every static, an unknown step
example : stepsOf [.tuple [lit "APPEND", .int 3], .tuple [lit "append", .bool true], .tuple [lit "_HostHeader", .bytes [72, 58, 32, 120]],
      .tuple [lit "_parameter", .bytes [97, 61, 98]], .tuple [lit "uri_append", .none], .tuple [lit "base32", .bool true]]
    = some [.enc (.append (.int 3)), .enc (.append (.int 1)), .static (.hostheader [72, 58, 32, 120]),
        .static (.parameter [97, 61, 98]), .term .uriAppend, .unknown] := by decide +kernel
-- outside the domain: a `str` argument of `header`, a non-ASCII step name
example : stepsOf [.tuple [lit "header", lit "h"]] = none := by decide +kernel
example : stepsOf [.tuple [.str [233], .bool true]] = none := by decide +kernel

-- HttpDataTransform(exampleSteps)
example : Gen.PyC2T.http_data_transform_init_default2 (.list exampleSteps)
    = .ok (encT exampleSteps exampleSteps.reverse) := by decide +kernel
-- HttpDataTransform([("print", True), ("append", 2)], reverse=True, build="output")
example : Gen.PyC2T.http_data_transform_init (.list [.tuple [lit "print", .bool true], .tuple [lit "append", .int 2]]) (.bool true)
      (lit "output")
    = .ok (encT [.tuple [lit "BUILD", lit "output"], .tuple [lit "append", .int 2], .tuple [lit "print", .bool true]]
        [.tuple [lit "print", .bool true], .tuple [lit "append", .int 2], .tuple [lit "BUILD", lit "output"]]) := by
  decide +kernel
-- a non-iterable `steps`: `list(5)` is a TypeError
example : Gen.PyC2T.http_data_transform_init_default2 (.int 5) = .error .typeError := by decide +kernel

-- transform(C2Data(metadata=b"\xab")) = HttpRequest(b"", b"", {}, {b"h": b"=kl"}, b"")
example : transformG (fun _ => 0) (encT exampleSteps exampleSteps.reverse) (encC2 Gen.PyC2U.C2Data ⟨none, some [171], none⟩) .none
    = .ok (encReq ⟨[], [], [], [([104], [61, 107, 108])], []⟩) := by decide +kernel
-- … and recover of it gives ClientC2Data(metadata=b"\xab")
example : recoverG (encT exampleSteps exampleSteps.reverse) (encReq ⟨[], [], [], [([104], [61, 107, 108])], []⟩)
    = .ok (encC2 Gen.PyC2U.ClientC2Data ⟨none, some [171], none⟩) := by decide +kernel
-- mask with the scripted value 0x01020304
example : transformG (fun _ => 0x01020304)
      (encT [.tuple [lit "BUILD", lit "id"], .tuple [lit "mask", .bool true], .tuple [lit "print", .bool true]] [])
      (encC2 Gen.PyC2U.C2Data ⟨none, none, some [65, 66]⟩) .none
    = .ok (encReq ⟨[], [], [], [], [1, 2, 3, 4, 64, 64]⟩) := by decide +kernel
-- server side: recover from a response
example : recoverG (encT [] [.tuple [lit "print", .bool true], .tuple [lit "append", .int 2], .tuple [lit "mask", .bool true],
      .tuple [lit "BUILD", lit "output"]])
      (.inst Gen.PyC2U.HttpResponse [.int 200, encDict [], .bytes [79, 75], .bytes [1, 2, 3, 4, 64, 64, 88, 88], .none])
    = .ok (encC2 Gen.PyC2U.ServerC2Data ⟨some [65, 66], none, none⟩) := by decide +kernel
-- the raising branches: unknown step, missing header, `uri_append` on a response, a non-message argument
example : transformG (fun _ => 0) (encT [.tuple [lit "base32", .bool true]] []) (encC2 Gen.PyC2U.C2Data ⟨none, none, none⟩) .none
    = .error (.py .valueError) := by decide +kernel
example : recoverG (encT [] [.tuple [lit "header", .bytes [104]]]) (encReq ⟨[], [], [], [], []⟩)
    = .error (.py .keyError) := by decide +kernel
example : recoverG (encT [] [.tuple [lit "URI_APPEND", .bool true]])
      (.inst Gen.PyC2U.HttpResponse [.int 200, encDict [], .bytes [], .bytes [], .none]) = .error .assertion := by decide +kernel
example : recoverG (encT [] []) .none = .error .assertion := by decide +kernel
-- outside the domain of the model, still what the code does: `("header", "h")` fails the `assert isinstance(step_val, bytes)`,
-- a step name `None` has no `.lower()`
example : transformG (fun _ => 0) (encT [.tuple [lit "header", lit "h"]] []) (encC2 Gen.PyC2U.C2Data ⟨none, none, none⟩) .none
    = .error .assertion := by decide +kernel
example : transformG (fun _ => 0) (encT [.tuple [.none, .bool true]] []) (encC2 Gen.PyC2U.C2Data ⟨none, none, none⟩) .none
    = .error (.py .attributeError) := by decide +kernel

end C04Gen

import CsVerif.Gen.PyC2Text
import CsVerif.Props.C10
import CsVerif.Lemmas.C10Gen
/-!
C10 — the tie between the source text of `as_text`'s whitespace post-processor and the model, by (untyped) translation.

`Gen/PyC2Text.lean` is produced on every run by `tools/py2leanu.py` from the *source* of the generator `postproc` nested in
`C2Profile.as_text` (the plug-in `tools/gen/py_c2text.py` checks that `as_text` is exactly `def postproc(items): …` followed by
`return Reconstructor(c2profile_parser).reconstruct(self.tree, postproc)` and that the closure has no free variables).  A
generator is translated as the list of the values it yields (`list(postproc(items))`); the outer `for item in items` and the
inner `for i, x in enumerate(line)` are separate definitions run by `PyU.forList`.

`gen_as_text_postproc` states that the translated definition computes, for every list of `str` items, exactly the item list of
the hand-written model `C10.postproc`.  So `postproc_tokens` / `join_eq_concat` of `Props/C10.lean` are theorems about the
function text as it stands now (restated below), and an edit of `postproc` that changes its meaning breaks the proof here.
The call `Reconstructor(…).reconstruct(tree, postproc)` itself is Lark's: it stays modelled by `C10.printTree` (the item
stream) and `C10.joinItems` (the blanks it may insert between two yielded strings) and tied by the correspondence streams of C10.
Helper lemmas: `Lemmas/C10Gen.lean`.
-/
namespace C10Gen
open PyU

/-- `list(postproc(items))` for every list of `str` items -/
theorem gen_as_text_postproc (ts : List C10.Text) :
    Gen.PyC2Text.as_text_postproc (encItems ts) = .ok (encItems (C10.postproc ts)) :=
  gen_as_text_postproc_proof ts

/-- the driver's reading of the translated definition is the model's post-processor -/
theorem gen_postprocG (ts : List C10.Text) : postprocG ts = some (C10.postproc ts) := by
  have hm : ∀ l : List C10.Text, (l.map V.str).mapM strOf? = some l := by
    intro l
    induction l with
    | nil => rfl
    | cons x xs ih => simp only [List.map_cons, List.mapM_cons, strOf?, ih]; rfl
  simp only [postprocG, gen_as_text_postproc]
  simp only [encItems, hm]

/-! ### the property theorems, restated for the translated definition -/

/-- `postproc_tokens`: lexing the text that `Reconstructor.reconstruct` builds from what the source of `postproc` yields gives
the item list back, for item lists made of lexable tokens that end with `;`, `{` or `}` -/
theorem gen_postproc_tokens (kws : List C10.Text) (hk : C10.KwClean kws = true) (idc : Nat → Bool) (hi : C10.IdcOK idc)
    (ts : List C10.Text) (hl : ∀ t ∈ ts, C10.lexableTok kws t = true) (ht : C10.terminated ts = true) :
    ∃ out, Gen.PyC2Text.as_text_postproc (encItems ts) = .ok (encItems out) ∧
      C10.lexProfile kws (C10.joinItems idc out) = some ts :=
  ⟨C10.postproc ts, gen_as_text_postproc ts, C10.postproc_tokens kws hk idc hi ts hl ht⟩

/-- `join_eq_concat`: `Reconstructor.reconstruct` never inserts a blank of its own into what the source of `postproc` yields -/
theorem gen_join_eq_concat (idc : Nat → Bool) (h : C10.IdcOK idc) (ts : List C10.Text) :
    ∃ out, Gen.PyC2Text.as_text_postproc (encItems ts) = .ok (encItems out) ∧ C10.joinItems idc out = out.flatten :=
  ⟨C10.postproc ts, gen_as_text_postproc ts, C10.join_eq_concat idc h ts⟩

/-- `as_text` with the translated post-processor re-lexes to the source tokens -/
theorem gen_as_text_relex (G : C10.Table) (h : C10.PrintWF G = true) (hk : C10.KwClean G.words = true)
    (idc : Nat → Bool) (hi : C10.IdcOK idc) (d : C10.Deriv) (hd : d.WF G = true)
    (hl : ∀ t ∈ d.yield, C10.lexableTok G.words (G.tokText t) = true)
    (ht : C10.terminated (d.yield.map G.tokText) = true) :
    ((C10.printTree G (C10.toTree d)).bind (asTextOfG G idc)).bind (C10.lexProfile G.words) = some (d.yield.map G.tokText) := by
  rw [C10.print_eq_source G h d hd]
  simp only [Option.bind_some, asTextOfG, gen_postprocG, Option.map_some]
  exact C10.postproc_tokens G.words hk idc hi _ (by simpa using hl) ht

/-! ### Non-vacuity: the translated definition evaluated on concrete inputs -/

-- list(postproc(["set", "x", '"1"', ";"])) = ["", "set", " ", "x", " ", '"1"', ";", "\n"]
example : Gen.PyC2Text.as_text_postproc (.list [lit "set", lit "x", lit "\"1\"", lit ";"])
    = .ok (.list [lit "", lit "set", lit " ", lit "x", lit " ", lit "\"1\"", lit ";", lit "\u000a"]) := by decide +kernel
-- a block: blank line before `{` lines, four blanks of indentation inside, the closing brace back at the margin
example : Gen.PyC2Text.as_text_postproc (.list [lit "a", lit "{", lit "b", lit ";", lit "}"])
    = .ok (.list [lit "\u000a", lit "", lit "a", lit " ", lit "{", lit "\u000a", lit "    ", lit "b", lit ";", lit "\u000a",
        lit "", lit "}", lit "\u000a"]) := by decide +kernel
-- items after the last `;` / `{` / `}` are dropped
example : Gen.PyC2Text.as_text_postproc (.list [lit ";", lit "x"]) = .ok (.list [lit "", lit ";", lit "\u000a"]) := by decide +kernel
-- more `}` than `{`: the indentation is negative, `" " * 4 * indent` is empty
example : Gen.PyC2Text.as_text_postproc (.list [lit "}", lit "}"])
    = .ok (.list [lit "", lit "}", lit "\u000a", lit "", lit "}", lit "\u000a"]) := by decide +kernel
-- an item that is not a `str`: `5 in "{};"` is a TypeError; `None` is not iterable
example : Gen.PyC2Text.as_text_postproc (.list [.int 5]) = .error .typeError := by decide +kernel
example : Gen.PyC2Text.as_text_postproc .none = .error .typeError := by decide +kernel

end C10Gen

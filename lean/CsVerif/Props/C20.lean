import CsVerif.Lemmas.C20
/-! C20 property theorems. -/
namespace C20

theorem xor_length (d k : Bytes) : (xor d k).length = d.length := by
  unfold xor; split <;> simp [xorCore]

theorem xor_involutive (d k : Bytes) : xor (xor d k) k = d := by
  unfold xor; split
  · rfl
  · exact xorCore_involutive d k

theorem xor_identity (d k : Bytes) (h : ∀ b ∈ k, b = 0) : xor d k = d := by
  unfold xor
  have : k.all (· == 0) = true := by simpa using h
  simp [this]

theorem netbios_decode_encode (data : Bytes) (off : Int) (e : Bytes)
    (h : netbiosEncode data off = .ok e) : netbiosDecode e off = .ok data := by
  induction data generalizing e with
  | nil =>
    simp [netbiosEncode, nbEncodeInts, bytesOfInts] at h
    subst h; rfl
  | cons c cs ih =>
    simp only [netbiosEncode, nbEncodeInts, List.flatMap_cons, List.cons_append, List.nil_append] at h
    obtain ⟨h0, h1, e1, he1, rfl⟩ := bytesOfInts_cons_ok h
    obtain ⟨h2, h3, e2, he2, rfl⟩ := bytesOfInts_cons_ok he1
    have ih' := ih e2 (by simpa [netbiosEncode, nbEncodeInts] using he2)
    unfold netbiosDecode at ih' ⊢
    simp only [nbDecodeInts]
    cases hd : nbDecodeInts e2 off with
    | error x => simp [hd] at ih'
    | ok vs =>
      simp only [hd] at ih'
      simp only [Except.map, bytesOfInts]
      have hc := c.toNat_lt
      have ha : ((UInt8.ofNat (((c.toNat / 16 : Nat) : Int) + off).toNat).toNat : Int) = ((c.toNat / 16 : Nat) : Int) + off := by
        rw [UInt8.toNat_ofNat']
        omega
      have hb : ((UInt8.ofNat (((c.toNat % 16 : Nat) : Int) + off).toNat).toNat : Int) = ((c.toNat % 16 : Nat) : Int) + off := by
        rw [UInt8.toNat_ofNat']
        omega
      rw [ha, hb]
      have hv : (((c.toNat / 16 : Nat) : Int) + off - off) * 16 + (((c.toNat % 16 : Nat) : Int) + off - off) = (c.toNat : Int) := by omega
      rw [hv, ih']
      simp
      omega

theorem fromBytes_toBytes (o : Order) (sg : Bool) (size : Nat) (n : Int) (b : Bytes)
    (hq : ¬ (size = 0 ∧ n = -1)) (h : toBytes o sg size n = .ok b) : fromBytes o sg b = n := by
  unfold toBytes at h
  cases sg with
  | false =>
    simp only [Bool.false_eq_true, ↓reduceIte] at h
    split at h
    · rename_i hr
      injection h with h; subst h
      simp only [fromBytes, Bool.false_eq_true, false_and, ↓reduceIte]
      rw [fromBytesU_toBytesU _ _ _ (by omega)]
      omega
    · cases h
  | true =>
    simp only [↓reduceIte] at h
    rw [if_neg hq] at h
    split at h
    · rename_i hr
      injection h with h; subst h
      simp only [fromBytes, toBytesU_length, true_and]
      by_cases hs : size = 0
      · subst hs
        simp at hr
        have : n = 0 := by omega
        subst this
        simp [fromBytesU_toBytesU]
      · have hev := pow256_even size (by omega)
        by_cases hn : n ≥ 0
        · simp only [hn, ↓reduceIte]
          rw [fromBytesU_toBytesU _ _ _ (by omega)]
          have : ¬ (size > 0 ∧ n.toNat ≥ 256 ^ size / 2) := by omega
          simp only [this, ↓reduceIte]
          omega
        · simp only [hn, ↓reduceIte]
          rw [fromBytesU_toBytesU _ _ _ (by omega)]
          have : (size > 0 ∧ (n + ((256 ^ size : Nat) : Int)).toNat ≥ 256 ^ size / 2) := by omega
          simp only [this, and_self, ↓reduceIte]
          omega
    · cases h

theorem toBytes_fromBytes (o : Order) (sg : Bool) (d : Bytes) :
    toBytes o sg d.length (fromBytes o sg d) = .ok d := by
  have hlt := fromBytesU_lt o d
  have hrt := toBytesU_fromBytesU o d
  unfold toBytes fromBytes
  cases sg with
  | false =>
    simp only [Bool.false_eq_true, false_and, ↓reduceIte]
    rw [if_pos (by omega)]
    simp [hrt]
  | true =>
    simp only [true_and, ↓reduceIte]
    by_cases hs : d.length = 0
    · have : d = [] := List.length_eq_zero_iff.mp hs
      subst this
      simp [fromBytesU, toBytesU, toLE]
      cases o <;> simp [fromLE]
    · have hev := pow256_even d.length (by omega)
      by_cases hhi : fromBytesU o d ≥ 256 ^ d.length / 2
      · have hc : d.length > 0 ∧ fromBytesU o d ≥ 256 ^ d.length / 2 := ⟨by omega, hhi⟩
        simp only [hc, and_self, ↓reduceIte]
        rw [if_neg (by omega)]
        rw [if_pos (by omega)]
        rw [if_neg (by omega)]
        have : ((fromBytesU o d : Int) - ((256 ^ d.length : Nat) : Int) + ((256 ^ d.length : Nat) : Int)).toNat = fromBytesU o d := by omega
        rw [this, hrt]
      · have hc : ¬ (d.length > 0 ∧ fromBytesU o d ≥ 256 ^ d.length / 2) := by omega
        simp only [hc, ↓reduceIte]
        rw [if_neg (by omega)]
        rw [if_pos (by omega)]
        rw [if_pos (by omega)]
        simp [hrt]

theorem isStagerX86_iff (t : Txt) :
    isStagerX86 t = true ↔ 4 ≤ t.length ∧ (t.filter (· ≠ 47)).sum % 256 = 92 := by
  unfold isStagerX86 checksum8
  split <;> simp <;> omega

theorem isStagerX64_iff (t : Txt) :
    isStagerX64 t = true ↔
      (t.filter (· ≠ 47)).sum % 256 = 93 ∧
      ∃ a b c d, isAlnum a ∧ isAlnum b ∧ isAlnum c ∧ isAlnum d ∧
        (t = [47, a, b, c, d] ∨ t = [47, a, b, c, d, 10]) := by
  unfold isStagerX64 checksum8
  constructor
  · intro h
    simp only [Bool.and_eq_true, beq_iff_eq] at h
    obtain ⟨hc, hs⟩ := h
    unfold matchX64Shape at hs
    split at hs
    · simp only [Bool.and_eq_true, beq_iff_eq] at hs
      rename_i s a b c d
      obtain ⟨⟨⟨⟨rfl, ha⟩, hb⟩, hcc⟩, hd⟩ := hs
      simp at hc
      exact ⟨by simpa using hc, a, b, c, d, ha, hb, hcc, hd, Or.inl rfl⟩
    · simp only [Bool.and_eq_true, beq_iff_eq] at hs
      rename_i s a b c d nl
      obtain ⟨⟨⟨⟨⟨rfl, ha⟩, hb⟩, hcc⟩, hd⟩, rfl⟩ := hs
      simp at hc
      exact ⟨by simpa using hc, a, b, c, d, ha, hb, hcc, hd, Or.inr rfl⟩
    · cases hs
  · rintro ⟨hc, a, b, c, d, ha, hb, hcc, hd, rfl | rfl⟩
    · simp [matchX64Shape, ha, hb, hcc, hd]; simpa using hc
    · simp [matchX64Shape, ha, hb, hcc, hd]; simpa using hc

theorem randomStagerUri_sound (x64 : Bool) (len : Int) (cs : List Nat) (uri : Txt)
    (h : randomStagerUri x64 len cs = .ok (some uri)) :
    (if x64 then isStagerX64 uri else isStagerX86 uri) = true ∧ (uri.length : Int) = len + 1
      ∧ uri.head? = some 47 ∧ ∀ c ∈ uri.tail, c ∈ cs := by
  unfold randomStagerUri at h
  split at h
  · cases h
  · split at h
    · cases h
    · injection h with h
      obtain ⟨a, b, c, d⟩ := go_sound _ _ _ _ _ h
      exact ⟨a, by omega, c, d⟩

theorem staged_gate {α} (uri : Txt) (extract : Option α)
    (h86 : isStagerX86 uri = false) (h64 : isStagerX64 uri = false) :
    findStagedBeacon (some uri) extract = none := by
  simp [findStagedBeacon, h86, h64]

/-- `unpack(pack(n, size), size) = n` whenever `pack` does not overflow (every width, order, signedness). -/
theorem unpack_pack (n : Int) (size : Option Nat) (o : Order) (sg : Bool) (b : Bytes)
    (hq : ¬ (size = some 0 ∧ n = -1)) (h : pack n size o sg = .ok b) : unpack b none o sg = n ∧ unpack b (some b.length) o sg = n := by
  unfold pack at h
  have hq' : ¬ ((match size with | some s => s | none => (bitLength n + 7) / 8) = 0 ∧ n = -1) := by
    cases size with
    | some s => simpa using hq
    | none => rintro ⟨h0, rfl⟩; revert h0; decide
  have := fromBytes_toBytes o sg _ n b hq' h
  simp [unpack, pySliceTo, this]

/-- `pack(unpack(d), len(d)) = d` for every byte string. -/
theorem pack_unpack (d : Bytes) (o : Order) (sg : Bool) :
    pack (unpack d none o sg) (some d.length) o sg = .ok d := by
  simp [pack, unpack, pySliceTo, toBytes_fromBytes]

/-- `pack` raises OverflowError exactly outside the representable range. -/
theorem pack_overflow_iff (n : Int) (size : Nat) (o : Order) (sg : Bool) (hq : ¬ (size = 0 ∧ n = -1)) :
    pack n (some size) o sg = .error .overflowError ↔
      ¬ (if sg then -((256 ^ size / 2 : Nat) : Int) ≤ n ∧ n < ((256 ^ size : Nat) : Int) - ((256 ^ size / 2 : Nat) : Int)
         else 0 ≤ n ∧ n < ((256 ^ size : Nat) : Int)) := by
  unfold pack toBytes
  cases sg <;> simp [hq] <;> split <;> simp_all

/-- The one excluded point is a CPython quirk, stated explicitly: `(-1).to_bytes(0, signed=True) == b''`. -/
theorem pack_width0_quirk (o : Order) : pack (-1) (some 0) o true = .ok [] ∧ unpack [] none o true = 0 := by
  cases o <;> decide

/-- NetBIOS encoding succeeds for every data whenever `0 ≤ offset ≤ 240`. -/
theorem netbios_encode_total (data : Bytes) (off : Int) (h0 : 0 ≤ off) (h1 : off ≤ 240) :
    ∃ e, netbiosEncode data off = .ok e := by
  induction data with
  | nil => exact ⟨[], rfl⟩
  | cons c cs ih =>
    obtain ⟨e, he⟩ := ih
    have hc := c.toNat_lt
    simp only [netbiosEncode, nbEncodeInts, List.flatMap_cons, List.cons_append, List.nil_append, bytesOfInts] at he ⊢
    rw [if_pos (by omega), if_pos (by omega), he]
    exact ⟨_, rfl⟩

/-- Full round trip at the two offsets the library uses and any other admissible one. -/
theorem netbios_roundtrip (data : Bytes) (off : Int) (h0 : 0 ≤ off) (h1 : off ≤ 240) :
    (netbiosEncode data off).bind (netbiosDecode · off) = .ok data := by
  obtain ⟨e, he⟩ := netbios_encode_total data off h0 h1
  rw [he]; exact netbios_decode_encode data off e he

/-- The big-integer formulation used by `utils.xor` computes exactly the byte-wise model. -/
theorem xorBig_eq_xor (d k : Bytes) : xorBig d k = xor d k := by
  unfold xorBig xor
  split
  · rfl
  · rename_i hz
    have hk : k ≠ [] := by rintro rfl; simp at hz
    have hlen := tile_length k d.length hk
    rw [toLE_xor_fromLE d _ hlen.symm]
    apply List.ext_getElem
    · simp [xorCore, hlen]
    · intro i h1 h2
      simp only [List.getElem_zipWith, xorCore, List.getElem_mapIdx]
      rw [tile_getElem k d.length i hk]

/-- For every requested length ≥ 3 an x86 stager URI over alphanumerics exists, so the generation loop can terminate. -/
theorem stager_x86_exists (n : Nat) (hn : 3 ≤ n) :
    ∃ uri : Txt, uri.length = n + 1 ∧ uri.head? = some 47 ∧ (∀ c ∈ uri.tail, isAlnum c = true) ∧ isStagerX86 uri = true := by
  by_cases h3 : n = 3
  · subst h3
    exact ⟨[47, 122, 122, 104], by decide, by decide, by decide, by decide⟩
  · obtain ⟨a, b, c, d, ha, hb, hc, hd, hs⟩ :=
      four_alnum ((92 + 256 - (48 * (n - 4)) % 256) % 256) (Nat.mod_lt _ (by decide))
    refine ⟨47 :: (List.replicate (n - 4) 48 ++ [a, b, c, d]), by simp; omega, rfl, ?_, ?_⟩
    · intro x hx
      simp only [List.tail_cons, List.mem_append, List.mem_replicate, List.mem_cons, List.not_mem_nil, or_false] at hx
      rcases hx with ⟨_, rfl⟩ | rfl | rfl | rfl | rfl
      · decide
      all_goals assumption
    · rw [isStagerX86_iff]
      refine ⟨by simp, ?_⟩
      have h1 := alnum_ne_slash ha
      have h2 := alnum_ne_slash hb
      have h3 := alnum_ne_slash hc
      have h4 := alnum_ne_slash hd
      simp [List.filter_append, h1, h2, h3, h4]
      omega

/-- An x64 stager URI (four alphanumerics) exists. -/
theorem stager_x64_exists : ∃ uri : Txt, uri.length = 5 ∧ isStagerX64 uri = true :=
  ⟨[47, 122, 122, 57, 48], by decide, by decide⟩

/-! Non-vacuity: concrete inputs meeting the hypotheses. -/
example : xor [1, 2, 3, 4, 5] [0xff, 0] = [0xfe, 2, 0xfc, 4, 0xfa] := by decide
example : netbiosEncode [0xab, 0x01] 0x41 = .ok [0x4b, 0x4c, 0x41, 0x42] := by decide
example : pack (-2) (some 2) .big true = .ok [0xff, 0xfe] := by decide
example : pack 256 (some 1) .little false = .error .overflowError := by decide
example : isStagerX86 [47, 122, 122, 104] = true := by decide
example : randomStagerUri false 3 [48, 48, 48, 122, 122, 104] = .ok (some [47, 122, 122, 104]) := by decide
example : isStagerX86 [47, 97, 98, 99, 100] = false ∧ isStagerX64 [47, 97, 98, 99, 100] = false := by decide

end C20

import CsVerif.Props.C18Gen
import CsVerif.Props.C08
/-!
C08 — the PE entry points (`pe.find_mz_offset`, `find_architecture`, `find_compile_stamps`, `find_magic_mz`, `find_magic_pe`,
`find_stage_prepend_append`) as TRANSLATED from their source text (`Gen/PyPe.lean`): "untrusted input never crashes" for the translated
definitions.  Every helper RETURNS — no EOFError / OSError / ValueError / IndexError / OverflowError / TypeError — for every file
content, every position, both kinds of file object, every `start_offset` (explicit or `None`) and every `maxrange`; and the object it
hands back is the same file (same bytes, same kind) at some position.  Obtained from `C18Gen.gen_*` (translation = model) and the C08
theorems about the model (`only_value_error_peFind*`, `only_value_error_pe_anyStart`).
-/
namespace C08Gen
open PyU (V)
open C15Gen (encFile encOptNat)

/-- the six translated helpers never raise: every file, every `start_offset`, every `maxrange` -/
theorem gen_only_value_error_pe_anyStart (f : PyFile) (start : Option Nat) (maxrange : Nat) (op : C18.PeOp) :
    ∃ x pos, C18Gen.peCallG f start maxrange op = .ok (.tuple [x, encFile ⟨f.data, pos, f.kind⟩]) := by
  obtain ⟨hs, hm, hp⟩ := C08.only_value_error_pe_anyStart f start maxrange
  have hok : ∃ x fv, C18Gen.peCallG f start maxrange op = .ok (.tuple [x, fv]) := by
    rw [C18Gen.gen_pe_call]
    cases op
    · exact ⟨_, _, rfl⟩
    · exact ⟨_, _, rfl⟩
    · obtain ⟨r, hr⟩ := hs
      exact ⟨_, _, by simp only [C18.peCall, C18Gen.encOut, C18Gen.encPy, hr]; rfl⟩
    · exact ⟨_, _, rfl⟩
    · obtain ⟨r, hr⟩ := hm
      exact ⟨_, _, by simp only [C18.peCall, C18Gen.encOut, C18Gen.encPy, hr]; rfl⟩
    · obtain ⟨r, hr⟩ := hp
      exact ⟨_, _, by simp only [C18.peCall, C18Gen.encOut, C18Gen.encPy, hr]; rfl⟩
  obtain ⟨x, fv, h⟩ := hok
  obtain ⟨pos, hpos⟩ := C18Gen.gen_pe_only_moves_position f start maxrange op x fv h
  exact ⟨x, pos, by rw [h, hpos]⟩

/-! the entry points as C08 calls them: the documented defaults (search from offset 0 over 1024 bytes), which are the defaults of the
source (`C18Gen.gen_pe_defaults`) -/

theorem gen_only_value_error_peFindMzOffset (f : PyFile) :
    ∃ fv, Gen.PyPe.find_mz_offset_default2 (encFile f) = .ok (.tuple [encOptNat (C18.findMzOffset f (some 0) C08.MAXRANGE).1, fv]) :=
  ⟨_, C18Gen.gen_find_mz_offset f (some 0) C08.MAXRANGE⟩

theorem gen_only_value_error_peFindArchitecture (f : PyFile) :
    ∃ fv, Gen.PyPe.find_architecture_default2 (encFile f)
      = .ok (.tuple [C18Gen.encArch (C18.findArchitecture f (some 0) C08.MAXRANGE).1, fv]) :=
  ⟨_, C18Gen.gen_find_architecture f (some 0) C08.MAXRANGE⟩

theorem gen_only_value_error_peFindMagicMz (f : PyFile) :
    ∃ fv, Gen.PyPe.find_magic_mz_default2 (encFile f)
      = .ok (.tuple [C18Gen.encOptBytes (C18.findMagicMz f (some 0) C08.MAXRANGE).1, fv]) :=
  ⟨_, C18Gen.gen_find_magic_mz f (some 0) C08.MAXRANGE⟩

/-- `find_compile_stamps(fh)` returns a pair: every EOFError is caught, no seek is negative -/
theorem gen_only_value_error_peFindCompileStamps (f : PyFile) :
    ∃ c e fv, Gen.PyPe.find_compile_stamps_default2 (encFile f) = .ok (.tuple [.tuple [C18Gen.encOptI c, C18Gen.encOptI e], fv]) := by
  obtain ⟨r, hr⟩ := C08.only_value_error_peFindCompileStamps f
  have h := C18Gen.gen_find_compile_stamps f (some 0) C08.MAXRANGE
  simp only [C08.peFindCompileStamps] at hr
  simp only [C18Gen.encPy, hr] at h
  exact ⟨r.1, r.2, _, h⟩

/-- `find_magic_pe(fh)` returns: the EOFError of its unguarded struct read is unreachable -/
theorem gen_only_value_error_peFindMagicPe (f : PyFile) :
    ∃ m fv, Gen.PyPe.find_magic_pe_default2 (encFile f) = .ok (.tuple [C18Gen.encOptBytes m, fv]) := by
  obtain ⟨r, hr⟩ := C08.only_value_error_peFindMagicPe f
  have h := C18Gen.gen_find_magic_pe f (some 0) C08.MAXRANGE
  simp only [C08.peFindMagicPe] at hr
  simp only [C18Gen.encPy, hr] at h
  exact ⟨r, _, h⟩

/-- `find_stage_prepend_append(fh)` returns on a file object whose `seek` accepts every non-negative offset (the `PyFile` model; the
`except (OSError, OverflowError, ValueError)` of the source covers file objects with a largest offset: `C08.…_full`, hand model) -/
theorem gen_only_value_error_peFindStagePrependAppend (f : PyFile) :
    ∃ p a fv, Gen.PyPe.find_stage_prepend_append_default2 (encFile f)
      = .ok (.tuple [.tuple [C18Gen.encOptBytes p, C18Gen.encOptBytes a], fv]) := by
  obtain ⟨r, hr⟩ := C08.only_value_error_peFindStagePrependAppend_unlimited f
  have h := C18Gen.gen_find_stage_prepend_append f (some 0) C08.MAXRANGE
  simp only [C08.peFindStagePrependAppend] at hr
  simp only [C18Gen.encPy, hr] at h
  exact ⟨r.1, r.2, _, h⟩

end C08Gen

import CsVerif.Gen.PyBeaconCfg
import CsVerif.Props.C02
import CsVerif.Lemmas.C02Gen
/-!
C02 — the tie between the source text and the model, by (untyped) translation.

`Gen/PyBeaconCfg.lean` is produced on every run by `tools/py2leanu.py` from the *source* of `beacon.iter_settings`,
`BeaconConfig.__init__`, `BeaconConfig.settings_map`, the property getters `setting_enums` / `max_setting_enum`, and the
uncached bodies of the four cached view properties (`self.settings_map(<keywords read from the getter>)`).  Every Python value is
a `PyU.V`; every Python operation one total function of `Model/PyU.lean` / `PyU_T15.lean` (`yield`) / `PyU_T02.lean`
(`BytesIO.seek`, `Setting(fobj)` following the introspected struct layout, attribute assignment, `try … except EOFError`, `str()`,
`str.replace`, `tuple()`, `MappingProxyType`, `max`).  `iter_settings` is a generator: the translated definition returns the list of
the yielded `Setting` objects; its two `while True` loops are run by `PyU.whileFuel` with the function's `fuel` argument.
CALLING a pretty function (a value of `SETTING_TO_PRETTYFUNC`) is EXTERNAL: the parameter `callv` of the translated
`settings_map`, instantiated here with `C02Gen.callX content` for an arbitrary `content` — exactly the abstraction of the
hand-written model (what the pretty functions compute is C03's subject).

The `gen_*` theorems state that the translated definitions compute, for every `bytes` argument / every `BeaconConfig` object whose
`settings_tuple` encodes a list of model settings / every value of `index_type`, `pretty`, `parse`, and for every fuel above the
length of the data, exactly the encoding (`Model/C02Gen.lean`) of what the hand-written model of `Model/C02.lean` computes —
including the `EOFError`-break, the clamped `seek(-2, SEEK_CUR)` after a short peek, the User-Agent continuation, the
`DeprecatedBeaconSetting` re-labelling, dict semantics for duplicate keys and exceptions raised by a pretty function.  So the
theorems of `Props/C02.lean` are theorems about the function texts as they stand now (the corollaries below restate the central
ones for the translated definitions), and an edit of one of these functions that changes its meaning breaks the proof here.
Not translated: the per-instance cache of the four view properties (C14's subject; `Model/C02.lean` `access` / `runHistory` stay
hand-modelled and tied by the `hist` stream).  Helper lemmas: `Lemmas/C02Gen.lean`.
-/
namespace C02Gen
open PyU Gen.PyBeaconCfg

/-! ### the translated definitions equal the model -/

/-- `iter_settings(data)` for every `bytes` argument and every fuel above its length: the yielded `Setting` objects are the
encoding of what the model's `iterSettingsE` computes -/
theorem gen_iter_settings (fuel : Nat) (data : Bytes) (h : data.length < fuel) :
    iter_settings fuel (.bytes data) = (C02.iterSettingsE data).map encSettings :=
  gen_iter_settings_proof fuel data h

/-- the same with the total model function (`C02.iterSettingsE_eq`): the translated generator never raises on `bytes` -/
theorem gen_iter_settings_ok (fuel : Nat) (data : Bytes) (h : data.length < fuel) :
    iter_settings fuel (.bytes data) = .ok (encSettings (C02.iterSettings data)) := by
  rw [gen_iter_settings fuel data h, C02.iterSettingsE_eq]; rfl

/-- an `io.BytesIO` argument (content `pre ++ rest`, positioned after `pre`) is decoded from its position -/
theorem gen_iter_settings_bytesio (fuel : Nat) (pre rest : Bytes) (h : rest.length < fuel) :
    iter_settings fuel (.bytesIO (pre ++ rest) pre.length) = .ok (encSettings (C02.iterSettings rest)) := by
  rw [gen_iter_settings_bytesio_spec fuel pre rest h, C02.iterSettings_parseSpec]

/-- the constructor call `BeaconConfig(config_block)` for every `bytes` argument: the new object has `config_block`,
`settings_tuple = tuple(iter_settings(config_block))`, the metadata attributes `None` / `False` and four empty cache attributes -/
theorem gen_beacon_config_init (fuel : Nat) (data : Bytes) (h : data.length < fuel) :
    beacon_config_init fuel (.bytes data) = .ok (encConfig (.bytes data) (C02.iterSettings data)) := by
  rw [gen_beacon_config_init_spec fuel data h, C02.iterSettings_parseSpec]

/-- `BeaconConfig.setting_enums`, for every object `self` whose `settings_tuple` is the encoding of a list of model settings -/
theorem gen_setting_enums (self : V) (ss : List C02.Setting)
    (h : getAttr self "settings_tuple" = .ok (.tuple (ss.map encSetting))) :
    setting_enums self = .ok (encNats (C02.settingEnums ss)) :=
  gen_setting_enums_spec self ss h

/-- `BeaconConfig.max_setting_enum` (`max([])` raises ValueError) -/
theorem gen_max_setting_enum (self : V) (ss : List C02.Setting)
    (h : getAttr self "settings_tuple" = .ok (.tuple (ss.map encSetting))) :
    max_setting_enum self = (C02.maxSettingEnum ss).map encNat :=
  gen_max_setting_enum_spec self ss h

/-- `BeaconConfig.settings_map(index_type, pretty, parse)` for ARBITRARY argument values: `index_type` is read as `"name"` /
`"const"` / anything else (`itOf`), `pretty` and `parse` through their truth value; for every abstract content of the pretty
functions and every object `self` whose `settings_tuple` encodes `ss` -/
theorem gen_settings_map (content : Nat → C02.Val → Py C02.Val) (self : V) (ss : List C02.Setting)
    (h : getAttr self "settings_tuple" = .ok (.tuple (ss.map encSetting))) (index_type pretty parse : V) :
    settings_map (callX content) self index_type pretty parse
      = (C02.settingsMap content ss (itOf index_type) (truthy pretty) (truthy parse)).map encMap :=
  gen_settings_map_spec content self ss h index_type pretty parse

/-- the calls with defaulted arguments: `settings_map()` is the enum view with `pretty=False, parse=True` -/
theorem gen_settings_map_defaults (content : Nat → C02.Val → Py C02.Val) (self : V) (ss : List C02.Setting)
    (h : getAttr self "settings_tuple" = .ok (.tuple (ss.map encSetting))) :
    settings_map_default3 (callX content) self = (C02.settingsMap content ss .enum false true).map encMap := by
  rw [settings_map_default3, gen_settings_map content self ss h]; rfl

/-- the uncached bodies of the four view properties (arguments read from the getters' source) are the model's views -/
theorem gen_views (content : Nat → C02.Val → Py C02.Val) (self : V) (ss : List C02.Setting)
    (h : getAttr self "settings_tuple" = .ok (.tuple (ss.map encSetting))) :
    raw_settings (callX content) self = (C02.rawSettings content ss).map encMap ∧
    raw_settings_by_index (callX content) self = (C02.rawSettingsByIndex content ss).map encMap ∧
    Gen.PyBeaconCfg.settings (callX content) self = (C02.settings content ss).map encMap ∧
    settings_by_index (callX content) self = (C02.settingsByIndex content ss).map encMap := by
  refine ⟨?_, ?_, ?_, ?_⟩
  · rw [raw_settings, gen_settings_map content self ss h]; rfl
  · rw [raw_settings_by_index, gen_settings_map content self ss h]; rfl
  · rw [Gen.PyBeaconCfg.settings, gen_settings_map content self ss h]; rfl
  · rw [settings_by_index, gen_settings_map content self ss h]; rfl

/-- the object `BeaconConfig(data)` constructs satisfies the hypothesis of the theorems above -/
theorem config_settings_tuple (cb : V) (ss : List C02.Setting) :
    getAttr (encConfig cb ss) "settings_tuple" = .ok (.tuple (ss.map encSetting)) :=
  getAttr_settings_tuple cb ss

/-- end to end: `BeaconConfig(data).settings_map(index_type, pretty, parse)` from the two source texts -/
theorem gen_config_settings_map (content : Nat → C02.Val → Py C02.Val) (fuel : Nat) (data : Bytes) (h : data.length < fuel)
    (index_type pretty parse : V) :
    (beacon_config_init fuel (.bytes data) >>= fun cfg => settings_map (callX content) cfg index_type pretty parse)
      = (C02.settingsMap content (C02.iterSettings data) (itOf index_type) (truthy pretty) (truthy parse)).map encMap := by
  rw [gen_beacon_config_init fuel data h]
  exact gen_settings_map content (encConfig (.bytes data) (C02.iterSettings data)) (C02.iterSettings data)
    (config_settings_tuple _ _) index_type pretty parse

/-! ### the property theorems, restated for the translated definitions -/

/-- **parse ∘ serialize = id** for the source text: a serialized well-formed list followed by the `00 00` terminator and arbitrary
bytes, or by the end of the data, is decoded to exactly that list -/
theorem gen_parse_serialize (ss : List C02.Setting) (hw : C02.WellFormedList ss) (tail : Bytes) (fuel : Nat)
    (h : (C02.serialize ss ++ [0, 0] ++ tail).length < fuel) :
    iter_settings fuel (.bytes (C02.serialize ss ++ [0, 0] ++ tail)) = .ok (encSettings ss) ∧
    iter_settings fuel (.bytes (C02.serialize ss)) = .ok (encSettings ss) := by
  have hp := C02.parse_serialize ss hw tail
  have h2 : (C02.serialize ss).length < fuel := by
    simp only [List.length_append] at h; omega
  exact ⟨by rw [gen_iter_settings_ok _ _ h, hp.1], by rw [gen_iter_settings_ok _ _ h2, hp.2]⟩

/-- a record cut anywhere before its end is dropped, the records before it are kept -/
theorem gen_truncated_drops_partial (ss : List C02.Setting) (hw : C02.WellFormedList ss) (s : C02.Setting) (hs : s.Encodable)
    (p : Bytes) (hp : p <+: C02.serializeOne s) (hlt : p.length < (C02.serializeOne s).length) (fuel : Nat)
    (h : (C02.serialize ss ++ p).length < fuel) :
    iter_settings fuel (.bytes (C02.serialize ss ++ p)) = .ok (encSettings ss) := by
  rw [gen_iter_settings_ok _ _ h, C02.truncated_drops_partial ss hw s hs p hp hlt]

/-- everything the source text yields is a prefix of the data read back: `data = serialize(yielded) ++ rest`, where `rest`
starts with the terminator or holds no complete record -/
theorem gen_parse_sound (data : Bytes) (fuel : Nat) (h : data.length < fuel) :
    ∃ ss rest, iter_settings fuel (.bytes data) = .ok (encSettings ss) ∧ data = C02.serialize ss ++ rest ∧
      (rest.take 2 = [0, 0] ∨ C02.decodeOne rest = none) := by
  obtain ⟨rest, h1, h2⟩ := C02.parse_sound data
  exact ⟨C02.iterSettings data, rest, gen_iter_settings_ok fuel data h, h1, h2⟩

/-- **User-Agent continuation**: an over-long User-Agent takes the bytes up to the next NUL, decoding resumes at that NUL -/
theorem gen_useragent_continuation (pre : List C02.Setting) (hpre : C02.WellFormedList pre) (ua : C02.Setting)
    (hua : ua.Encodable) (hov : ua.uaOverlong) (ext rest : Bytes) (hext : ∀ b ∈ ext, b ≠ 0) (fuel : Nat)
    (h : (C02.serialize pre ++ (C02.serializeOne ua ++ (ext ++ 0 :: rest))).length < fuel) :
    iter_settings fuel (.bytes (C02.serialize pre ++ (C02.serializeOne ua ++ (ext ++ 0 :: rest)))) =
      .ok (encSettings (pre ++ { ua with value := ua.value ++ ext, deprecated := false } :: C02.iterSettings (0 :: rest))) := by
  rw [gen_iter_settings_ok _ _ h, C02.useragent_continuation pre hpre ua hua hov ext rest hext]

/-- **the views agree**, for the source text: when no index occurs under both enum identities, the name- and const-keyed
translated mappings are the encodings of the re-keyed enum-keyed mapping — which is what the translated enum view returns;
in particular the four view properties -/
theorem gen_views_agree (content : Nat → C02.Val → Py C02.Val) (self : V) (ss : List C02.Setting)
    (h : getAttr self "settings_tuple" = .ok (.tuple (ss.map encSetting))) (hmix : C02.NoMixedIdentity ss) (pretty parse : V) :
    settings_map (callX content) self (lit "enum") pretty parse
      = (C02.settingsMap content ss .enum (truthy pretty) (truthy parse)).map encMap ∧
    settings_map (callX content) self (lit "name") pretty parse
      = ((C02.settingsMap content ss .enum (truthy pretty) (truthy parse)).map (C02.rekey C02.Key.toName)).map encMap ∧
    settings_map (callX content) self (lit "const") pretty parse
      = ((C02.settingsMap content ss .enum (truthy pretty) (truthy parse)).map (C02.rekey C02.Key.toConst)).map encMap ∧
    raw_settings (callX content) self
      = ((C02.settingsMap content ss .enum false true).map (C02.rekey C02.Key.toName)).map encMap ∧
    raw_settings_by_index (callX content) self
      = ((C02.settingsMap content ss .enum false true).map (C02.rekey C02.Key.toConst)).map encMap ∧
    Gen.PyBeaconCfg.settings (callX content) self
      = ((C02.settingsMap content ss .enum true true).map (C02.rekey C02.Key.toName)).map encMap ∧
    settings_by_index (callX content) self
      = ((C02.settingsMap content ss .enum true true).map (C02.rekey C02.Key.toConst)).map encMap := by
  obtain ⟨v1, v2, v3, v4⟩ := gen_views content self ss h
  obtain ⟨a1, a2, a3, a4⟩ := C02.views_agree content ss hmix
  refine ⟨?_, ?_, ?_, ?_, ?_, ?_, ?_⟩
  · rw [gen_settings_map content self ss h]; rfl
  · rw [gen_settings_map content self ss h]
    have e : itOf (lit "name") = .name := by decide
    rw [e]
    exact congrArg (·.map encMap) (C02.views_agree_name (C02.dispatch content) ss (truthy pretty) (truthy parse))
  · rw [gen_settings_map content self ss h]
    have e : itOf (lit "const") = .const := by decide
    rw [e]
    exact congrArg (·.map encMap) (C02.views_agree_const (C02.dispatch content) ss (truthy pretty) (truthy parse) hmix)
  · rw [v1, a1]
  · rw [v2, a2]
  · rw [v3, a3]
  · rw [v4, a4]

/-! ### Non-vacuity: the translated definitions evaluated on concrete inputs -/

/-- the tagging stub of the driver: pretty function number `i` returns `opaque i arg` -/
def tag (i : Nat) (v : C02.Val) : Py C02.Val := .ok (.opaque i v)

-- SETTING_PROTOCOL (SHORT) 8, index 36 as TYPE_SHORT (re-labelled DeprecatedBeaconSetting), terminator, junk
example : iter_settings 20 (.bytes [0, 1, 0, 1, 0, 2, 0, 8, 0, 36, 0, 1, 0, 2, 0, 255, 0, 0, 7]) =
    .ok (.list [encSetting { index := 1, type := 1, length := 2, value := [0, 8] },
                encSetting { index := 36, type := 1, length := 2, value := [0, 255], deprecated := true }]) := by decide +kernel
-- a record whose value is cut: EOFError inside `try`, the loop ends
example : iter_settings 20 (.bytes [0, 1, 0, 1, 0, 2, 0, 8, 0, 2, 0, 1, 0, 2, 9]) =
    .ok (.list [encSetting { index := 1, type := 1, length := 2, value := [0, 8] }]) := by decide +kernel
-- a short peek (one byte left): `seek(-2, SEEK_CUR)` is clamped, the struct read raises EOFError
example : iter_settings 20 (.bytes [7]) = .ok (.list []) := by decide +kernel
-- too little fuel is reported, not hidden
example : iter_settings 1 (.bytes [0, 1, 0, 1, 0, 2, 0, 8, 0, 0]) = .error .timeoutDiverge := by decide +kernel
-- an `io.BytesIO` argument is read from its position
example : iter_settings 20 (.bytesIO [9, 9, 0, 1, 0, 1, 0, 2, 0, 8] 2) =
    .ok (.list [encSetting { index := 1, type := 1, length := 2, value := [0, 8] }]) := by decide +kernel
-- `None.read` / `int.read`: AttributeError
example : iter_settings 20 .none = .error .attributeError := by decide +kernel
example : iter_settings 20 (.int 5) = .error .attributeError := by decide +kernel
-- settings_map: name view with pretty functions (index 9 has one, index 1 has none, index 200 has no name)
example : (beacon_config_init 40 (.bytes [0, 1, 0, 1, 0, 2, 0, 8, 0, 9, 0, 3, 0, 2, 65, 66, 0, 200, 0, 2, 0, 4, 0, 0, 1, 0]) >>= fun cfg =>
      settings_map (callX tag) cfg (lit "name") (.bool true) (.bool true)) =
    .ok (encMap [(.name (C02.ascii "SETTING_PROTOCOL"), .int 8), (.name (C02.ascii "SETTING_USERAGENT"), .opaque 9 (.bytes [65, 66])),
                 (.name (C02.ascii "BeaconSetting_200"), .int 256)]) := by decide +kernel
-- any value of `index_type` other than "name" / "const" is the enum view; `pretty=0, parse=""` leaves the raw bytes
example : (beacon_config_init 40 (.bytes [0, 1, 0, 1, 0, 2, 0, 8]) >>= fun cfg =>
      settings_map (callX tag) cfg (.int 3) (.int 0) (lit "")) =
    .ok (encMap [(.enum false 1, .bytes [0, 8])]) := by decide +kernel
-- a raising pretty function propagates
example : (beacon_config_init 40 (.bytes [0, 9, 0, 3, 0, 1, 65]) >>= fun cfg =>
      settings_map (callX fun _ _ => .error .valueError) cfg (lit "const") (.bool true) (.bool true)) = .error .valueError := by
  decide +kernel
-- max_setting_enum of an empty configuration: ValueError
example : (beacon_config_init 40 (.bytes []) >>= max_setting_enum) = .error .valueError := by decide +kernel
example : (beacon_config_init 40 (.bytes [0, 5, 0, 1, 0, 0, 0, 78, 0, 1, 0, 0]) >>= max_setting_enum) = .ok (.int 78) := by decide +kernel

end C02Gen

import CsVerif.Lemmas.C07
/-! C07 property theorems: traffic produced by the beacon client (and a reference team server) is decoded by `C2Http` into
exactly the packets that were sent, for every well-formed HTTP configuration, every history of check-ins, tasks and
(multi-)callbacks and every kind of sufficient key material; messages are routed solely by verb and URI prefix and
unrelated requests are rejected with ValueError, nothing decoded, no primitive called.

Composition: transforms — C04 (`recover_transform_partial`'s lemmas, `model_decodes_ref_server`), packets and framing —
C05 (`encrypt_packet_ok`, `verify_decision`, `client_frames_roundtrip`, `server_frame_roundtrip`), metadata and keys —
C06 (`metadata_roundtrip`, `derive_split`), the wire — C16 (`request_roundtrip`, `response_roundtrip`).

Vocabulary (Model/C07.lean, Lemmas/C07.lean): `HttpCfg`, `Decoder`, `mkDecoder` = `C2Http.__init__`; `routeRequest` /
`getTransformForHttp`; `iterRecoverHttp` = `list(iter_recover_http(..))` as items + exception + decoder afterwards + primitive
calls; `Client`, `getTaskRequest`, `callbackRequest`; `serverBody` = reference team server; `Event`, `emit`, `emitAll` = a
session on the sending side; `WellFormedCfg` (valid programs without uri-append, `RoutingDisjoint`), `WellFormedClient`,
`EventsOk`; `Inv c cl dec known` = decoder-state invariant; `expected` / `expectedTrace` = what must be yielded;
`MsgWireOk` = the hypotheses of C16's round trips for a message object; `WireCfg` / `WireClient` = configuration-level
hypotheses implying them (token verbs, clean paths, printable placements via `progWireOk` / `cleanOut`).

Status: `session_decodes` is the full-strength history theorem on raw bytes (`wireOf` = C16's rendering);
`session_decodes_partial` (message objects) and `session_decodes_wire` (raw bytes under `MsgWireOk`) are the steps towards
it.  NOT proved, only checked by the correspondence on every captured message: that the bytes httpx/h11 really write
(space as `+` in the query, default headers added, method upper-cased) parse back to the request the client built. -/
namespace C07
open C04 (Step Enc Term Field Req Http C2Data Dict)
open C04.Ref (Program valid usesUri built compile normalise serverSteps)

/-! ### the assumptions about the primitives are satisfiable -/

theorem cryptoLaws_satisfiable : ∃ c : Crypto, CryptoLaws c ∧ c.asym.modulusBytes = 128 :=
  ⟨⟨C05.toyCrypto, C06.toyCrypto 128⟩, ⟨C05.toy_laws, C06.toy_laws 128⟩, rfl⟩

/-! ### routing -/

/-- Exact characterisation of `get_transform_for_http`: a response gets the response transform; a request gets the get
transform iff its method is the get verb and its URI starts with ANY of the get URIs; otherwise the submit transform iff its
method is the submit verb and its URI starts with the submit URI; otherwise ValueError.  The get test comes first. -/
theorem routing_decision (cfg : HttpCfg) :
    (∀ hs b, getTransformForHttp cfg (.msg (.response hs b)) = .ok (transformResponse cfg)) ∧
    (∀ r : Req, (r.method = cfg.getVerb ∧ ∃ u ∈ cfg.getUris, u <+: r.uri) →
      getTransformForHttp cfg (.msg (.request r)) = .ok (transformGet cfg)) ∧
    (∀ r : Req, ¬ (r.method = cfg.getVerb ∧ ∃ u ∈ cfg.getUris, u <+: r.uri) →
      (r.method = cfg.submitVerb ∧ cfg.submitUri <+: r.uri) →
      getTransformForHttp cfg (.msg (.request r)) = .ok (transformSubmit cfg)) ∧
    (∀ r : Req, ¬ (r.method = cfg.getVerb ∧ ∃ u ∈ cfg.getUris, u <+: r.uri) →
      ¬ (r.method = cfg.submitVerb ∧ cfg.submitUri <+: r.uri) →
      getTransformForHttp cfg (.msg (.request r)) = .error (.py .valueError)) := by
  refine ⟨fun _ _ => rfl, ?_, ?_, ?_⟩
  · intro r ⟨hm, hu⟩
    have : routeRequest cfg r.method r.uri = some .get :=
      routeRequest_get hm ((startsWithAny_iff _ _).2 hu)
    simp only [getTransformForHttp, parseInput, routeHttp, this, transformOf]
  · intro r hg ⟨hm, hu⟩
    have : routeRequest cfg r.method r.uri = some .submit :=
      routeRequest_submit hm (List.isPrefixOf_iff_prefix.2 hu) (fun h => hg ⟨h.1, (startsWithAny_iff _ _).1 h.2⟩)
    simp only [getTransformForHttp, parseInput, routeHttp, this, transformOf]
  · intro r hg hs
    have : routeRequest cfg r.method r.uri = none := by
      unfold routeRequest
      rw [if_neg, if_neg]
      · intro h
        simp only [Bool.and_eq_true, beq_iff_eq, List.isPrefixOf_iff_prefix] at h
        exact hs h
      · intro h
        simp only [Bool.and_eq_true, beq_iff_eq] at h
        exact hg ⟨h.1, (startsWithAny_iff _ _).1 h.2⟩
    simp only [getTransformForHttp, parseInput, routeHttp, this]

/-- "routed solely by verb and URI prefix": two requests with the same method and URI get the same decision, whatever their
parameters, headers and bodies are. -/
theorem routing_ignores_rest (cfg : HttpCfg) (r r' : Req) (hm : r.method = r'.method) (hu : r.uri = r'.uri) :
    getTransformForHttp cfg (.msg (.request r)) = getTransformForHttp cfg (.msg (.request r')) := by
  simp only [getTransformForHttp, parseInput, routeHttp, hm, hu]

/-- A request matching neither route is rejected with ValueError: nothing is yielded, the decoder object (keys, cache) is
unchanged and NO primitive is called — for the parsed object and for any raw bytes that parse to it. -/
theorem unrelated_rejected (c : Crypto) (dec : Decoder) (r : Req)
    (hg : ¬ (r.method = dec.cfg.getVerb ∧ ∃ u ∈ dec.cfg.getUris, u <+: r.uri))
    (hs : ¬ (r.method = dec.cfg.submitVerb ∧ dec.cfg.submitUri <+: r.uri)) :
    iterRecoverHttp c dec (.msg (.request r)) = ⟨[], some (.py .valueError), dec, []⟩ ∧
    ∀ data, C16.parseRawHttp data = .ok (.request r.method r.uri r.params r.headers r.body) →
      iterRecoverHttp c dec (.raw data) = ⟨[], some (.py .valueError), dec, []⟩ := by
  have hroute : routeRequest dec.cfg r.method r.uri = none := by
    unfold routeRequest
    rw [if_neg, if_neg]
    · intro h
      simp only [Bool.and_eq_true, beq_iff_eq, List.isPrefixOf_iff_prefix] at h
      exact hs h
    · intro h
      simp only [Bool.and_eq_true, beq_iff_eq] at h
      exact hg ⟨h.1, (startsWithAny_iff _ _).1 h.2⟩
  have hrec : recoverStage dec.cfg (.request r) = .error (.py .valueError) := by
    simp only [recoverStage, routeHttp, hroute]
  refine ⟨iterRecoverMsg_of_error c dec _ _ hrec, ?_⟩
  intro data hp
  have : parseInput (.raw data) = .ok (.request r) := by
    simp only [parseInput, hp, ofPy, Except.map, msgToHttp]
  simp only [iterRecoverHttp, this]
  exact iterRecoverMsg_of_error c dec _ _ hrec

/-! ### key material -/

/-- `C2Http.__init__` rejects contradictory or missing key material, and trial beacons, with ValueError. -/
theorem constructor_rejects (c : Crypto) (cfg : HttpCfg) (a : KeyArgs) (pubOk trial : Bool) :
    (truthy a.aesRand = true → truthy a.aesKey = true → mkDecoder c cfg a pubOk trial = .error (.py .valueError)) ∧
    (truthy a.aesRand = false → truthy a.aesKey = false → a.priv = none →
      mkDecoder c cfg a pubOk trial = .error (.py .valueError)) ∧
    (trial = true → ∀ d, mkDecoder c cfg a pubOk trial ≠ .ok d) := by
  refine ⟨?_, ?_, ?_⟩
  · intro h1 h2; simp [mkDecoder, h1, h2]
  · intro h1 h2 h3; simp [mkDecoder, h1, h2, h3]
  · intro ht d h
    subst ht
    unfold mkDecoder at h
    simp only at h
    repeat (split at h <;> try cases h)

/-- Each kind of sufficient key material — the RSA private key alone, the AES random bytes, the AES + HMAC keys (each of
the latter two with or without the private key) — gives a decoder object that satisfies the session invariant: keys unknown
and cache empty for RSA-only, session keys known otherwise. -/
theorem key_material_sufficient (c : Crypto) (L : CryptoLaws c) (cl : Client) (hlen : cl.metadata.aes_rand.length = 16)
    (verify : Bool) :
    (∃ dec, mkDecoder c cl.cfg { priv := some true, verify := verify } true false = .ok dec ∧
      Inv c cl dec false ∧ dec.hasPriv = true ∧ dec.verify = verify) ∧
    (∀ priv : Bool, ∃ dec,
      mkDecoder c cl.cfg { aesRand := some cl.metadata.aes_rand, priv := if priv then some true else none, verify := verify }
        true false = .ok dec ∧ Inv c cl dec true ∧ dec.hasPriv = priv ∧ dec.verify = verify) ∧
    (∀ priv : Bool, ∃ k hk dec, sessionKeys c cl = ⟨some k, some hk, Gen.C2Struct.defaultAesIv⟩ ∧
      mkDecoder c cl.cfg { aesKey := some k, hmacKey := some hk, priv := if priv then some true else none, verify := verify }
        true false = .ok dec ∧ Inv c cl dec true ∧ dec.hasPriv = priv ∧ dec.verify = verify) :=
  ⟨mkDecoder_rsa c cl verify, fun priv => mkDecoder_rand c L cl hlen verify priv,
    fun priv => mkDecoder_keys c L cl verify priv⟩

/-! ### the wire -/

/-- parse ∘ render is the identity on message objects meeting C16's hypotheses (request: token method not starting with
`HTTP/`, clean absolute path, distinct parameter keys with non-empty values, well-formed headers; response: well-formed
headers): by `C16.request_roundtrip` / `C16.response_roundtrip`. -/
theorem wire_roundtrip (h : Http) (hw : MsgWireOk h) : parseInput (.raw (wireOf h)) = .ok h := parse_wireOf h hw

/-! ### single messages -/

/-- **Check-in.**  The client's `get_task` request, decoded by a decoder in any state of the session invariant, yields
exactly the metadata that was sent when the decoder has the RSA private key (nothing otherwise), ends normally, keeps the
invariant, and the session keys are known afterwards if they were known or the private key is there — for the request
object and, when the request meets C16's hypotheses, for its wire bytes. -/
theorem checkin_decodes (c : Crypto) (L : CryptoLaws c) {cfg : HttpCfg} {pg pp : Program} {es : List Enc}
    (wf : WellFormedCfg cfg pg pp es) (cl : Client) (hcl : cl.cfg = cfg) (wc : WellFormedClient c cl)
    (dec : Decoder) (known : Bool) (inv : Inv c cl dec known) (rr : C06.Rand) (rand : C04.Rand) :
    ∃ r, getTaskRequest c cl rr rand = .ok (r, { cl with metadata := sentMetadata cl }) ∧
      r.method = cfg.getVerb ∧ r.uri = cl.getUri ∧
      ∀ inp, (inp = .msg (.request r) ∨ (MsgWireOk (.request r) ∧ inp = .raw (wireRequest r))) →
        (iterRecoverHttp c dec inp).items = (if dec.hasPriv then [.metadata (sentMetadata cl)] else []) ∧
        (iterRecoverHttp c dec inp).exc = none ∧
        Inv c { cl with metadata := sentMetadata cl } (iterRecoverHttp c dec inp).dec (known || dec.hasPriv) := by
  obtain ⟨r, e1, e2, e3, s1, s2, s3, _, _⟩ := emit_checkin c L wf [] cl hcl wc dec known inv rr rand
  obtain ⟨r', _, h1, _⟩ := checkin_request c L wf cl hcl wc rr rand
  have hr : r' = r := by
    simp only [emit, h1, Except.map] at e1
    injection e1 with e1
    injection e1 with e1 _
    injection e1
  subst hr
  refine ⟨r', h1, e2, e3, ?_⟩
  intro inp hinp
  have : iterRecoverHttp c dec inp = iterRecoverMsg c dec none (.request r') := by
    rcases hinp with rfl | ⟨hw, rfl⟩
    · rfl
    · exact iterRecoverHttp_wire c dec (.request r') hw
  rw [this]
  exact ⟨s1, s2, s3⟩

/-- **Task.**  A response whose body was built by the reference team server (own encryption, the profile's output block with
its real prepend/append strings) decodes — from the object, and from the wire bytes with any well-formed header list — to
exactly the task that was sent when the session keys are known, and to ValueError with nothing yielded when there are no
keys yet; a response without a task yields nothing.  The decoder object is unchanged.  (The plaintext handed to
`TaskPacket(..)` is the task bytes followed by the `'A'` padding of C05: `C05.pad`.) -/
theorem task_decodes (c : Crypto) (L : CryptoLaws c) {cfg : HttpCfg} {pg pp : Program} {es : List Enc}
    (wf : WellFormedCfg cfg pg pp es) (hs : Dict) (cl : Client) (hcl : cl.cfg = cfg) (wc : WellFormedClient c cl)
    (dec : Decoder) (known : Bool) (inv : Inv c cl dec known) (t : Option Task) (rand : C04.Rand)
    (ht : ∀ t', t = some t' → TaskOk t') :
    ∃ body, emit c ⟨cl, es, hs⟩ (.task t rand) =
        .ok (.response hs body, ⟨cl, es, hs⟩, (match t with | none => [] | some t' => [.task t'])) ∧
      ∀ inp, (inp = .msg (.response hs body) ∨ (C16.WellFormedHeaders hs ∧ inp = .raw (wireResponse hs body))) →
        ((iterRecoverHttp c dec inp).items, (iterRecoverHttp c dec inp).exc) =
          (match t with
           | none => ([], none)
           | some t' => if known then ([.task t'], none) else ([], some (.py .valueError))) ∧
        (iterRecoverHttp c dec inp).dec = dec := by
  obtain ⟨body, e1, e2, e3⟩ := emit_task c L wf hs cl hcl wc dec known inv t rand ht
  refine ⟨body, e1, ?_⟩
  intro inp hinp
  have : iterRecoverHttp c dec inp = iterRecoverMsg c dec none (.response hs body) := by
    rcases hinp with rfl | ⟨hw, rfl⟩
    · rfl
    · exact iterRecoverHttp_wire c dec (.response hs body) hw
  rw [this, e2]
  refine ⟨?_, e3⟩
  cases t with
  | none => simp [expected]
  | some t' => cases known <;> simp [expected]

/-- **Callbacks.**  A POST carrying one callback (the library's `send_callback`) or several (a real Beacon) decodes — object
or wire bytes — to exactly the callback packets that were sent, in order, with the counters the client assigned, when the
session keys are known; with no keys it ends with ValueError and nothing is yielded.  The decoder object is unchanged. -/
theorem callback_decodes (c : Crypto) (L : CryptoLaws c) {cfg : HttpCfg} {pg pp : Program} {es : List Enc}
    (wf : WellFormedCfg cfg pg pp es) (cl : Client) (hcl : cl.cfg = cfg) (wc : WellFormedClient c cl)
    (dec : Decoder) (known : Bool) (inv : Inv c cl dec known) (cbs : List (Nat × Bytes)) (rand : C04.Rand)
    (hne : cbs ≠ []) (hc : cl.counter + cbs.length < 2 ^ 32) (hcb : ∀ cb ∈ cbs, cb.1 < 2 ^ 32 ∧ cb.2.length + 64 < 2 ^ 32) :
    ∃ r, callbackRequest c cl cbs rand = .ok (r, { cl with counter := cl.counter + cbs.length }) ∧
      r.method = cfg.submitVerb ∧ r.uri = cfg.submitUri ∧
      ∀ inp, (inp = .msg (.request r) ∨ (MsgWireOk (.request r) ∧ inp = .raw (wireRequest r))) →
        ((iterRecoverHttp c dec inp).items, (iterRecoverHttp c dec inp).exc) =
          (if known then ((callbackPackets cl.counter cbs).map Item.callback, none) else ([], some (.py .valueError))) ∧
        (iterRecoverHttp c dec inp).dec = dec := by
  obtain ⟨r, e1, e2, e3, e4, e5⟩ := emit_callbacks c L wf [] cl hcl wc dec known inv cbs rand hc hcb
  obtain ⟨r', _, _, h1, _⟩ := callback_request c L wf cl hcl wc cbs rand dec.verify hc hcb
  have hr : r' = r := by
    simp only [emit, h1, Except.map] at e1
    injection e1 with e1
    injection e1 with e1 _
    injection e1
  subst hr
  refine ⟨r', h1, e2, e3, ?_⟩
  intro inp hinp
  have : iterRecoverHttp c dec inp = iterRecoverMsg c dec none (.request r') := by
    rcases hinp with rfl | ⟨hw, rfl⟩
    · rfl
    · exact iterRecoverHttp_wire c dec (.request r') hw
  rw [this, e4]
  refine ⟨?_, e5⟩
  have hsent : ((callbackPackets cl.counter cbs).map Item.callback).isEmpty = false := by
    cases cbs with
    | nil => exact absurd rfl hne
    | cons cb rest => obtain ⟨a, b⟩ := cb; rfl
  cases known <;> simp [expected, hsent]

/-- **Evaluation order.**  `keys = keys or self.beacon_keys` is read before the metadata of the message is processed: a
message carrying metadata AND output, seen by a decoder that has only the RSA private key, yields the metadata, derives and
stores the session keys, and still refuses the packets of this very message with ValueError (they decode from the next
message on). -/
theorem keys_read_before_metadata (c : Crypto) (dec : Decoder) (hpriv : dec.hasPriv = true)
    (hk : dec.keys.aesKey = none ∧ dec.keys.hmacKey = none) (hc : dec.cache = []) (http : Http)
    (blob out : Bytes) (id : Option Bytes) (hrec : recoverStage dec.cfg http = .ok ⟨some out, some blob, id⟩)
    (hne : blob ≠ []) (m : C06.Metadata) (hdec : C06.decryptMetadata c.asym blob = .ok m)
    (p : C05.Packet) (ps : List C05.Packet) (hfr : (frames (isRequest http) (some out)).1 = p :: ps) :
    (iterRecoverMsg c dec none http).items = [.metadata m] ∧
    (iterRecoverMsg c dec none http).exc = some (.py .valueError) ∧
    (iterRecoverMsg c dec none http).dec.keys = derivedKeys c m.aes_rand ∧
    (iterRecoverMsg c dec none http).dec.cache = [(blob, m)] := by
  have ht : (truthy (some blob) && dec.hasPriv) = true := by simp [truthy_some_ne hne, hpriv]
  have t1 : truthy dec.keys.aesKey = false := by rw [hk.1]; rfl
  have hms : metadataStep c dec (some blob) =
      ⟨[.metadata m], none, { dec with cache := dec.cache ++ [(blob, m)], keys := derivedKeys c m.aes_rand },
        [.rsaDec blob, .sha256 m.aes_rand]⟩ := by
    simp only [metadataStep, ht, if_true, Option.getD_some, hc, List.lookup, hdec, t1, Bool.false_and,
      Bool.false_eq_true, if_false]
  have hkeys : dec.keys = ⟨none, none, dec.keys.iv⟩ := by
    cases hkk : dec.keys with
    | mk a h iv => rw [hkk] at hk; simp only at hk; rw [hk.1, hk.2]
  obtain ⟨d1, d2, _⟩ := decodePackets_nokeys c dec.keys.iv dec.verify (isRequest http) p ps
  rw [iterRecoverMsg_of_recover c dec _ _ hrec, hms]
  simp only [hfr]
  rw [hkeys, d1, d2]
  simp [hc]

/-! ### whole sessions -/

/-- **History theorem (message objects).**  For every well-formed configuration, every client, every decoder state of the
invariant (`known` = are the session keys in the decoder) and every admissible history of check-ins, tasks and
(multi-)callbacks, the sending side produces its messages and decoding them in order with ONE decoder object yields, message
by message, exactly `expectedTrace`: a check-in yields its metadata iff the private key is there; from the message AFTER the
first check-in seen by a decoder holding the private key — or from the start when AES random bytes or AES+HMAC keys were given —
every task and every callback post yields exactly the packets sent, in order; before that (RSA-only) they end with ValueError
and yield nothing. -/
theorem session_decodes_partial (c : Crypto) (L : CryptoLaws c) {cfg : HttpCfg} {pg pp : Program} {es : List Enc}
    (wf : WellFormedCfg cfg pg pp es) (hs : Dict) (evs : List Event) (cl : Client) (dec : Decoder) (known : Bool)
    (hcl : cl.cfg = cfg) (wc : WellFormedClient c cl) (inv : Inv c cl dec known) (hok : EventsOk cl.counter evs) :
    ∃ msgs, emitAll c ⟨cl, es, hs⟩ evs = .ok msgs ∧
      (decodeAll c dec (msgs.map fun m => Input.msg m.1)).1.map (fun o => (o.items, o.exc)) =
        expectedTrace dec.hasPriv known evs msgs :=
  session_induction c L wf hs evs cl dec known hcl wc inv hok

/-- **History theorem (wire bytes)** for sessions all of whose message objects meet C16's hypotheses: the raw bytes
`wireOf m` decode to the same trace. -/
theorem session_decodes_wire (c : Crypto) (L : CryptoLaws c) {cfg : HttpCfg} {pg pp : Program} {es : List Enc}
    (wf : WellFormedCfg cfg pg pp es) (hs : Dict) (evs : List Event) (cl : Client) (dec : Decoder) (known : Bool)
    (hcl : cl.cfg = cfg) (wc : WellFormedClient c cl) (inv : Inv c cl dec known) (hok : EventsOk cl.counter evs) :
    ∃ msgs, emitAll c ⟨cl, es, hs⟩ evs = .ok msgs ∧
      ((∀ m ∈ msgs, MsgWireOk m.1) →
        (decodeAll c dec (msgs.map fun m => Input.raw (wireOf m.1))).1.map (fun o => (o.items, o.exc)) =
          expectedTrace dec.hasPriv known evs msgs) := by
  obtain ⟨msgs, h1, h2⟩ := session_induction c L wf hs evs cl dec known hcl wc inv hok
  refine ⟨msgs, h1, fun hw => ?_⟩
  have := decodeAll_wire c dec (msgs.map Prod.fst) (fun m hm => by
    obtain ⟨x, hx, rfl⟩ := List.mem_map.1 hm
    exact hw x hx)
  simp only [List.map_map, Function.comp_def] at this
  rw [this]
  exact h2

/-- Under the configuration-level hypotheses `WireCfg` (token verbs, clean absolute paths, printable placements: static
headers well formed, static parameter values non-empty, header terminations fed by a CR-free encoder chain — see
`cleanOut` —, no uri-append) and CR-free User-Agent / Host values, the requests built by `get_task` and `send_callback`
(or a multi-callback POST) meet C16's round-trip hypotheses. -/
theorem client_requests_wire_ok (c : Crypto) (L : CryptoLaws c) {cfg : HttpCfg} {pg pp : Program} {es : List Enc}
    (wf : WellFormedCfg cfg pg pp es) (wcfg : WireCfg cfg pg pp) (cl : Client) (hcl : cl.cfg = cfg)
    (wc : WellFormedClient c cl) (wcl : WireClient cl) :
    (∀ rr rand r cl', getTaskRequest c cl rr rand = .ok (r, cl') → MsgWireOk (.request r)) ∧
    (∀ cbs rand r cl', cbs ≠ [] → cl.counter + cbs.length < 2 ^ 32 →
      (∀ cb ∈ cbs, cb.1 < 2 ^ 32 ∧ cb.2.length + 64 < 2 ^ 32) →
      callbackRequest c cl cbs rand = .ok (r, cl') → MsgWireOk (.request r)) :=
  ⟨fun rr rand r cl' h => getTaskRequest_wireOk c L wf wcfg cl hcl wc wcl rr rand r cl' h,
   fun cbs rand r cl' hne hc hcb h => callbackRequest_wireOk c L wf wcfg cl hcl wc wcl cbs rand hne hc hcb r cl' h⟩

/-- **History theorem (raw bytes), full strength.**  For every well-formed and wire-safe configuration, every client,
every decoder state of the invariant and every admissible history (callback posts non-empty), the raw HTTP bytes of the
session — requests rendered as `METHOD path?percent-encoded-params HTTP/1.1`, headers, body; responses as
`HTTP/1.1 200 OK`, any well-formed headers, body — decode, in order with ONE decoder object, to exactly `expectedTrace`:
the metadata of every check-in when the RSA private key is there; every task and every callback, in order, from the start
when AES random bytes / AES+HMAC keys were given and from the message after the first check-in when only the RSA key was;
ValueError and nothing before that. -/
theorem session_decodes (c : Crypto) (L : CryptoLaws c) {cfg : HttpCfg} {pg pp : Program} {es : List Enc}
    (wf : WellFormedCfg cfg pg pp es) (wcfg : WireCfg cfg pg pp) (hs : Dict) (hhs : C16.WellFormedHeaders hs)
    (evs : List Event) (cl : Client) (dec : Decoder) (known : Bool)
    (hcl : cl.cfg = cfg) (wc : WellFormedClient c cl) (wcl : WireClient cl) (inv : Inv c cl dec known)
    (hok : EventsOk cl.counter evs) (hne : ∀ cbs rand, Event.callbacks cbs rand ∈ evs → cbs ≠ []) :
    ∃ msgs, emitAll c ⟨cl, es, hs⟩ evs = .ok msgs ∧
      (decodeAll c dec (msgs.map fun m => Input.raw (wireOf m.1))).1.map (fun o => (o.items, o.exc)) =
        expectedTrace dec.hasPriv known evs msgs := by
  obtain ⟨msgs, h1, h2⟩ := session_decodes_wire c L wf hs evs cl dec known hcl wc inv hok
  exact ⟨msgs, h1, h2 (emitAll_wireOk c L wf wcfg hs hhs evs cl hcl wc wcl hok hne msgs h1)⟩

/-! ### Non-vacuity: a concrete configuration, client, history and toy primitives meeting every hypothesis -/

/-- `http-get.client { header "Accept" "*/*"; metadata { mask; base64url; prepend "S="; header "Cookie"; } }` -/
def exGet : Program :=
  [.deco (.header [65, 99, 99, 101, 112, 116] [42, 47, 42]),
   .block ⟨.metadata, [.mask, .base64url, .prepend (.bytes [83, 61])], .header [67, 111, 111, 107, 105, 101]⟩]

/-- `http-post.client { id { netbios; parameter "id"; } parameter "x" "1"; output { base64; print; } }` -/
def exPost : Program :=
  [.block ⟨.id, [.netbios], .parameter [105, 100]⟩, .deco (.parameter [120] [49]), .block ⟨.output, [.base64], .print⟩]

/-- `http-get.server.output { netbiosu; prepend "<!--"; append "-->"; print; }` -/
def exServer : List Enc := [.netbiosu, .prepend (.bytes [60, 33, 45, 45]), .append (.bytes [45, 45, 62])]

/-- verbs GET / POST, get URIs `/a` and `/a/b.css`, submit URI `/submit.php` -/
def exCfg : HttpCfg :=
  { getVerb := [71, 69, 84], getUris := [[47, 97], [47, 97, 47, 98, 46, 99, 115, 115]], submitVerb := [80, 79, 83, 84],
    submitUri := [47, 115, 117, 98, 109, 105, 116, 46, 112, 104, 112],
    getProg := compile exGet, postProg := compile exPost, recoverProg := serverSteps exServer }

def toyC : Crypto := ⟨C05.toyCrypto, C06.toyCrypto 128⟩

theorem toyC_laws : CryptoLaws toyC := ⟨C05.toy_laws, C06.toy_laws 128⟩

def exClient : Client :=
  { cfg := exCfg, metadata := C06.sampleMetadata, beaconId := 242569266,
    keys := derivedKeys toyC C06.sampleMetadata.aes_rand, getUri := [47, 97, 47, 98, 46, 99, 115, 115],
    userAgent := [77, 111, 122], hostHeader := [99, 50, 46, 101, 120], counter := 1700000000 }

def exEvents : List Event :=
  [.task (some ⟨1, 2, 53, 2, [9, 9]⟩) (fun _ => 0), .callbacks [(31, [1, 2, 3])] (fun _ => 7),
   .checkin [] (fun _ => 0xDEADBEEF), .task (some ⟨5, 0, 6, 0, []⟩) (fun _ => 0), .task none (fun _ => 0),
   .callbacks [(0, [104, 105]), (32, [])] (fun _ => 1)]

example : WellFormedCfg exCfg exGet exPost exServer :=
  ⟨rfl, rfl, rfl, by decide, by decide, by decide, by decide, by decide, by decide, by decide, by decide⟩

example : WireCfg exCfg exGet exPost :=
  ⟨by decide, by decide, by decide, by decide, by decide, by decide⟩

example : WireClient exClient := ⟨by decide, by decide⟩

/-- a header termination fed by `mask` alone is not wire-safe, `mask; base64` is -/
example : cleanOut [.mask] = false ∧ cleanOut [.mask, .base64, .prepend (.bytes [83, 61])] = true ∧
    cleanOut [.base64, .append (.bytes [13])] = false := by decide

theorem exClient_wf : WellFormedClient toyC exClient :=
  ⟨by decide, by decide, by decide, by decide, by decide, rfl, by decide⟩

theorem exEvents_ok : EventsOk exClient.counter exEvents :=
  ⟨(by decide : TaskOk _), ⟨by decide, by decide⟩, trivial, (by decide : TaskOk _), trivial, ⟨by decide, by decide⟩, trivial⟩

/-- RoutingDisjoint fails when both verbs are equal and a get URI is a prefix of the submit URI -/
example : ¬ RoutingDisjoint { exCfg with submitVerb := [71, 69, 84], submitUri := [47, 97, 47, 115] } := by decide

/-- the RSA-only decoder of the example session: no keys, empty cache -/
example : ∃ dec, mkDecoder toyC exCfg { priv := some true } true false = .ok dec ∧ Inv toyC exClient dec false :=
  let ⟨d, h, i, _⟩ := mkDecoder_rsa toyC exClient true
  ⟨d, h, i⟩

/-- the history theorem applies to the example: tasks and callbacks before the check-in are refused, everything after it
is decoded -/
example : ∃ dec msgs, mkDecoder toyC exCfg { priv := some true } true false = .ok dec ∧
    emitAll toyC ⟨exClient, exServer, []⟩ exEvents = .ok msgs ∧
    (decodeAll toyC dec (msgs.map fun m => Input.msg m.1)).1.map (fun o => (o.items, o.exc)) =
      expectedTrace true false exEvents msgs := by
  obtain ⟨dec, h, inv, hp, _⟩ := mkDecoder_rsa toyC exClient true
  obtain ⟨msgs, h1, h2⟩ := session_decodes_partial toyC toyC_laws
    (⟨rfl, rfl, rfl, by decide, by decide, by decide, by decide, by decide, by decide, by decide, by decide⟩ :
      WellFormedCfg exCfg exGet exPost exServer) [] exEvents exClient dec false rfl exClient_wf inv exEvents_ok
  rw [hp] at h2
  exact ⟨dec, msgs, h, h1, h2⟩

/-- …and computed on the WIRE bytes with the toy primitives (kernel evaluation of the whole chain: client transforms,
rendering, `parse_raw_http`, routing, recover, RSA/AES/HMAC toys, framing, struct parsing): refused, refused, metadata,
one (NOOP) task, nothing, two callbacks. -/
example : (emitAll toyC ⟨exClient, exServer, []⟩ exEvents).map (fun msgs =>
      (decodeAll toyC ⟨exCfg, ⟨none, none, Gen.C2Struct.defaultAesIv⟩, true, true, []⟩
        (msgs.map fun m => Input.raw (wireOf m.1))).1.map (fun o => (o.items.length, o.exc))) =
    .ok [(0, some (.py .valueError)), (0, some (.py .valueError)), (1, none), (1, none), (0, none), (2, none)] := by
  decide +kernel

end C07

import CsVerif.Gen.PyC2Dict
import CsVerif.Props.C11
import CsVerif.Lemmas.C11Gen
import CsVerif.Lemmas.C11GenB
/-!
C11 — the tie between the source text and the model, by (untyped) translation.

`Gen/PyC2Dict.lean` is produced on every run by `tools/py2leanu.py` (plug-in `tools/gen/py_c2dict.py`) from the *source* of
`C2Profile.as_dict`: the plug-in cuts the method into the token walk (`as_dict_walk(items)`: everything between the cache test and
the cache update, over the list of the items the Reconstructor yields) and the cache around it (`as_dict(self)`: the method with
the walk replaced by the call).  Every Python value is a `PyU.V`, every operation one total function of `Model/PyU.lean`,
`PyU_T12.lean`, `PyU_T11.lean`; a `lark.Token` is the object `V.inst Gen.PyC2Prof.Token [type, text]`, which the operations of
`PyU_T11.lean` also treat as the `str` it is; `collections.defaultdict(list)` is an object of its own (`PyU.t11DdCls`).  External:
`string_token_to_bytes` (translated in `Gen/PyC2Prof.lean`, tied in `Props/C12Gen.lean` — instantiated here with that translation),
the Reconstructor (`reconstruct_items`, the model's `printItems`) and `hash(tree)` (`tree_hash`).

`gen_as_dict_walk` states that the translated walk computes, for EVERY list of items (plain strings, STRING tokens, tokens of any
other type — with arbitrary texts), exactly the encoding of what `C11.asDict` computes, including the IndexError / AttributeError /
ValueError branches; `gen_as_dict_cached` that the translated method is the model's `asDictCached`.  The property theorems of
`Props/C11.lean` are restated for the translated definitions.  Helper lemmas: `Lemmas/C11Gen.lean`.

The BUILDER half: the methods `ConfigBlock.set_option / _pair / _enable / _header / _parameter / set_config_block /
set_non_empty_config_block`, `C2Profile.set_option`, `DataTransformBlock.__init__ / add_step / add_termination / tree` and the
bodies of `ExecuteOptionsBlock.from_execute_list` / `BeaconGateBlock.from_beacon_gate_option_strings` are translated in T11
SELF-MODE: the block object is threaded as a value (`V.inst <cls> […]`, a Lark `Tree(data, children)` is
`V.inst TreeCls [data, children]`) and every definition answers `(result, self afterwards)`.  `gen_set_option` … state, for ANY
object that holds a Lark tree in its attribute `tree` (`Holder`), which node(s) each method appends — with the label strings
as they are —; `abs_*` that these nodes are the model's nodes once the labels are interned through the grammar's name table
(`absKids`: the model identifies every unknown name, so the abstraction goes from the Python trees to the model's);
`gen_build_calls` / `gen_build_profile` that a whole call sequence of the model's call language run through the translated
methods builds the model's tree; `gen_builder_eq_parsed` restates the builder half of the property.  Not translated: the
keyword-argument dispatch of `ConfigBlock.init_kwargs` / `__init__` (`getattr` + bound methods) — in `buildCallsG` it is the
model's dispatch over the generated attribute table.  Helper lemmas: `Lemmas/C11GenB.lean`.
-/
namespace C11Gen
open PyU
open C10 (Text Tree Deriv)

/-- The token walk, with `string_token_to_bytes` external: for every item list, every type function `ty` that never answers
`"STRING"` (the type names of the other tokens), and every `stb` that behaves like `string_token_to_bytes` on these items
(`StbSpec`), the translated walk answers the `defaultdict` holding exactly the model's dictionary — or the model's exception. -/
theorem gen_as_dict_walk (ty : Text → Text) (hty : TyOK ty) (stb : V → Py V) (items : List C11.Item')
    (hstb : StbSpec stb items) :
    Gen.PyC2Dict.as_dict_walk stb (encItems ty items) = (C11.asDict ProfileApi.listProps items).map (encDD ty) :=
  gen_as_dict_walk_proof ty hty stb items hstb

/-- The same with the TRANSLATED `string_token_to_bytes` (Gen/PyC2Prof.lean) in the place of the external function, for every
fuel above the length of the longest item text -/
theorem gen_as_dict_walk_translated (ty : Text → Text) (hty : TyOK ty) (items : List C11.Item') (fuel : Nat)
    (hf : ∀ i ∈ items, i.text.length < fuel) :
    Gen.PyC2Dict.as_dict_walk (stbG fuel) (encItems ty items) = (C11.asDict ProfileApi.listProps items).map (encDD ty) :=
  gen_as_dict_walk_proof ty hty _ items (stbG_spec fuel items hf)

/-- … in particular with the fuel the driver uses -/
theorem gen_as_dict_walk_driver (ty : Text → Text) (hty : TyOK ty) (items : List C11.Item') :
    asDictWalkG ty items = (C11.asDict ProfileApi.listProps items).map (encDD ty) :=
  asDictWalkG_eq ty hty items

/-- the translated `string_token_to_bytes` is an instance of the external function's specification -/
theorem gen_stb_spec (fuel : Nat) (items : List C11.Item') (hf : ∀ i ∈ items, i.text.length < fuel) : StbSpec (stbG fuel) items :=
  stbG_spec fuel items hf

/-- one iteration of `for item in items:` is one `C11.step` (the state tuple of the loop is `(line, stack, properties)`) -/
theorem gen_as_dict_walk_step (ty : Text → Text) (hty : TyOK ty) (st : C11.St) (item : C11.Item') (stb : V → Py V)
    (l0 : List C11.Item') (hstb : StbSpec stb l0) (hline : ∀ x ∈ st.line, x ∈ l0) :
    Gen.PyC2Dict.as_dict_walk_loop1 stb listPropsV (encItem ty item) (encSt ty st)
      = (C11.step ProfileApi.listProps st item).map fun st' => (Ctl.cont, encSt ty st') :=
  loop1_step ty hty st item stb l0 hstb hline

/-- the list literal `list_props` in the translated source is the generated table the model uses -/
theorem gen_list_props :
    (V.list [(PyU.lit "stage.transform-x86.header"), (PyU.lit "process-inject.transform-x86"), (PyU.lit "process-inject.execute"),
      (PyU.lit "http-post.server.output"), (PyU.lit "http-post.client.id"), (PyU.lit "http-post.client.output"),
      (PyU.lit "http-stager.server.output"), (PyU.lit "http-get.client.metadata"), (PyU.lit "http-get.server.output")])
      = .list (ProfileApi.listProps.map .str) := listProps_lit

/-! ### `asDict_eq_spec`, restated for the translated walk -/

/-- Central theorem of C11 for the source text: for every well-formed derivation from the start symbol whose tokens are harmless,
the items the Reconstructor model prints exist, and the translated walk over them answers the grouped specification
(`specDict`: entries by structural recursion over the tree; first raising statement decides the exception). -/
theorem gen_asDict_eq_spec (ty : Text → Text) (hty : TyOK ty) (d : Deriv) (hd : d.WF C10.gen = true)
    (hstart : d.form.origin = C10.gen.start) (htok : C11.tokensOK C10.gen (C10.toTree d) = true) :
    ∃ r items, C11.specDict C10.gen ProfileApi.listProps (C10.toTree d) = some r ∧
      C11.printItems C10.gen (C10.toTree d) = some items ∧
      asDictWalkG ty items = (match r with
        | .error e => .error e
        | .ok es => .ok (encDD ty (C11.group es))) := by
  obtain ⟨r, h1, h2⟩ := C11.asDict_eq_spec_gen d hd hstart htok
  simp only [C11.asDictTree] at h2
  cases hp : C11.printItems C10.gen (C10.toTree d) with
  | none => rw [hp] at h2; cases h2
  | some items =>
    rw [hp] at h2
    simp only [Option.map_some, Option.some.injEq] at h2
    refine ⟨r, items, h1, rfl, ?_⟩
    rw [gen_as_dict_walk_driver ty hty items, h2]
    cases r <;> rfl

/-! ### the cache -/

/-- The translated method `as_dict(self)` on the encoding of the model's profile object is the model's `asDictCached`: the cached
dictionary when `_dict_hash` equals the hash of the tree; else the walk over the Reconstructor's items, and — only when the walk
returns — `_dict_hash` and `_dict_cache` updated.  For ANY hash function / encoding of hashes on which `==` decides equality and
that is never `None` (`ExtSpec`; Python's `hash` answers an `int`: `extSpec_int`). -/
theorem gen_as_dict_cached {H : Type} [DecidableEq H] (ty : Text → Text) (hty : TyOK ty)
    (encT : Tree → V) (encH : H → V) (eLark : PyExc) (hash : Tree → H) (items : Tree → Option (List C11.Item'))
    (tree_hash reconstruct_items stb : V → Py V)
    (hx : ExtSpec ty encT encH eLark hash items tree_hash reconstruct_items stb) (s : C11.PState H) :
    Gen.PyC2Dict.as_dict tree_hash reconstruct_items stb (encState ty encT encH s)
      = encCached ty encT encH eLark
          (C11.asDictCached hash (fun t => (items t).map (C11.asDict ProfileApi.listProps)) s) :=
  gen_as_dict_cached_proof ty hty encT encH eLark hash items tree_hash reconstruct_items stb hx s

/-- integers as hashes (what Python's `hash` answers) satisfy the two conditions on the encoding of hashes -/
theorem hash_int_ok : (∀ a b : Int, t11Eq TOK (V.int a) (V.int b) = true ↔ a = b) ∧ (∀ a : Int, t11Eq TOK V.none (V.int a) = false) := by
  refine ⟨fun a b => ?_, fun a => rfl⟩
  simp [t11Eq, t11View, PyU.eq]

/-- what an access of the model answers, as the translated method answers it -/
def encOutcome (ty : Text → Text) (eLark : PyExc) : Option (Py C11.Dict) → Py V
  | none => .error eLark
  | some (.error e) => .error e
  | some (.ok d) => .ok (encDict ty d)

theorem asDictCached_tree {H : Type} [DecidableEq H] (hash : Tree → H) (compute : Tree → Option (Py C11.Dict)) (s : C11.PState H) :
    (C11.asDictCached hash compute s).2.tree = s.tree := by
  simp only [C11.asDictCached]
  split
  · rfl
  · split <;> rfl

theorem asDictCached_unchanged {H : Type} [DecidableEq H] (hash : Tree → H) (compute : Tree → Option (Py C11.Dict)) (s : C11.PState H)
    (h : ∀ d, (C11.asDictCached hash compute s).1 ≠ some (.ok d)) : (C11.asDictCached hash compute s).2 = s := by
  simp only [C11.asDictCached] at h ⊢
  split
  · rfl
  · rename_i hne
    simp only [hne, if_false] at h
    split
    · rename_i d hcomp
      simp only [hcomp] at h
      exact absurd rfl (h d)
    · rfl

/-- the history run through the translated method is the model's history -/
theorem gen_runHist {H : Type} [DecidableEq H] (ty : Text → Text) (hty : TyOK ty)
    (encT : Tree → V) (encH : H → V) (eLark : PyExc) (hash : Tree → H) (items : Tree → Option (List C11.Item'))
    (tree_hash reconstruct_items stb : V → Py V)
    (hx : ExtSpec ty encT encH eLark hash items tree_hash reconstruct_items stb) :
    ∀ (ops : List C11.Op) (s : C11.PState H),
      runHistG encT (Gen.PyC2Dict.as_dict tree_hash reconstruct_items stb) s.tree (encState ty encT encH s) ops
        = (C11.runHist hash (fun t => (items t).map (C11.asDict ProfileApi.listProps)) s ops).map (encOutcome ty eLark) := by
  intro ops
  induction ops with
  | nil => intro s; rfl
  | cons o ops ih =>
    intro s
    cases o with
    | modify f =>
      have := ih ⟨f s.tree, s.dictHash, s.dictCache⟩
      simp only [runHistG, encState, profileV, C11.runHist]
      exact this
    | access =>
      have hc := gen_as_dict_cached ty hty encT encH eLark hash items tree_hash reconstruct_items stb hx s
      have ht := asDictCached_tree hash (fun t => (items t).map (C11.asDict ProfileApi.listProps)) s
      have hu := asDictCached_unchanged hash (fun t => (items t).map (C11.asDict ProfileApi.listProps)) s
      simp only [runHistG, C11.runHist, hc, List.map_cons]
      generalize C11.asDictCached hash (fun t => (items t).map (C11.asDict ProfileApi.listProps)) s = r at ht hu
      obtain ⟨r1, r2⟩ := r
      simp only at ht hu
      cases r1 with
      | none =>
        have hs : r2 = s := hu (fun d => by simp)
        subst hs
        simp only [encCached, encOutcome, ih]
      | some x =>
        cases x with
        | error e =>
          have hs : r2 = s := hu (fun d => by simp)
          subst hs
          simp only [encCached, encOutcome, ih]
        | ok d =>
          have := ih r2
          rw [ht] at this
          simp only [encCached, encOutcome, this]

/-- `dict_tracks_modification`, restated for the translated method: for any interleaving of modifications and accesses on a
freshly constructed profile object, every access through the TRANSLATED `as_dict` answers the dictionary (or the exception) of
the CURRENT tree — under the assumption that the hash does not collide between the trees the history goes through. -/
theorem gen_dict_tracks_modification {H : Type} [DecidableEq H] (ty : Text → Text) (hty : TyOK ty)
    (encT : Tree → V) (encH : H → V) (eLark : PyExc) (hash : Tree → H) (items : Tree → Option (List C11.Item'))
    (tree_hash reconstruct_items stb : V → Py V)
    (hx : ExtSpec ty encT encH eLark hash items tree_hash reconstruct_items stb) (t : Tree) (ops : List C11.Op)
    (hinj : ∀ a ∈ C11.treesOf t ops, ∀ b ∈ C11.treesOf t ops, hash a = hash b → a = b) :
    runHistG encT (Gen.PyC2Dict.as_dict tree_hash reconstruct_items stb) t
        (encState ty encT encH (C11.PState.fresh t : C11.PState H)) ops
      = (C11.expected (fun t => (items t).map (C11.asDict ProfileApi.listProps)) t ops).map (encOutcome ty eLark) := by
  have h := gen_runHist ty hty encT encH eLark hash items tree_hash reconstruct_items stb hx ops (C11.PState.fresh t)
  have hm := C11.dict_tracks_modification hash (fun t => (items t).map (C11.asDict ProfileApi.listProps)) t ops hinj
  rw [← hm]
  exact h

/-! ### the block builders -/

/-- the translated `value_to_string` (Gen/PyC2Prof.lean) computes the model's `valueToString` for every `str` (arbitrary code
points) and every `bytes` value -/
theorem gen_value_to_string_builder : V2sSpec v2sG := v2sG_spec

/-- `ConfigBlock.set_option(option, value)` appends `Tree(option, [Tree("string", [Token("STRING", value_to_string(value))])])` -/
theorem gen_set_option {lbl : V} {mk : List V → V} (h : Holder lbl mk) (f : V → Py V) (hf : V2sSpec f)
    (kids : List V) (name : V) (v : C11.PyVal) :
    Gen.PyC2Dict.ConfigBlock_set_option f (mk kids) name (encPyVal v)
      = .ok (.tuple [.none, mk (kids ++ [optNodeV name (C11.valueToString v)])]) :=
  gen_set_option_proof h f hf kids name v

/-- `C2Profile.set_option(option, value)` appends `Tree("option", [Token("OPTION", option), Tree("string", …)])` -/
theorem gen_profile_set_option {lbl : V} {mk : List V → V} (h : Holder lbl mk) (f : V → Py V) (hf : V2sSpec f)
    (kids : List V) (name : V) (v : C11.PyVal) :
    Gen.PyC2Dict.C2Profile_set_option f (mk kids) name (encPyVal v)
      = .ok (.tuple [.none, mk (kids ++ [globalOptNodeV name (C11.valueToString v)])]) :=
  gen_profile_set_option_proof h f hf kids name v

/-- `_enable(option, value)` appends `Tree(option, [])`, whatever the value -/
theorem gen_enable {lbl : V} {mk : List V → V} (h : Holder lbl mk) (kids : List V) (name value : V) :
    Gen.PyC2Dict.ConfigBlock__enable (mk kids) name value = .ok (.tuple [.none, mk (kids ++ [enableNodeV name])]) :=
  gen_enable_proof h kids name value

/-- `_pair(option, [(a, b), …])` appends one `Tree(option, [string a, string b])` per pair, in order -/
theorem gen_pair {lbl : V} {mk : List V → V} (h : Holder lbl mk) (f : V → Py V) (hf : V2sSpec f)
    (kids : List V) (name : V) (ps : List (C11.PyVal × C11.PyVal)) :
    Gen.PyC2Dict.ConfigBlock__pair f (mk kids) name (encPairs ps) = .ok (.tuple [.none, mk (kids ++ pairNodesV name ps)]) :=
  gen_pair_proof h f hf kids name ps

/-- `_header(_, pairs)` / `_parameter(_, pairs)`: the same with the fixed labels `header` / `parameter` -/
theorem gen_header {lbl : V} {mk : List V → V} (h : Holder lbl mk) (f : V → Py V) (hf : V2sSpec f)
    (kids : List V) (name : V) (ps : List (C11.PyVal × C11.PyVal)) :
    Gen.PyC2Dict.ConfigBlock__header f (mk kids) name (encPairs ps)
      = .ok (.tuple [.none, mk (kids ++ pairNodesV (PyU.lit "header") ps)]) :=
  gen_header_proof h f hf kids name ps

theorem gen_parameter {lbl : V} {mk : List V → V} (h : Holder lbl mk) (f : V → Py V) (hf : V2sSpec f)
    (kids : List V) (name : V) (ps : List (C11.PyVal × C11.PyVal)) :
    Gen.PyC2Dict.ConfigBlock__parameter f (mk kids) name (encPairs ps)
      = .ok (.tuple [.none, mk (kids ++ pairNodesV (PyU.lit "parameter") ps)]) :=
  gen_parameter_proof h f hf kids name ps

/-- a `str` / `bytes` VALUE where the pair methods expect pairs: nothing for the empty value, ValueError / TypeError otherwise -/
theorem gen_pair_value (f : V → Py V) (self name : V) (v : C11.PyVal) :
    Gen.PyC2Dict.ConfigBlock__pair f self name (encPyVal v) = (C11.pairsFromVal v).map fun _ => .tuple [.none, self] :=
  gen_pair_on_val f self name v

/-- `set_config_block(option, block)` appends `Tree(option, block.tree.children)` (the translation COPIES the children; the
real code shares the list object — assumed: the block is not changed after it was attached) -/
theorem gen_set_config_block {lbl : V} {mk : List V → V} (h : Holder lbl mk) (kids : List V) (name : V)
    (blk : V) (bl : V) (bkids : List V) (hb : PyU.getAttr blk "tree" = .ok (treeV bl bkids)) :
    Gen.PyC2Dict.ConfigBlock_set_config_block (mk kids) name blk = .ok (.tuple [.none, mk (kids ++ [treeV name bkids])]) :=
  gen_set_config_block_proof h kids name blk bl bkids hb

/-- `set_non_empty_config_block`: the same, unless the block has no children -/
theorem gen_set_non_empty_config_block {lbl : V} {mk : List V → V} (h : Holder lbl mk) (kids : List V) (name : V)
    (blk : V) (bl : V) (bkids : List V) (hb : PyU.getAttr blk "tree" = .ok (treeV bl bkids)) :
    Gen.PyC2Dict.ConfigBlock_set_non_empty_config_block (mk kids) name blk
      = .ok (.tuple [.none, mk (if bkids.isEmpty then kids else kids ++ [treeV name bkids])]) :=
  gen_set_non_empty_config_block_proof h kids name blk bl bkids hb

/-- `DataTransformBlock.add_step` / `add_termination` -/
theorem gen_add_step (f : V → Py V) (hf : V2sSpec f) (sk tk : List V) (name : V) (v : Option C11.PyVal) :
    Gen.PyC2Dict.DataTransformBlock_add_step f (dtV sk tk) name (encOptVal v)
      = .ok (.tuple [.none, dtV (sk ++ [stepNodeV name v]) tk]) :=
  gen_add_step_proof f hf sk tk name v

theorem gen_add_termination (f : V → Py V) (hf : V2sSpec f) (sk tk : List V) (name : V) (v : Option C11.PyVal) :
    Gen.PyC2Dict.DataTransformBlock_add_termination f (dtV sk tk) name (encOptVal v)
      = .ok (.tuple [.none, dtV sk (tk ++ [stepNodeV name v])]) :=
  gen_add_termination_proof f hf sk tk name v

/-- `DataTransformBlock(steps)`: the step / termination split of the constructor, for every list of bare names and
`(name, value)` pairs — including the two-character names, which the source unpacks into two characters (`dtAddV`) -/
theorem gen_data_transform_block_init (f : V → Py V) (hf : V2sSpec f) (steps : List C11.Step) :
    Gen.PyC2Dict.DataTransformBlock___init__ f dtBlank (.list (steps.map encStep))
      = .ok (.tuple [.none, dtV (steps.foldl dtAddV ([], [])).1 (steps.foldl dtAddV ([], [])).2]) :=
  gen_data_transform_block_init_proof f hf steps

/-- the property `DataTransformBlock.tree` -/
theorem gen_data_transform_block_tree (sk tk : List V) :
    Gen.PyC2Dict.DataTransformBlock_tree (dtV sk tk)
      = .ok (.tuple [treeV (PyU.lit "DataTransformBlock") [dtNodeV sk tk], dtV sk tk]) :=
  gen_data_transform_tree_proof sk tk

/-- … and the tree of `DataTransformBlock(steps)` is the model's `dtForest` -/
theorem gen_data_transform_forest (G : C10.Table) (steps : List C11.Step) :
    absKids G [dtNodeV (steps.foldl dtAddV ([], [])).1 (steps.foldl dtAddV ([], [])).2] = some (C11.dtForest G steps) :=
  abs_dtForest G steps

/-- the body of `ExecuteOptionsBlock.from_execute_list`: the nodes of `execNodesV`, or the ValueError of the first unknown name -/
theorem gen_from_execute_list {lbl : V} {mk : List V → V} (h : Holder lbl mk) (f : V → Py V) (hf : V2sSpec f)
    (kids : List V) (xs : List C11.ExecItem) :
    Gen.PyC2Dict.ExecuteOptionsBlock_from_execute_list f (mk kids) (.list (xs.map encExecItem))
      = (execNodesV xs).map fun ns => .tuple [.none, mk (kids ++ ns)] :=
  gen_from_execute_list_proof h f hf kids xs

theorem gen_execute_forest (G : C10.Table) (xs : List C11.ExecItem) : AbsRes G (execNodesV xs) (C11.execForest G xs) :=
  abs_execNodes G xs

/-- the body of `BeaconGateBlock.from_beacon_gate_option_strings`, for ASCII names -/
theorem gen_from_beacon_gate_option_strings {lbl : V} {mk : List V → V} (h : Holder lbl mk) (kids : List V) (xs : List Text)
    (ha : ∀ x ∈ xs, x.all (· < 128) = true) :
    Gen.PyC2Dict.BeaconGateBlock_from_beacon_gate_option_strings (mk kids) (.list (xs.map V.str))
      = .ok (.tuple [.none, mk (kids ++ gateNodesV xs)]) :=
  gen_from_beacon_gate_proof h kids xs ha

theorem gen_gate_forest (G : C10.Table) (xs : List Text) : absKids G (gateNodesV xs) = some (C11.gateForest G xs) :=
  abs_gateNodes G xs

/-- the nodes the methods append are the model's nodes (labels interned through the grammar's name table) -/
theorem gen_nodes (G : C10.Table) (name : Text) (v : C11.PyVal) (ps : List (C11.PyVal × C11.PyVal)) :
    absKids G [optNodeV (.str name) (C11.valueToString v)] = some (C11.optNode G name v) ∧
    absKids G [globalOptNodeV (.str name) (C11.valueToString v)] = some (C11.globalOptNode G name v) ∧
    absKids G [enableNodeV (.str name)] = some (C11.enableNode G name) ∧
    absKids G (pairNodesV (.str name) ps) = some (C11.pairNodes G name ps) :=
  ⟨abs_optNode G name v, abs_globalOptNode G name v, abs_enableNode G name, abs_pairNodes G name ps⟩

/-- A whole call sequence of the model's call language on one object, run through the TRANSLATED methods (`buildCallsG`; the
keyword dispatch of `init_kwargs` is the model's), appends exactly the children the model's `buildCalls` appends — or raises the
same exception.  `gateOKC`: the names handed to `from_beacon_gate_option_strings` are ASCII. -/
theorem gen_build_calls (api : List ProfileApi.Cls) (G : C10.Table) (c : ProfileApi.Cls) (lbl : V) (mk : List V → V) (h : Holder lbl mk)
    (calls : C11.Calls) (kids : List V) (f : C10.Forest) (hg : gateOKC calls = true) (hk : absKids G kids = some f) :
    CallsRel G mk f (buildCallsG api c (mk kids) calls) (C11.buildCalls api G c calls) :=
  buildCallsG_rel api G c lbl mk h calls kids f hg hk

/-- `C2Profile(**kwargs)` followed by further calls, through the translated methods: the model's tree -/
theorem gen_build_profile (G : C10.Table) (calls : C11.Calls) (hg : gateOKC calls = true) :
    (match C11.buildProfile ProfileApi.classes G calls with
      | .error e => buildProfileG ProfileApi.classes calls = .error e
      | .ok t => ∃ obj, buildProfileG ProfileApi.classes calls = .ok obj ∧ absTreeOf G obj = some t) :=
  buildProfileG_rel G calls hg

/-- `builder_eq_parsed`, restated for the translated methods: for every call sequence, if the profile object the TRANSLATED
methods build holds a tree that passes the derivation checker, whose tokens are lexable and `tokOK`, then the profile's own text
exists and `from_text` of it is that derivation again, i.e. the builder's tree. -/
theorem gen_builder_eq_parsed (calls : C11.Calls) (hg : gateOKC calls = true) (obj : V) (t : Tree) (d : Deriv) (idc : Nat → Bool)
    (hc : C10.IdcOK idc) (hb : buildProfileG ProfileApi.classes calls = .ok obj) (ht : absTreeOf C10.gen obj = some t)
    (hd : C11.derive C10.gen t = some d) (hok : ∀ tk ∈ d.yield, C10.tokOK C10.gen tk = true)
    (hl : ∀ tk ∈ d.yield, C10.lexableTok C10.gen.words (C10.gen.tokText tk) = true) :
    ∃ text, C10.asText C10.gen idc t = some text ∧ C10.parseText C10.gen text = .ok d ∧ C10.toTree d = t := by
  have h := gen_build_profile C10.gen calls hg
  cases hm : C11.buildProfile ProfileApi.classes C10.gen calls with
  | error e =>
    rw [hm] at h
    simp only at h
    rw [h] at hb
    cases hb
  | ok t' =>
    rw [hm] at h
    obtain ⟨obj', h1, h2⟩ := h
    rw [h1] at hb
    cases hb
    rw [h2] at ht
    cases ht
    exact C11.builder_eq_parsed calls t d idc hc hm hd hok hl

/-- `builder_bytes_roundtrip`, restated: the STRING token the translated `value_to_string` writes for `bytes`, read by the
translated `string_token_to_bytes` (as the walk does inside a list property), gives the same bytes back -/
theorem gen_builder_bytes_roundtrip (b : Bytes) (fuel : Nat) (hf : (C11.valueToString (.bytes b)).length < fuel) :
    (do let s ← v2sG (.bytes b); stbG fuel (tokenV strName s)) = .ok (.bytes b) := by
  have hs := v2sG_spec (.bytes b)
  simp only [encPyVal] at hs
  have hspec := stbG_spec fuel [.token true (C11.valueToString (.bytes b))] (by
    intro i hi
    rw [List.mem_singleton.mp hi]
    exact hf)
  rw [hs]
  simp only [PyRt.ok_bind]
  rw [hspec.string _ List.mem_cons_self]
  have := C11.builder_bytes_roundtrip b
  simp only [C11.listAtom] at this
  cases hc : C12.stringTokenToBytesCP (C11.valueToString (.bytes b)) with
  | error e => rw [hc] at this; cases this
  | ok x =>
    rw [hc] at this
    simp only [Except.ok.injEq, C11.Atom.bytes.injEq] at this
    rw [this]
    rfl

/-! ### Non-vacuity: the translated definitions evaluated on concrete inputs -/

def tyOpt : Text → Text := fun _ => PyU.cps "OPTION"
theorem tyOpt_ok : TyOK tyOpt := by intro s; simp only [tyOpt]; decide

-- `http-get { client { metadata { base64; prepend "\x41"; } header "a" "b"; } }  set sleeptime "5";`
def exItems : List C11.Item' :=
  [.plain (cps "http-get"), .plain (cps "{"), .plain (cps "client"), .plain (cps "{"), .plain (cps "metadata"), .plain (cps "{"),
   .plain (cps "base64"), .plain (cps ";"), .plain (cps "prepend"), .token true (cps "\"\\x41\""), .plain (cps ";"), .plain (cps "}"),
   .plain (cps "header"), .token true (cps "\"a\""), .token true (cps "\"b\""), .plain (cps ";"), .plain (cps "}"), .plain (cps "}"),
   .plain (cps "set"), .token false (cps "sleeptime"), .token true (cps "\"5\""), .plain (cps ";")]

example : asDictWalkG tyOpt exItems = .ok (.inst t11DdCls [.dict
    [lit "http-get.client.metadata", lit "http-get.client.header", lit "sleeptime"]
    [.list [lit "base64", .tuple [lit "prepend", .bytes [0x41]]], .list [.tuple [lit "a", lit "b"]], .list [lit "5"]]]) := by
  decide +kernel

-- the variant `"default"` is dropped from the path, another variant is kept (with its quotes); an unbalanced `}` is an IndexError
example : asDictWalkG tyOpt [.plain (cps "http-get"), .token true (cps "\"default\""), .plain (cps "{"), .plain (cps "set"),
      .plain (cps "uri"), .token true (cps "\"/\""), .plain (cps ";"), .plain (cps "}"),
      .plain (cps "http-get"), .token true (cps "\"v\""), .plain (cps "{"), .plain (cps "set"),
      .plain (cps "uri"), .token true (cps "\"/x\""), .plain (cps ";"), .plain (cps "}")]
    = .ok (.inst t11DdCls [.dict [lit "http-get.uri", lit "http-get.\"v\".uri"] [.list [lit "/"], .list [lit "/x"]]]) := by
  decide +kernel
example : asDictWalkG tyOpt [.plain (cps "}")] = .error .indexError := by decide +kernel
-- known finding C11-comment-dns-resolver: `# dns_resolver "x";` — the pair branch meets a plain keyword: AttributeError
example : asDictWalkG tyOpt [.plain (cps "#"), .plain (cps "dns_resolver"), .token true (cps "\"x\""), .plain (cps ";")]
    = .error .attributeError := by decide +kernel
-- a truncated escape inside a list property: the ValueError of `string_token_to_bytes`
example : asDictWalkG tyOpt [.plain (cps "process-inject"), .plain (cps "{"), .plain (cps "execute"), .plain (cps "{"),
      .plain (cps "CreateThread"), .token true (cps "\"\\x4\""), .plain (cps ";")] = .error .valueError := by decide +kernel
-- arguments of other kinds: `items` that is not iterable, an item that is neither a `str` nor a Token
example : Gen.PyC2Dict.as_dict_walk (stbG 10) (.int 5) = .error .typeError := by decide +kernel
example : Gen.PyC2Dict.as_dict_walk (stbG 10) (.list [.int 5]) = .error .typeError := by decide +kernel
example : Gen.PyC2Dict.as_dict_walk (stbG 10) (.str (cps "a;")) = .ok (.inst t11DdCls [.dict [lit ""] [.list [lit "a"]]]) := by
  decide +kernel

-- `C2Profile().set_option("sleeptime", b"5\x00")`, `StageBlock(...)._pair("strrep", [("a", "b")])`, `set_non_empty_config_block`
example : Gen.PyC2Dict.C2Profile_set_option v2sG (profileBlockV (lit "start") []) (lit "sleeptime") (.bytes [0x35, 0])
    = .ok (.tuple [.none, profileBlockV (lit "start") [globalOptNodeV (lit "sleeptime") (cps "\"5\\x00\"")]]) := by decide +kernel
example : Gen.PyC2Dict.ConfigBlock__pair v2sG (blockV (lit "stage") []) (lit "strrep") (.list [.tuple [lit "a", lit "b\"c"]])
    = .ok (.tuple [.none, blockV (lit "stage") [pairNodeV (lit "strrep") (cps "\"a\"") (cps "\"b\\\"c\"")]]) := by decide +kernel
example : Gen.PyC2Dict.ConfigBlock_set_non_empty_config_block (blockV (lit "start") []) (lit "stage") (blockV (lit "stage") [])
    = .ok (.tuple [.none, blockV (lit "start") []]) := by decide +kernel
-- `DataTransformBlock(steps=["base64", ("prepend", "x"), "print", "ab", ("header", "Cookie")])`: `ab` is unpacked into `a`, `b`
example : dtBlockG [.bare (cps "base64"), .arg (cps "prepend") (.str (cps "x")), .bare (cps "print"), .bare (cps "ab"),
      .arg (cps "header") (.str (cps "Cookie"))]
    = .ok (blockV (lit "DataTransformBlock") [dtNodeV
        [enableNodeV (lit "base64"), optNodeV (lit "prepend") (cps "\"x\""), optNodeV (lit "a") (cps "\"b\"")]
        [enableNodeV (lit "print"), optNodeV (lit "header") (cps "\"Cookie\"")]]) := by decide +kernel
-- `from_execute_list(["CreateThread", ("CreateRemoteThread", "x"), "NtQueueApcThread-s"])`; an unknown name: ValueError
example : Gen.PyC2Dict.ExecuteOptionsBlock_from_execute_list v2sG (blockV (lit "ExecuteOptionsBlock") [])
      (.list [lit "CreateThread", .tuple [lit "CreateRemoteThread", lit "x"], lit "NtQueueApcThread-s"])
    = .ok (.tuple [.none, blockV (lit "ExecuteOptionsBlock") [enableNodeV (lit "createthread"),
        optNodeV (lit "createremotethread_special") (cps "\"x\""), enableNodeV (lit "ntqueueapcthread_s")]]) := by decide +kernel
example : Gen.PyC2Dict.ExecuteOptionsBlock_from_execute_list v2sG (blockV (lit "ExecuteOptionsBlock") []) (.list [lit "Bogus"])
    = .error .valueError := by decide +kernel
-- arguments of other kinds: a block without a `tree`, pairs that are no pairs, `None` where a list is expected
example : Gen.PyC2Dict.ConfigBlock_set_config_block (blockV (lit "start") []) (lit "stage") (.int 5) = .error .attributeError := by
  decide +kernel
example : Gen.PyC2Dict.ConfigBlock__pair v2sG (blockV (lit "stage") []) (lit "strrep") (.list [.tuple [lit "a"]]) = .error .valueError := by
  decide +kernel
example : Gen.PyC2Dict.BeaconGateBlock_from_beacon_gate_option_strings (blockV (lit "BeaconGateBlock") []) .none = .error .typeError := by
  decide +kernel
-- a whole call sequence through the translated methods: `C2Profile(sleeptime="5")` + `set_config_block("stage", StageBlock(name=b"x\0"))`
example : (buildProfileG ProfileApi.classes C11.exampleCalls).map (absTreeOf C10.gen)
    = (C11.buildProfile ProfileApi.classes C10.gen C11.exampleCalls).map some := by decide +kernel

end C11Gen

import CsVerif.Lemmas.C12
import CsVerif.Gen.StrLit
/-! C12 property theorems: profile string literals encode and decode bytes losslessly and safely.

`valueToString`, `stringTokenToBytes`, `scanString`, `rxMatch` are the models of Model/C12.lean;
`escUnit`, `Esc` (units of a literal body: text, decoded bytes, side condition) are defined in Lemmas/C12.lean. -/
namespace C12

/-! ### generated obligation: the STRING terminal is the one the scanner model was derived from -/

theorem pattern_is_modelled :
    Gen.StrLit.stringPattern = modelledPattern ∧ Gen.StrLit.stringPatternFlags = [] ∧
      Gen.StrLit.globalRegexFlags = 0 ∧ Gen.StrLit.quoteTerminals = ["STRING"] := by
  decide

/-- the derived scanner is the literal backtracking reading of `"(.|\n)*?(?<!\\)(\\\\)*?"` at position 0 -/
theorem scanString_eq_rxMatch (t : Txt) : scanString t = rxMatch t :=
  scanString_eq_rxMatch' t

/-! ### the key lemma: `repr` + the two global `str.replace` calls act byte by byte -/

theorem valueToString_unitwise (bs : Bytes) :
    valueToString bs = [dq] ++ bs.flatMap escUnit ++ [dq] := by
  rw [valueToString_eq]; simp

/-- every character of a generated literal is printable ASCII (no raw newline, no control or high byte) -/
theorem literal_printable_ascii (bs : Bytes) : ∀ c ∈ valueToString bs, 0x20 ≤ c ∧ c < 0x7f :=
  valueToString_printable' bs

/-! ### the two central theorems (all byte strings, unbounded) -/

theorem literal_roundtrip (bs : Bytes) : stringTokenToBytes (valueToString bs) = .ok bs :=
  roundtrip bs

theorem literal_single_token (bs : Bytes) (rest : Txt) :
    scanString (valueToString bs ++ rest) = some (valueToString bs, rest) :=
  scanString_literal bs rest

/-- the same for the literal reading of the regex -/
theorem literal_single_token_regex (bs : Bytes) (rest : Txt) :
    rxMatch (valueToString bs ++ rest) = some (valueToString bs, rest) := by
  rw [← scanString_eq_rxMatch]; exact scanString_literal bs rest

/-- inside any statement: lexing one STRING at the literal's position consumes exactly the literal,
whatever follows, and reading the token back gives the bytes -/
theorem literal_in_statement (bs : Bytes) (rest : Txt) :
    lexLiteral (valueToString bs ++ rest) = some (bs.flatMap escUnit, .ok bs, rest) := by
  simp only [lexLiteral, scanString_literal, roundtrip]
  rw [valueToString_eq, token_slice]

/-! ### documented escapes, in any position of a literal -/

/-- a body that is any sequence of units (plain characters, `\xHH`, `\uHHHH`, `\n \r \t \\ \" \'`,
unknown escapes) decodes to the concatenation of the units' bytes -/
theorem decode_units (us : List Esc) (hwf : ∀ e ∈ us, e.WF) :
    stringTokenToBytes ([dq] ++ us.flatMap Esc.text ++ [dq]) = .ok (us.flatMap Esc.vals) := by
  have := decode_units_eq us hwf
  simpa using this

/-- each documented escape decodes to its byte between arbitrary well-formed units `before` / `after` -/
theorem escape_table (before after : List Esc) (hb : ∀ e ∈ before, e.WF) (ha : ∀ e ∈ after, e.WF)
    (x y : Fin 16) (ux uy : Bool) (a b : UInt8) :
    let lit (e : Esc) := [dq] ++ (before ++ [e] ++ after).flatMap Esc.text ++ [dq]
    let res (v : UInt8) : Py Bytes := .ok (before.flatMap Esc.vals ++ [v] ++ after.flatMap Esc.vals)
    (Esc.hex x y ux uy).text = [bsl, 120, hexChar ux x, hexChar uy y] ∧
    (Esc.uni a b x y ux uy).text = [bsl, 117, a, b, hexChar ux x, hexChar uy y] ∧
    Esc.nl.text = [bsl, 110] ∧ Esc.cr.text = [bsl, 114] ∧ Esc.tab.text = [bsl, 116] ∧
    Esc.bslash.text = [bsl, bsl] ∧ Esc.dquote.text = [bsl, dq] ∧ Esc.squote.text = [bsl, sq] ∧
    stringTokenToBytes (lit (.hex x y ux uy)) = res (UInt8.ofNat (16 * x.val + y.val)) ∧
    stringTokenToBytes (lit (.uni a b x y ux uy)) = res (UInt8.ofNat (16 * x.val + y.val)) ∧
    stringTokenToBytes (lit .nl) = res 10 ∧
    stringTokenToBytes (lit .cr) = res 13 ∧
    stringTokenToBytes (lit .tab) = res 9 ∧
    stringTokenToBytes (lit .bslash) = res 0x5c ∧
    stringTokenToBytes (lit .dquote) = res 0x22 ∧
    stringTokenToBytes (lit .squote) = res 0x27 := by
  intro lit res
  have key : ∀ e : Esc, e.WF → stringTokenToBytes (lit e) = .ok ((before ++ [e] ++ after).flatMap Esc.vals) := by
    intro e he
    apply decode_units
    intro e' he'
    simp only [List.mem_append, List.mem_singleton] at he'
    rcases he' with (h | rfl) | h
    · exact hb _ h
    · exact he
    · exact ha _ h
  have fin : ∀ (e : Esc) (v : UInt8), e.WF → e.vals = [v] → stringTokenToBytes (lit e) = res v := by
    intro e v he hv
    rw [key e he]
    simp [res, hv]
  exact ⟨rfl, rfl, rfl, rfl, rfl, rfl, rfl, rfl, fin _ _ trivial rfl, fin _ _ trivial rfl, fin _ _ trivial rfl,
    fin _ _ trivial rfl, fin _ _ trivial rfl, fin _ _ trivial rfl, fin _ _ trivial rfl, fin _ _ trivial rfl⟩

/-- the hexadecimal digit characters are exactly `0-9`, `a-f`, `A-F` with their usual values -/
theorem hexChar_table :
    (List.finRange 16).map (hexChar false) = [48, 49, 50, 51, 52, 53, 54, 55, 56, 57, 97, 98, 99, 100, 101, 102] ∧
    (List.finRange 16).map (hexChar true) = [48, 49, 50, 51, 52, 53, 54, 55, 56, 57, 65, 66, 67, 68, 69, 70] := by
  decide

/-! ### safe behaviour on malformed input -/

/-- a lone trailing backslash is kept as a backslash -/
theorem decode_trailing_backslash (us : List Esc) (hwf : ∀ e ∈ us, e.WF) :
    stringTokenToBytes ([dq] ++ us.flatMap Esc.text ++ [bsl] ++ [dq]) = .ok (us.flatMap Esc.vals ++ [0x5c]) := by
  have := decode_trailing_backslash_eq us hwf
  simpa using this

/-- `\x` with fewer than two, `\u` with fewer than four following characters raises ValueError -/
theorem decode_truncated_escape (us : List Esc) (hwf : ∀ e ∈ us, e.WF) (r : Txt) :
    (r.length < 2 → stringTokenToBytes ([dq] ++ us.flatMap Esc.text ++ bsl :: 120 :: r ++ [dq]) = .error .valueError) ∧
    (r.length < 4 → stringTokenToBytes ([dq] ++ us.flatMap Esc.text ++ bsl :: 117 :: r ++ [dq]) = .error .valueError) := by
  constructor
  · intro hr
    have := decode_truncated_hex_eq us hwf r hr
    simpa using this
  · intro hr
    have := decode_truncated_uni_eq us hwf r hr
    simpa using this

/-- on latin-1 token text the code-point entry (with the `& 0xFF` mask) is the byte-level decoder -/
theorem decode_latin1_codepoints (t : Txt) : stringTokenToBytesCP (t.map (·.toNat)) = stringTokenToBytes t :=
  cp_latin1 t

/-! ### non-vacuity / concrete instances -/

example : valueToString [0x41, 0x22, 0x5c, 0x27, 0x0a, 0x00, 0xff] =
    [0x22, 0x41, 0x5c, 0x22, 0x5c, 0x5c, 0x27, 0x5c, 0x6e, 0x5c, 0x78, 0x30, 0x30, 0x5c, 0x78, 0x66, 0x66, 0x22] := by
  decide

example : stringTokenToBytes (valueToString [0x5c, 0x22, 0x27, 0x5c]) = .ok [0x5c, 0x22, 0x27, 0x5c] :=
  literal_roundtrip _

example : scanString (valueToString [0x5c, 0x22] ++ [0x22, 0x3b]) = some (valueToString [0x5c, 0x22], [0x22, 0x3b]) := by
  decide

example : ∀ e ∈ [Esc.plain 0x41, .hex 4 1 false true, .uni 0x7a 0x7a 15 15 true false, .nl, .unknown 0x71, .plain 0x22], e.WF := by
  decide

example : stringTokenToBytes ([dq] ++ [Esc.plain 0x41, .hex 4 1 false true, .unknown 0x71, .uni 0x7a 0x7a 15 15 true false].flatMap Esc.text ++ [dq])
    = .ok [0x41, 0x41, 0xff] :=
  decode_units _ (by decide)

/-- a `"` preceded by an odd number of backslashes does not end the token; an even number does -/
example : scanString [0x22, 0x5c, 0x22, 0x22, 0x61] = some ([0x22, 0x5c, 0x22, 0x22], [0x61]) ∧
    scanString [0x22, 0x5c, 0x5c, 0x22, 0x22] = some ([0x22, 0x5c, 0x5c, 0x22], [0x22]) ∧
    scanString [0x22, 0x5c, 0x22] = none := by
  decide

end C12

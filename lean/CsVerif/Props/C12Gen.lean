import CsVerif.Gen.PyC2Prof
import CsVerif.Props.C12
import CsVerif.Lemmas.C12Gen
/-!
C12 — the tie between the source text and the model, by (untyped) translation.

`Gen/PyC2Prof.lean` is produced on every run by `tools/py2leanu.py` from the *source* of `c2profile.value_to_string`,
`c2profile.string_token_to_bytes` and the five methods of the class `c2profile.StringIterator`: every Python value is a
`PyU.V`, every Python operation one total function of `lean/CsVerif/Model/PyU.lean` / `PyU_T12.lean`.  A `StringIterator` is
the value `V.inst StringIteratorCls [buffer, index]`, threaded through the calls of its methods (a method that assigns an
attribute answers `(result, self afterwards)`); `for c in it:` is `it.__iter__()` followed by one `it.__next__()` per run of
the loop body (a separate definition run by `PyU.whileFuelS`) until `StopIteration`, which lives in the monad `PyU.PyS`
(`PyExc` plus `StopIteration`).  `lark.Token` is the class descriptor `Token` with the attributes `type` and `value`.

`gen_value_to_string` / `gen_value_to_string_str` / `gen_string_token_to_bytes` state that the translated definitions compute,
for every `bytes` argument / every latin-1 `str` argument / every `Token("STRING", text)` with arbitrary code points and every
fuel above the length of the token body, exactly the encoding of what the hand-written model (`C12.valueToString`,
`C12.valueToStringStr`, `C12.stringTokenToBytesCP`) computes — including the `ValueError`s of truncated `\x` / `\u` escapes and
of `int(·, 16)`, and never `StopIteration`.  So every theorem of `Props/C12.lean` is a theorem about the function text as it
stands now (the corollaries below restate the central ones for the translated definitions), and an edit of one of the
functions that changes its meaning breaks the proof here.  Helper lemmas: `Lemmas/C12Gen.lean`.
-/
namespace C12Gen
open PyU

/-- `value_to_string(bs)` for every `bytes` argument -/
theorem gen_value_to_string (bs : Bytes) :
    Gen.PyC2Prof.value_to_string (.bytes bs) = .ok (latin (C12.valueToString bs)) :=
  gen_value_to_string_proof bs

/-- `value_to_string(s)` for every latin-1 `str` argument (the domain of the hand-written model `C12.valueToStringStr`) -/
theorem gen_value_to_string_str (t : C12.Txt) :
    Gen.PyC2Prof.value_to_string (latin t) = .ok (latin (C12.valueToStringStr t)) :=
  gen_value_to_string_str_proof t

/-- `string_token_to_bytes(Token("STRING", text))` for token text of arbitrary code points, for every fuel above the length of
the token body `text[1:-1]`: the model's result, in the monad with `StopIteration` (which is never raised) -/
theorem gen_string_token_to_bytes (text : List Nat) (fuel : Nat) (hf : text.length - 2 < fuel) :
    Gen.PyC2Prof.string_token_to_bytes fuel (stringToken text) = liftS ((C12.stringTokenToBytesCP text).map .bytes) :=
  gen_string_token_to_bytes_proof text fuel hf

/-- the same for latin-1 token text, against the byte-level decoder the property theorems are stated on -/
theorem gen_string_token_to_bytes_latin1 (t : C12.Txt) (fuel : Nat) (hf : t.length - 2 < fuel) :
    Gen.PyC2Prof.string_token_to_bytes fuel (tokenV (lit "STRING") (latin t)) = liftS ((C12.stringTokenToBytes t).map .bytes) := by
  have h := gen_string_token_to_bytes (t.map (·.toNat)) fuel (by simpa using hf)
  rw [C12.decode_latin1_codepoints] at h
  exact h

/-- an argument that is not a `Token` is returned as it is -/
theorem gen_string_token_to_bytes_not_token (v : V) (fuel : Nat) (h : isInstance v [Ty.cls Gen.PyC2Prof.Token] = false) :
    Gen.PyC2Prof.string_token_to_bytes fuel v = .ok v :=
  gen_string_token_to_bytes_not_token_proof v fuel h

/-- a `Token` whose type is not `"STRING"` is returned as it is -/
theorem gen_string_token_to_bytes_other_type (ty value : V) (fuel : Nat) (h : PyU.eq ty (lit "STRING") = false) :
    Gen.PyC2Prof.string_token_to_bytes fuel (tokenV ty value) = .ok (tokenV ty value) :=
  gen_string_token_to_bytes_other_type_proof ty value fuel h

/-! ### the property theorems, restated for the translated definitions -/

/-- `literal_roundtrip`: the text the source of `value_to_string` produces for `bs`, read by the source of
`string_token_to_bytes`, gives `bs` back — for every byte string and every fuel above four times its length -/
theorem gen_literal_roundtrip (bs : Bytes) (fuel : Nat) (hf : 4 * bs.length < fuel) :
    (do let s ← liftS (Gen.PyC2Prof.value_to_string (.bytes bs))
        Gen.PyC2Prof.string_token_to_bytes fuel (tokenV (lit "STRING") s)) = .ok (.bytes bs) := by
  have hl : (C12.valueToString bs).length - 2 < fuel := by
    have := C12.valueToString_unitwise bs
    have hu : ∀ b : UInt8, (C12.escUnit b).length ≤ 4 := by
      intro b; revert b; apply C12.forall_byte; decide +kernel
    have hsum : ∀ l : Bytes, (l.flatMap C12.escUnit).length ≤ 4 * l.length := by
      intro l
      induction l with
      | nil => simp
      | cons x xs ih => simp only [List.flatMap_cons, List.length_append, List.length_cons]; have := hu x; omega
    rw [this]
    simp only [List.length_append, List.length_cons, List.length_nil]
    have := hsum bs
    omega
  rw [gen_value_to_string]
  simp only [liftS, PyU.liftS, okS_bind]
  rw [gen_string_token_to_bytes_latin1 _ fuel hl, C12.literal_roundtrip]
  rfl

/-- `literal_single_token`: the text the source of `value_to_string` produces is exactly one STRING token, whatever follows -/
theorem gen_literal_single_token (bs : Bytes) (rest : C12.Txt) :
    ∃ t, Gen.PyC2Prof.value_to_string (.bytes bs) = .ok (latin t) ∧ C12.scanString (t ++ rest) = some (t, rest) :=
  ⟨C12.valueToString bs, gen_value_to_string bs, C12.literal_single_token bs rest⟩

/-- every character the source of `value_to_string` produces for `bytes` is printable ASCII -/
theorem gen_literal_printable_ascii (bs : Bytes) :
    ∃ t, Gen.PyC2Prof.value_to_string (.bytes bs) = .ok (latin t) ∧ ∀ c ∈ t, 0x20 ≤ c ∧ c < 0x7f :=
  ⟨C12.valueToString bs, gen_value_to_string bs, C12.literal_printable_ascii bs⟩

/-- `decode_units`: a token body that is any sequence of well-formed units decodes to the concatenation of the units' bytes -/
theorem gen_decode_units (us : List C12.Esc) (hwf : ∀ e ∈ us, e.WF) (fuel : Nat)
    (hf : ([C12.dq] ++ us.flatMap C12.Esc.text ++ [C12.dq]).length - 2 < fuel) :
    Gen.PyC2Prof.string_token_to_bytes fuel (tokenV (lit "STRING") (latin ([C12.dq] ++ us.flatMap C12.Esc.text ++ [C12.dq])))
      = .ok (.bytes (us.flatMap C12.Esc.vals)) := by
  rw [gen_string_token_to_bytes_latin1 _ fuel hf, C12.decode_units us hwf]; rfl

/-- `decode_truncated_escape`: `\x` with fewer than two following characters raises ValueError -/
theorem gen_decode_truncated_hex (us : List C12.Esc) (hwf : ∀ e ∈ us, e.WF) (r : C12.Txt) (hr : r.length < 2) (fuel : Nat)
    (hf : ([C12.dq] ++ us.flatMap C12.Esc.text ++ C12.bsl :: 120 :: r ++ [C12.dq]).length - 2 < fuel) :
    Gen.PyC2Prof.string_token_to_bytes fuel
        (tokenV (lit "STRING") (latin ([C12.dq] ++ us.flatMap C12.Esc.text ++ C12.bsl :: 120 :: r ++ [C12.dq])))
      = .error (.py .valueError) := by
  rw [gen_string_token_to_bytes_latin1 _ fuel hf, (C12.decode_truncated_escape us hwf r).1 hr]; rfl

/-! ### Non-vacuity: the translated definitions evaluated on concrete inputs -/

-- value_to_string(b'A"\\\'\n\x00\xff') = '"A\\"\\\\\'\\n\\x00\\xff"'
example : Gen.PyC2Prof.value_to_string (.bytes [0x41, 0x22, 0x5c, 0x27, 0x0a, 0x00, 0xff])
    = .ok (.str [0x22, 0x41, 0x5c, 0x22, 0x5c, 0x5c, 0x27, 0x5c, 0x6e, 0x5c, 0x78, 0x30, 0x30, 0x5c, 0x78, 0x66, 0x66, 0x22]) := by
  decide +kernel
-- value_to_string('a"b\\\'c') = '"a\\"b\'c"'
example : Gen.PyC2Prof.value_to_string (lit "a\"b\\'c") = .ok (lit "\"a\\\"b'c\"") := by decide +kernel
-- value_to_string(5) = '"5"', value_to_string(None) = '"None"'
example : Gen.PyC2Prof.value_to_string (.int 5) = .ok (lit "\"5\"") := by decide +kernel
example : Gen.PyC2Prof.value_to_string .none = .ok (lit "\"None\"") := by decide +kernel
-- string_token_to_bytes(Token("STRING", '"a\\x41\\n\\u00ffz\\\\"')) = b'aA\n\xffz\\'
example : Gen.PyC2Prof.string_token_to_bytes 40 (tokenV (lit "STRING") (lit "\"a\\x41\\n\\u00ffz\\\\\""))
    = .ok (.bytes [0x61, 0x41, 0x0a, 0xff, 0x7a, 0x5c]) := by decide +kernel
-- a truncated escape, a malformed hexadecimal number: ValueError
example : Gen.PyC2Prof.string_token_to_bytes 40 (tokenV (lit "STRING") (lit "\"a\\x4\"")) = .error (.py .valueError) := by
  decide +kernel
example : Gen.PyC2Prof.string_token_to_bytes 40 (tokenV (lit "STRING") (lit "\"\\xg1\"")) = .error (.py .valueError) := by
  decide +kernel
-- `int("+4", 16)`, an unknown escape and a lone trailing backslash: b'\x04\\'
example : Gen.PyC2Prof.string_token_to_bytes 40 (tokenV (lit "STRING") (lit "\"\\x+4\\q\\\"")) = .ok (.bytes [4, 0x5c]) := by
  decide +kernel
-- code points above U+00FF are masked with 0xFF: "\u0141" is read as "A"
example : Gen.PyC2Prof.string_token_to_bytes 40 (stringToken [0x22, 0x141, 0x22]) = .ok (.bytes [0x41]) := by decide +kernel
-- too little fuel: Timeout (4 characters need 5 runs of the loop body)
example : Gen.PyC2Prof.string_token_to_bytes 4 (tokenV (lit "STRING") (lit "\"abcd\"")) = .error (.py .timeoutDiverge) := by
  decide +kernel
example : Gen.PyC2Prof.string_token_to_bytes 5 (tokenV (lit "STRING") (lit "\"abcd\"")) = .ok (.bytes [0x61, 0x62, 0x63, 0x64]) := by
  decide +kernel
-- not a STRING token / not a token: returned unchanged; a token whose value is not a `str`: `ord(97)` is a TypeError
example : Gen.PyC2Prof.string_token_to_bytes 40 (tokenV (lit "NAME") (lit "\"a\"")) = .ok (tokenV (lit "NAME") (lit "\"a\"")) := by
  decide +kernel
example : Gen.PyC2Prof.string_token_to_bytes 40 (.int 5) = .ok (.int 5) := by decide +kernel
example : Gen.PyC2Prof.string_token_to_bytes 40 (tokenV (lit "STRING") (.bytes [0x22, 0x61, 0x22])) = .error (.py .typeError) := by
  decide +kernel

end C12Gen

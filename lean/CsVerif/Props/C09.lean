import CsVerif.Lemmas.C09
/-! C09 property theorems: the XorEncoded file view refines a read-only file over the decoded bytes;
candidate detection (parameterised theorems first, then — section "detection with the real scanner" — `from_file` with
`utils.iter_find_needle` itself, model `C15.iterFindNeedle`, for every buffer size and without any scanner hypothesis);
the full refinement for EVERY history (`history_refines_all_seeks`, `trace_refines_all_seeks`; the pre-13416c7 `seek` refuted:
`history_refines_all_seeks_refutes_old`).
Vocabulary (`Layout`, `Abs`, `plainRead`, `XorFile.withPos`, `realHits`, `sizeOffsets`, `realCandidates`, `SizeRel`, `mzVerdict`,
`rawTarget`, `belowStart`, `logicalTarget`, `plainBelowStart`) is in `Lemmas/C09.lean`, the model (`fromFileReal`, …) and the
specification (`rollDecode`, `plainRun`, `seeksNonneg`) in `Model/C09.lean`. -/
namespace C09

/-! ### the specification is the inverse of the encoder -/

/-- element-wise reading of the specification -/
theorem rollDecode_getElem (nonce enc : Bytes) (i : Nat) (h : i < enc.length) :
    (rollDecode nonce enc)[i]'(by rw [rollDecode_length]; exact h)
      = enc[i] ^^^ (if i < 4 then nonce.getD i 0 else enc.getD (i - 4) 0) := by
  simp [rollDecode]

/-- decoding what the rolling encoder produced gives the plaintext back (any length) -/
theorem rollDecode_rollEncode (nonce plain : Bytes) (h : nonce.length = 4) :
    rollDecode nonce (rollEncode nonce plain) = plain := by
  rw [rollDecode_eq_zipWith _ _ h]
  exact zipWith_rollEncodeAux plain nonce (by intro h0; rw [h0] at h; cases h)

/-! ### opening the view -/

/-- `XorEncodedFile(fh, len(stub))` on `stub ++ nonce ++ size ++ enc` records nonce and size and stands at
logical position 0, wherever the underlying cursor was before. -/
theorem open_layout (stub nonce size enc : Bytes) (hn : nonce.length = 4) (hs : size.length = 4)
    (f : PyFile) (hd : f.data = stub ++ nonce ++ size ++ enc) :
    ∃ x, mk' f stub.length = .ok x ∧ Layout stub nonce size enc x ∧ x.fh.pos = stub.length + 8 + 0 ∧
      x.noncedSize = size ∧ tell x = 0 := by
  refine ⟨_, mk'_spec stub nonce size enc hn hs f hd, ⟨hd, hn, hs, rfl, rfl⟩, rfl, rfl, ?_⟩
  simp only [tell, PyFile.tell]; omega

/-! ### `read_nonce` -/

/-- At every logical position `p` (any alignment) the rolling key is `(nonce ++ enc)[p : p+4]`: for `p < 4` the
tail of the initial nonce followed by the first `p` encoded bytes (the size dword is skipped), afterwards the four
encoded bytes before the cursor.  The cursor is left where it was. -/
theorem readNonce_correct {stub nonce size enc : Bytes} {x : XorFile} (hL : Layout stub nonce size enc x)
    (p : Nat) (hpos : x.fh.pos = stub.length + 8 + p) (hp : p ≤ enc.length) :
    readNonce x = .ok (((nonce ++ enc).drop p).take 4, x) ∧
    (p < 4 → ((nonce ++ enc).drop p).take 4 = nonce.drop p ++ enc.take p) ∧
    (4 ≤ p → ((nonce ++ enc).drop p).take 4 = (enc.drop (p - 4)).take 4) := by
  refine ⟨readNonce_eq hL p hpos hp, ?_, ?_⟩
  · intro hp4
    have hn := hL.nlen
    rw [List.drop_append_of_le_length (by omega), List.take_append]
    have : (nonce.drop p).length = 4 - p := by simp [hn]
    rw [this, List.take_of_length_le (by simp [hn])]
    have : 4 - (4 - p) = p := by omega
    rw [this]
  · intro hp4
    have := drop_prefix nonce enc 4 (p - 4) hL.nlen
    have h2 : 4 + (p - 4) = p := by omega
    rw [h2] at this
    rw [this]

/-! ### `read` -/

/-- From every logical position `p ≥ 0` (also beyond the end), for every `n` (None, negative, 0, positive, beyond
EOF) `read(n)` returns exactly the plaintext slice an ordinary file would return, the reported position advances
by exactly the number of bytes returned, and nothing else about the object changes. -/
theorem read_refines {stub nonce size enc : Bytes} {x : XorFile} (hL : Layout stub nonce size enc x)
    (p : Nat) (hpos : x.fh.pos = stub.length + 8 + p) (n : Option Int) :
    ∃ out x',
      read x n = .ok (out, x') ∧
      out = (match n with
        | none => (rollDecode nonce enc).drop p
        | some v => if v < 0 then (rollDecode nonce enc).drop p else ((rollDecode nonce enc).drop p).take v.toNat) ∧
      out = (({ data := rollDecode nonce enc, pos := p } : PyFile).read (n.getD (-1))).1 ∧
      tell x' = (p : Int) + (out.length : Int) ∧
      x' = x.withPos (stub.length + 8 + p + out.length) ∧
      Layout stub nonce size enc x' := by
  refine ⟨_, _, read_spec hL p hpos n, ?_, rfl, ?_, rfl, layout_withPos hL _⟩
  · rw [plainRead_eq]
    cases n with
    | none => rfl
    | some v =>
      simp only [normN]
      by_cases hv : v < 0
      · simp [hv]
      · have : ¬ v = -1 := by omega
        simp [hv, this]
  · simp only [tell, PyFile.tell, XorFile.withPos, hL.off]
    omega

/-! ### histories -/

/-- Refinement for histories without negative seek targets (kept as a corollary-style statement that also covers a plain
OS file `k`; the unrestricted statement is `history_refines_all_seeks` below): for every history of `seek` (SET/CUR/END), `read(n)` (all `n`) and `tell` whose
seeks land at logical positions `≥ 0` — including beyond the end — the view produces exactly the outputs of an
ordinary file (BytesIO or OS file, `k`) over the decoded bytes — `seek` returning the raw offset, i.e. the logical one
shifted by `nonce_offset + 8` — and ends in the state that abstracts to the plain file's state. -/
theorem history_refines {stub nonce size enc : Bytes} {x : XorFile} (hL : Layout stub nonce size enc x)
    (p : Nat) (hpos : x.fh.pos = stub.length + 8 + p)
    (k : FileKind) (ops : List Op) (hops : seeksNonneg enc.length p ops = true) :
    ∃ outs pf',
      plainRun { data := rollDecode nonce enc, pos := p, kind := k } ops = .ok (outs, pf') ∧
      run x ops = .ok (outs.map (Out.shift (stub.length + 8)), x.withPos (stub.length + 8 + pf'.pos)) ∧
      pf'.data = rollDecode nonce enc := by
  have hA : Abs stub nonce size enc x { data := rollDecode nonce enc, pos := p, kind := k } := ⟨hL, rfl, hpos⟩
  obtain ⟨outs, pf', h1, h2, hA'⟩ := run_refines ops hA hops
  exact ⟨outs, pf', h1, h2, hA'.data⟩

/-- the same, starting from the constructor call on the raw file -/
theorem history_refines_from_open (stub nonce size enc : Bytes) (hn : nonce.length = 4) (hs : size.length = 4)
    (f : PyFile) (hd : f.data = stub ++ nonce ++ size ++ enc)
    (ops : List Op) (hops : seeksNonneg enc.length 0 ops = true) :
    ∃ x outs pf' x',
      mk' f stub.length = .ok x ∧
      plainRun { data := rollDecode nonce enc, pos := 0, kind := f.kind } ops = .ok (outs, pf') ∧
      run x ops = .ok (outs.map (Out.shift (stub.length + 8)), x') ∧
      tell x' = (pf'.pos : Int) := by
  obtain ⟨x, hx, hL, hpos, _, _⟩ := open_layout stub nonce size enc hn hs f hd
  obtain ⟨outs, pf', h1, h2, _⟩ := history_refines hL 0 hpos f.kind ops hops
  refine ⟨x, outs, pf', _, hx, h1, h2, ?_⟩
  simp only [tell, PyFile.tell, XorFile.withPos, hL.off]
  omega

/-- the trace printed by the driver (`runTrace`, which continues after an exception) is the output list of `run`
whenever `run` succeeds, so the correspondence runs exercise exactly the function the theorems are about -/
theorem runTrace_of_run (ops : List Op) : ∀ (x : XorFile) (outs : List Out) (x' : XorFile),
    run x ops = .ok (outs, x') → runTrace x ops = outs.map .ok := by
  induction ops with
  | nil =>
    intro x outs x' h
    simp only [run] at h
    injection h with h
    rw [← (Prod.mk.inj h).1]; rfl
  | cons op ops ih =>
    intro x outs x' h
    simp only [run] at h
    cases hs : stepOp x op with
    | error e => rw [hs] at h; cases h
    | ok r =>
      obtain ⟨o, x1⟩ := r
      rw [hs] at h
      simp only at h
      cases hr : run x1 ops with
      | error e => rw [hr] at h; cases h
      | ok r2 =>
        obtain ⟨os, x2⟩ := r2
        rw [hr] at h
        simp only at h
        injection h with h
        rw [← (Prod.mk.inj h).1]
        simp only [runTrace, hs, List.map_cons, ih x1 os x2 hr]

def eofWitness : XorFile :=
  { fh := { data := [1, 2, 3, 4, 0, 0, 0, 0], pos := 9 }, nonceOff := 0,
    initialNonce := [1, 2, 3, 4], noncedSize := [0, 0, 0, 0] }

/-- The theorem separates the repaired code from the code before fix f64b15d: with the old `read_nonce` (no
`self.fh.seek(pos)`), at logical position 1 of an empty payload `read(1)` returns `b""` but leaves the raw cursor at
the end of the data, so `tell()` reports 0 instead of 1 — whereas `read_refines` gives 1 for the current code. -/
theorem history_refines_refutes_old :
    Layout [] [1, 2, 3, 4] [0, 0, 0, 0] [] eofWitness ∧ eofWitness.fh.pos = 0 + 8 + 1 ∧
    (∃ x', readWith readNonceOld eofWitness (some 1) = .ok ([], x') ∧ tell x' = 0) ∧
    (∃ x', read eofWitness (some 1) = .ok ([], x') ∧ tell x' = 1) := by
  have hL : Layout [] [1, 2, 3, 4] [0, 0, 0, 0] [] eofWitness := ⟨rfl, rfl, rfl, rfl, rfl⟩
  refine ⟨hL, rfl, ?_, ?_⟩
  · refine ⟨eofWitness.withPos 8, ?_, by decide⟩
    have hn : readNonceOld eofWitness = .ok ([2, 3, 4], eofWitness.withPos 8) := by rfl
    have hl : readLoop 1 (eofWitness.withPos 8).fh [2, 3, 4] 0 = ([], (eofWitness.withPos 8).fh) :=
      readLoop_at_eof _ _ _ _ (by decide)
    have h1 : normN (some 1) = 1 := by decide
    rw [readWith_unfold, h1, hn]
    dsimp only
    rw [hl]
    rfl
  · have h := read_spec hL 1 rfl (some 1)
    have hp : plainRead (rollDecode [1, 2, 3, 4] []) 1 (some 1) = [] := by decide
    rw [hp] at h
    exact ⟨_, h, by decide⟩

/-! ### detection -/

/-- If the size relation holds at the true nonce offset (`u32(nonce ^ size) + len(stub) + 8 == file size`) and the
stub is shorter than `maxrange`, `iter_nonce_offsets` yields that offset, hence it is among the candidates
`from_file` tries (whatever the needle scan found). -/
theorem true_offset_is_candidate (stub nonce size rest : Bytes) (hn : nonce.length = 4) (hs : size.length = 4)
    (f : PyFile) (hd : f.data = stub ++ nonce ++ size ++ rest)
    (hsize : u32 (C20.xor nonce size) + (stub.length : Int) + 8 = (f.data.length : Int))
    (maxrange : Nat) (hlt : stub.length < maxrange) (markerHits : List Nat) :
    ∃ l f', iterNonceOffsets f none maxrange = .ok (l, f') ∧ stub.length ∈ l ∧
      stub.length ∈ candidates markerHits l := by
  simp only [iterNonceOffsets, PyFile.seekEnd]
  rw [seekRel_ok f f.data.length 0 f.data.length (by omega)]
  simp only [PyFile.tell]
  obtain ⟨l, f', h, hm⟩ := nonceLoop_finds (f.data.length : Int) stub nonce size rest hn hs hsize maxrange 0
    { f with pos := f.data.length } hd (Nat.zero_le _) (by omega)
  exact ⟨l, f', h, hm, (mem_candidates _ _ _).mpr (Or.inr hm)⟩

/-- the candidates are exactly the marker hits `+ 3` and the offsets found through the size relation -/
theorem candidates_mem (markerHits nonceOffs : List Nat) (c : Nat) :
    c ∈ candidates markerHits nonceOffs ↔ (∃ h ∈ markerHits, c = h + 3) ∨ c ∈ nonceOffs := by
  rw [mem_candidates]
  simp only [List.mem_map]
  constructor
  · rintro (⟨h, hh, rfl⟩ | h)
    · exact Or.inl ⟨h, hh, rfl⟩
    · exact Or.inr h
  · rintro (⟨h, hh, rfl⟩ | h)
    · exact Or.inl ⟨h, hh, rfl⟩
    · exact Or.inr h

/-- Order in which they are tried = `Counter(...).most_common()`: a permutation of the distinct keys in
first-insertion order, sorted by count descending, ties kept in first-insertion order (stable). -/
theorem mostCommon_order (c : List (Nat × Nat)) :
    (mostCommon c).Perm c ∧ (mostCommon c).Pairwise (fun a b => a.2 ≥ b.2) ∧
    ∀ n, (mostCommon c).filter (·.2 == n) = c.filter (·.2 == n) :=
  ⟨mostCommon_perm c, mostCommon_sorted c, mostCommon_stable c⟩

/-- no candidate passes the MZ check ⇒ `from_file` raises ValueError -/
theorem detect_rejects (f : PyFile) (maxrange : Nat) (markerHits : List Nat) (mzOk : Nat → Bool)
    (l : List Nat) (f1 : PyFile) (hl : iterNonceOffsets f none maxrange = .ok (l, f1))
    (h : ∀ c ∈ candidates markerHits l, mzOk c = false) :
    fromFile f maxrange markerHits mzOk = .error .valueError := by
  simp only [fromFile, hl]
  exact tryCandidates_reject mzOk _ f1 h

/-- in particular when there is no candidate at all -/
theorem detect_rejects_no_candidate (f : PyFile) (maxrange : Nat) (mzOk : Nat → Bool)
    (f1 : PyFile) (hl : iterNonceOffsets f none maxrange = .ok ([], f1)) :
    fromFile f maxrange [] mzOk = .error .valueError :=
  detect_rejects f maxrange [] mzOk [] f1 hl (by intro c hc; simp [candidates, counter, mostCommon] at hc)

/-- the result is the view at the first candidate, in Counter order, that passes the MZ check, positioned at
logical offset 0 -/
theorem detect_first_passing (f : PyFile) (maxrange : Nat) (markerHits : List Nat) (mzOk : Nat → Bool)
    (l : List Nat) (f1 : PyFile) (hl : iterNonceOffsets f none maxrange = .ok (l, f1))
    (pre : List Nat) (c : Nat) (post : List Nat) (hc : candidates markerHits l = pre ++ c :: post)
    (hpre : ∀ d ∈ pre, mzOk d = false) (hok : mzOk c = true) :
    ∃ x0, mk' f c = .ok x0 ∧ fromFile f maxrange markerHits mzOk = .ok (x0.withPos (c + 8)) ∧
      (x0.withPos (c + 8)).nonceOff = c ∧ tell (x0.withPos (c + 8)) = 0 := by
  obtain ⟨l', f1', hl', hd1, hk1⟩ := iterNonceOffsets_ok f maxrange
  rw [hl] at hl'
  injection hl' with hl'
  obtain ⟨rfl, rfl⟩ := Prod.mk.inj hl'
  obtain ⟨x0, hx0, hn0, _, _⟩ := mk'_ok f c
  refine ⟨x0, hx0, ?_, hn0, ?_⟩
  · simp only [fromFile, hl, hc]
    exact tryCandidates_first mzOk f pre c post x0 hx0 hok f1 hd1 hk1 hpre
  · simp only [tell, PyFile.tell, XorFile.withPos, hn0]; omega

/-- `from_file` succeeds iff some candidate passes -/
theorem detect_ok_iff (f : PyFile) (maxrange : Nat) (markerHits : List Nat) (mzOk : Nat → Bool)
    (l : List Nat) (f1 : PyFile) (hl : iterNonceOffsets f none maxrange = .ok (l, f1)) :
    (∃ x, fromFile f maxrange markerHits mzOk = .ok x) ↔ ∃ c ∈ candidates markerHits l, mzOk c = true := by
  constructor
  · rintro ⟨x, hx⟩
    apply Classical.byContradiction
    intro hno
    have : ∀ c ∈ candidates markerHits l, mzOk c = false := by
      intro c hc
      cases hm : mzOk c with
      | false => rfl
      | true => exact absurd ⟨c, hc, hm⟩ hno
    rw [detect_rejects f maxrange markerHits mzOk l f1 hl this] at hx
    cases hx
  · rintro ⟨c, hc, hm⟩
    obtain ⟨pre, d, post, hsplit, hpre, hd⟩ := first_passing_split mzOk (candidates markerHits l) ⟨c, hc, hm⟩
    obtain ⟨x0, _, h, _⟩ := detect_first_passing f maxrange markerHits mzOk l f1 hl pre d post hsplit hpre hd
    exact ⟨_, h⟩

/-- Hypothesis of `detect_correct_partial`: no candidate ranked before the true offset passes the MZ check. -/
def NoSpuriousCandidate (cands : List Nat) (mzOk : Nat → Bool) (trueOff : Nat) : Prop :=
  ∃ pre post, cands = pre ++ trueOff :: post ∧ ∀ d ∈ pre, mzOk d = false

/-- Detection of a well-formed stage: when the true offset is a candidate, passes the MZ check and no higher-ranked
candidate does, `from_file` returns the view at the true offset; that view satisfies `Layout`, stands at logical
position 0, and therefore (by `history_refines`) behaves as a read-only file over the decoded bytes. -/
theorem detect_correct_partial (stub nonce size enc : Bytes) (hn : nonce.length = 4) (hs : size.length = 4)
    (f : PyFile) (hd : f.data = stub ++ nonce ++ size ++ enc)
    (maxrange : Nat) (markerHits : List Nat) (mzOk : Nat → Bool)
    (l : List Nat) (f1 : PyFile) (hl : iterNonceOffsets f none maxrange = .ok (l, f1))
    (hns : NoSpuriousCandidate (candidates markerHits l) mzOk stub.length) (hok : mzOk stub.length = true) :
    ∃ x, fromFile f maxrange markerHits mzOk = .ok x ∧ Layout stub nonce size enc x ∧
      x.fh.pos = stub.length + 8 + 0 ∧ tell x = 0 := by
  obtain ⟨pre, post, hsplit, hpre⟩ := hns
  obtain ⟨x0, hx0, h, _, ht⟩ := detect_first_passing f maxrange markerHits mzOk l f1 hl pre stub.length post hsplit hpre hok
  rw [mk'_spec stub nonce size enc hn hs f hd] at hx0
  injection hx0 with hx0
  subst hx0
  exact ⟨_, h, ⟨hd, hn, hs, rfl, rfl⟩, rfl, ht⟩

/-! ### totality, and detection with the modelled `find_mz_offset` -/

/-- `read(n)` never raises and changes nothing but the raw cursor, in every state of the object (also with a
wrong nonce offset or the cursor outside the payload). -/
theorem read_never_raises (x : XorFile) (n : Option Int) : ∃ out q, read x n = .ok (out, x.withPos q) :=
  read_total x n

/-- `pe.find_mz_offset` on a view never raises: short struct reads are skipped, every seek is non-negative. -/
theorem find_mz_offset_never_raises (x : XorFile) (start maxrange : Nat) :
    ∃ r q, findMzOffset x start maxrange = .ok (r, x.withPos q) :=
  findMzOffset_total x start maxrange

/-- A view whose decoded content starts with a PE image (64-byte DOS header with `0 < e_lfanew < maxrange`, file
header at `4 + e_lfanew` with Machine AMD64 or I386) passes the MZ check, at offset 0. -/
theorem candidate_passes {stub nonce size enc : Bytes} {x : XorFile} (hL : Layout stub nonce size enc x)
    (maxrange e : Nat) (hpe : PeHeaderAt0 (rollDecode nonce enc) maxrange e) :
    ∃ x', findMzOffset x 0 maxrange = .ok (some 0, x') :=
  findMz_header hL maxrange e hpe

/-- `from_file` with the MZ check modelled equals the parameterised `fromFile` instantiated with the verdicts of
the modelled check, so every `detect_*` theorem applies to it. -/
theorem fromFileFull_refines (f : PyFile) (maxrange : Nat) (markerHits : List Nat) :
    fromFileFull f maxrange markerHits = fromFile f maxrange markerHits (mzVerdict f) :=
  fromFileFull_eq f maxrange markerHits (mzVerdict f) (mzVerdict_spec f)

/-- End-to-end detection of a stage whose plaintext starts with a PE image: if no higher-ranked candidate passes
the (modelled) MZ check, `from_file` returns the decoding view at the true nonce offset, at logical position 0. -/
theorem detect_correct_full_partial (stub nonce size enc : Bytes) (hn : nonce.length = 4) (hs : size.length = 4)
    (f : PyFile) (hd : f.data = stub ++ nonce ++ size ++ enc)
    (maxrange : Nat) (markerHits : List Nat)
    (l : List Nat) (f1 : PyFile) (hl : iterNonceOffsets f none maxrange = .ok (l, f1))
    (e : Nat) (hpe : PeHeaderAt0 (rollDecode nonce enc) 1024 e)
    (hns : NoSpuriousCandidate (candidates markerHits l) (mzVerdict f) stub.length) :
    ∃ x, fromFileFull f maxrange markerHits = .ok x ∧ Layout stub nonce size enc x ∧
      x.fh.pos = stub.length + 8 + 0 ∧ tell x = 0 := by
  rw [fromFileFull_refines]
  apply detect_correct_partial stub nonce size enc hn hs f hd maxrange markerHits (mzVerdict f) l f1 hl hns
  have h0 := mk'_spec stub nonce size enc hn hs f hd
  have hL : Layout stub nonce size enc (⟨{ f with pos := stub.length + 8 }, stub.length, nonce, size⟩ : XorFile) :=
    ⟨hd, hn, hs, rfl, rfl⟩
  obtain ⟨x', hx'⟩ := findMz_header hL 1024 e hpe
  rw [mzVerdict_spec f stub.length _ h0 (some 0) x' hx']
  rfl

/-! ### detection with the real scanner: no hypothesis about `iter_find_needle` -/

/-- `from_file` with the real block scanner is the `fromFileFull` of the earlier theorems, instantiated with the hits the
scanner reports on this file; the scanner never raises here and its Python ints are exactly those naturals. -/
theorem fromFileReal_refines (B : Nat) (f : PyFile) (maxrange : Nat) :
    fromFileReal B f maxrange = fromFileFull f maxrange (realHits B f maxrange) ∧
    fromFileReal B f maxrange = tryCandidates f (mzVerdict f) (realCandidates B f maxrange) ∧
    ∃ hits f2, markerScan B f maxrange = .ok (hits, f2) ∧ f2.data = f.data ∧ f2.kind = f.kind ∧
      (1 ≤ B → hits = (realHits B f maxrange).map Int.ofNat) := by
  refine ⟨fromFileReal_full B f maxrange, fromFileReal_try B f maxrange, ?_⟩
  obtain ⟨hits, f2, h, hd, hk⟩ := markerScan_ok B f maxrange
  exact ⟨hits, f2, h, hd, hk, fun hB => markerScan_nonneg B hB f maxrange hits f2 h⟩

/-- What the real scanner reports for the marker, for every buffer size `B ≥ 1` and every limit: only true occurrences
of `ff ff ff` (below `2·maxrange` when a limit is given), ascending, and every occurrence that ends at or before
`maxrange`; all occurrences when `maxrange = 0` (which `iter_find_needle` reads as "no limit"). -/
theorem real_hits_characterised (B : Nat) (hB : 1 ≤ B) (f : PyFile) (maxrange : Nat) :
    (∀ h ∈ realHits B f maxrange, h ∈ C15.occ f.data eofMarker ∧ (maxrange ≠ 0 → h ≤ 2 * maxrange)) ∧
    (∀ h ∈ C15.occ f.data eofMarker, maxrange = 0 ∨ h + 3 ≤ maxrange → h ∈ realHits B f maxrange) ∧
    (realHits B f maxrange).Pairwise (· < ·) ∧
    (maxrange = 0 → realHits B f maxrange = C15.occ f.data eofMarker) := by
  refine ⟨fun h hh => ⟨(realHits_sublist B hB f maxrange).subset hh, fun hm => realHits_bound B f maxrange hm h hh⟩,
    fun h hh hl => realHits_complete B hB f maxrange h hh hl,
    (C15.occ_sorted _ _).sublist (realHits_sublist B hB f maxrange), ?_⟩
  rintro rfl
  exact realHits_nolimit B hB f

/-- `iter_nonce_offsets(fh, maxrange=maxrange)` yields exactly the offsets `c < maxrange` with eight readable bytes
whose decoded size dword satisfies `u32(nonce ^ size) + c + 8 == file size`. -/
theorem size_offsets_exact (f : PyFile) (maxrange c : Nat) :
    c ∈ sizeOffsets f maxrange ↔ c < maxrange ∧ SizeRel f.data (f.data.length : Int) c :=
  sizeOffsets_iff f maxrange c

/-- The candidates `from_file` tries, with the real scanner: each one is pointed at by a true marker occurrence or
satisfies the size relation (soundness), and every offset `≤ maxrange` preceded by the marker and every
size-consistent offset `< maxrange` is a candidate (completeness) — for every buffer size. -/
theorem real_candidates_characterised (B : Nat) (hB : 1 ≤ B) (f : PyFile) (maxrange c : Nat) :
    (c ∈ realCandidates B f maxrange →
      (∃ h ∈ C15.occ f.data eofMarker, c = h + 3 ∧ (maxrange ≠ 0 → h ≤ 2 * maxrange)) ∨
      (c < maxrange ∧ SizeRel f.data (f.data.length : Int) c)) ∧
    ((∃ h ∈ C15.occ f.data eofMarker, c = h + 3 ∧ (maxrange = 0 ∨ c ≤ maxrange)) ∨
      (c < maxrange ∧ SizeRel f.data (f.data.length : Int) c) → c ∈ realCandidates B f maxrange) := by
  obtain ⟨hs, hc, _, _⟩ := real_hits_characterised B hB f maxrange
  simp only [realCandidates, candidates_mem, size_offsets_exact]
  constructor
  · rintro (⟨h, hh, rfl⟩ | h)
    · exact Or.inl ⟨h, (hs h hh).1, rfl, (hs h hh).2⟩
    · exact Or.inr h
  · rintro (⟨h, hh, rfl, hl⟩ | h)
    · exact Or.inl ⟨h, hc h hh (by omega), rfl⟩
    · exact Or.inr h

/-- A stage `stub ++ nonce ++ size ++ enc` whose stub ends with the marker (and is not longer than `maxrange`), or
whose size dword is correct (stub shorter than `maxrange`), or both: its true nonce offset is among the candidates
produced with the REAL scanner, for every buffer size. -/
theorem true_offset_is_candidate_real (B : Nat) (hB : 1 ≤ B) (stub nonce size enc : Bytes)
    (hn : nonce.length = 4) (hs : size.length = 4) (f : PyFile) (hd : f.data = stub ++ nonce ++ size ++ enc)
    (maxrange : Nat)
    (h : (∃ s0, stub = s0 ++ eofMarker ∧ (maxrange = 0 ∨ stub.length ≤ maxrange)) ∨
         (u32 (C20.xor nonce size) + (stub.length : Int) + 8 = (f.data.length : Int) ∧ stub.length < maxrange)) :
    stub.length ∈ realCandidates B f maxrange := by
  apply (real_candidates_characterised B hB f maxrange stub.length).2
  rcases h with ⟨s0, rfl, hl⟩ | ⟨hsz, hlt⟩
  · left
    refine ⟨s0.length, ?_, ?_, hl⟩
    · rw [hd]
      have : s0 ++ eofMarker ++ nonce ++ size ++ enc = s0 ++ eofMarker ++ (nonce ++ size ++ enc) := by
        simp only [List.append_assoc]
      rw [this]
      exact marker_occ_of_layout s0 _
    · simp only [List.length_append]; rfl
  · right
    refine ⟨hlt, ?_, ?_⟩
    · rw [hd]; simp only [List.length_append, hn, hs]; omega
    · have e1 : (f.data.drop stub.length).take 4 = nonce := by
        rw [hd]; simp only [List.append_assoc]; rw [List.drop_left, List.take_left' hn]
      have e2 : (f.data.drop (stub.length + 4)).take 4 = size := by
        have : stub.length + 4 = (stub ++ nonce).length := by simp [hn]
        rw [hd, this]; simp only [List.append_assoc]
        rw [← List.append_assoc stub nonce, List.drop_left, List.take_left' hs]
      rw [e1, e2]; exact hsz

/-- `from_file` (real scanner) succeeds iff some candidate's decoded view passes the MZ check -/
theorem detect_ok_iff_real (B : Nat) (f : PyFile) (maxrange : Nat) :
    (∃ x, fromFileReal B f maxrange = .ok x) ↔ ∃ c ∈ realCandidates B f maxrange, mzVerdict f c = true := by
  obtain ⟨l, f1, hl, _, _⟩ := iterNonceOffsets_ok f maxrange
  rw [fromFileReal_full, fromFileFull_refines, realCandidates, sizeOffsets_of_scan hl]
  exact detect_ok_iff f maxrange _ _ l f1 hl

/-- the result is the view at the first candidate, in Counter order, that passes the MZ check, at logical offset 0 -/
theorem detect_first_passing_real (B : Nat) (f : PyFile) (maxrange : Nat)
    (pre : List Nat) (c : Nat) (post : List Nat) (hc : realCandidates B f maxrange = pre ++ c :: post)
    (hpre : ∀ d ∈ pre, mzVerdict f d = false) (hok : mzVerdict f c = true) :
    ∃ x0, mk' f c = .ok x0 ∧ fromFileReal B f maxrange = .ok (x0.withPos (c + 8)) ∧
      (x0.withPos (c + 8)).nonceOff = c ∧ tell (x0.withPos (c + 8)) = 0 := by
  obtain ⟨l, f1, hl, _, _⟩ := iterNonceOffsets_ok f maxrange
  rw [fromFileReal_full, fromFileFull_refines]
  rw [realCandidates, sizeOffsets_of_scan hl] at hc
  exact detect_first_passing f maxrange _ _ l f1 hl pre c post hc hpre hok

/-- Rejection: `from_file` never raises anything but ValueError, and raises it exactly when no candidate passes. -/
theorem detect_rejects_real (B : Nat) (f : PyFile) (maxrange : Nat) :
    (∀ e, fromFileReal B f maxrange = .error e → e = .valueError) ∧
    (fromFileReal B f maxrange = .error .valueError ↔ ∀ c ∈ realCandidates B f maxrange, mzVerdict f c = false) := by
  have key : (∀ c ∈ realCandidates B f maxrange, mzVerdict f c = false) →
      fromFileReal B f maxrange = .error .valueError := by
    intro h
    rw [fromFileReal_try]
    exact tryCandidates_reject _ _ f h
  have hiff := detect_ok_iff_real B f maxrange
  constructor
  · intro e he
    have : ∀ c ∈ realCandidates B f maxrange, mzVerdict f c = false := by
      intro c hc
      cases hm : mzVerdict f c with
      | false => rfl
      | true =>
        obtain ⟨x, hx⟩ := hiff.mpr ⟨c, hc, hm⟩
        rw [hx] at he; cases he
    rw [key this] at he
    injection he with he
    exact he.symm
  · constructor
    · intro he c hc
      cases hm : mzVerdict f c with
      | false => rfl
      | true =>
        obtain ⟨x, hx⟩ := hiff.mpr ⟨c, hc, hm⟩
        rw [hx] at he; cases he
    · exact key

/-- Soundness of a positive answer: the returned view sits at a candidate offset (hence, by
`real_candidates_characterised`, behind a true marker occurrence or at a size-consistent offset), its decoded content
passes the MZ check, every higher-ranked candidate failed it, and the view stands at logical position 0. -/
theorem detect_sound_real (B : Nat) (f : PyFile) (maxrange : Nat) (x : XorFile)
    (h : fromFileReal B f maxrange = .ok x) :
    ∃ pre post x0, realCandidates B f maxrange = pre ++ x.nonceOff :: post ∧ (∀ d ∈ pre, mzVerdict f d = false) ∧
      mzVerdict f x.nonceOff = true ∧ mk' f x.nonceOff = .ok x0 ∧ x = x0.withPos (x.nonceOff + 8) ∧ tell x = 0 := by
  obtain ⟨c, hc, hm⟩ := (detect_ok_iff_real B f maxrange).mp ⟨x, h⟩
  obtain ⟨pre, d, post, hsplit, hpre, hd⟩ := first_passing_split (mzVerdict f) _ ⟨c, hc, hm⟩
  obtain ⟨x0, hx0, hr, hn, ht⟩ := detect_first_passing_real B f maxrange pre d post hsplit hpre hd
  rw [h] at hr
  injection hr with hr
  subst hr
  rw [hn]
  exact ⟨pre, post, x0, hsplit, hpre, hd, hx0, rfl, ht⟩

/-- the (modelled) MZ check accepts the true nonce offset of a stage whose plaintext starts with a PE image -/
theorem true_offset_passes (stub nonce size enc : Bytes) (hn : nonce.length = 4) (hs : size.length = 4)
    (f : PyFile) (hd : f.data = stub ++ nonce ++ size ++ enc)
    (e : Nat) (hpe : PeHeaderAt0 (rollDecode nonce enc) 1024 e) : mzVerdict f stub.length = true := by
  have h0 := mk'_spec stub nonce size enc hn hs f hd
  have hL : Layout stub nonce size enc (⟨{ f with pos := stub.length + 8 }, stub.length, nonce, size⟩ : XorFile) :=
    ⟨hd, hn, hs, rfl, rfl⟩
  obtain ⟨x', hx'⟩ := findMz_header hL 1024 e hpe
  rw [mzVerdict_spec f stub.length _ h0 (some 0) x' hx']
  rfl

/-- End-to-end detection with the real scanner, for every buffer size: a stage whose plaintext starts with a PE image
is detected at its true nonce offset — the returned view satisfies `Layout`, stands at logical position 0 and so (by
`history_refines`) is a read-only file over the decoded bytes — under `NoSpuriousCandidate` only: no candidate ranked
before the true offset decodes to something that passes the MZ check. -/
theorem detect_correct_real_partial (B : Nat) (stub nonce size enc : Bytes) (hn : nonce.length = 4) (hs : size.length = 4)
    (f : PyFile) (hd : f.data = stub ++ nonce ++ size ++ enc) (maxrange : Nat)
    (e : Nat) (hpe : PeHeaderAt0 (rollDecode nonce enc) 1024 e)
    (hns : NoSpuriousCandidate (realCandidates B f maxrange) (mzVerdict f) stub.length) :
    ∃ x, fromFileReal B f maxrange = .ok x ∧ Layout stub nonce size enc x ∧
      x.fh.pos = stub.length + 8 + 0 ∧ tell x = 0 := by
  obtain ⟨l, f1, hl, _, _⟩ := iterNonceOffsets_ok f maxrange
  rw [fromFileReal_full]
  rw [realCandidates, sizeOffsets_of_scan hl] at hns
  exact detect_correct_full_partial stub nonce size enc hn hs f hd maxrange _ l f1 hl e hpe hns

/-- The same with the marker / size-dword condition in place of "is a candidate": if the stub ends with the marker
or the size dword is right, and no OTHER candidate passes the MZ check, detection returns the true view. -/
theorem detect_correct_real_unique (B : Nat) (hB : 1 ≤ B) (stub nonce size enc : Bytes)
    (hn : nonce.length = 4) (hs : size.length = 4)
    (f : PyFile) (hd : f.data = stub ++ nonce ++ size ++ enc) (maxrange : Nat)
    (hcand : (∃ s0, stub = s0 ++ eofMarker ∧ (maxrange = 0 ∨ stub.length ≤ maxrange)) ∨
         (u32 (C20.xor nonce size) + (stub.length : Int) + 8 = (f.data.length : Int) ∧ stub.length < maxrange))
    (e : Nat) (hpe : PeHeaderAt0 (rollDecode nonce enc) 1024 e)
    (huniq : ∀ d ∈ realCandidates B f maxrange, d ≠ stub.length → mzVerdict f d = false) :
    ∃ x, fromFileReal B f maxrange = .ok x ∧ Layout stub nonce size enc x ∧
      x.fh.pos = stub.length + 8 + 0 ∧ tell x = 0 := by
  have hmem := true_offset_is_candidate_real B hB stub nonce size enc hn hs f hd maxrange hcand
  have hok := true_offset_passes stub nonce size enc hn hs f hd e hpe
  obtain ⟨pre, d, post, hsplit, hpre, hdok⟩ := first_passing_split (mzVerdict f) _ ⟨_, hmem, hok⟩
  have hdeq : d = stub.length := by
    apply Classical.byContradiction
    intro hne
    have := huniq d (by rw [hsplit]; simp) hne
    rw [this] at hdok; cases hdok
  subst hdeq
  exact detect_correct_real_partial B stub nonce size enc hn hs f hd maxrange e hpe ⟨pre, post, hsplit, hpre⟩

/-- A hypothesis-free instance (conditions on the bytes only, nothing about scanner, ranking or MZ verdicts): if, within
the first `2·maxrange + 3` bytes, `ff ff ff` occurs only at the end of the stub, and no other offset below `maxrange`
satisfies the size relation, then — for every buffer size — `from_file` returns the true view. -/
theorem detect_correct_real_clean (B : Nat) (hB : 1 ≤ B) (stub nonce size enc : Bytes)
    (hn : nonce.length = 4) (hs : size.length = 4)
    (f : PyFile) (hd : f.data = stub ++ nonce ++ size ++ enc) (maxrange : Nat) (hm : maxrange ≠ 0)
    (hcand : (∃ s0, stub = s0 ++ eofMarker ∧ stub.length ≤ maxrange) ∨
         (u32 (C20.xor nonce size) + (stub.length : Int) + 8 = (f.data.length : Int) ∧ stub.length < maxrange))
    (e : Nat) (hpe : PeHeaderAt0 (rollDecode nonce enc) 1024 e)
    (hmark : ∀ h ∈ C15.occ f.data eofMarker, h ≤ 2 * maxrange → h + 3 = stub.length)
    (hsize : ∀ c, c < maxrange → SizeRel f.data (f.data.length : Int) c → c = stub.length) :
    ∃ x, fromFileReal B f maxrange = .ok x ∧ Layout stub nonce size enc x ∧
      x.fh.pos = stub.length + 8 + 0 ∧ tell x = 0 := by
  apply detect_correct_real_unique B hB stub nonce size enc hn hs f hd maxrange ?_ e hpe
  · intro d hdm hne
    rcases (real_candidates_characterised B hB f maxrange d).1 hdm with ⟨h, hh, rfl, hb⟩ | ⟨hlt, hrel⟩
    · exact absurd (hmark h hh (hb hm)) hne
    · exact absurd (hsize d hlt hrel) hne
  · rcases hcand with ⟨s0, h1, h2⟩ | h
    · exact Or.inl ⟨s0, h1, Or.inr h2⟩
    · exact Or.inr h

/-- With a buffer that holds the limited range (`maxrange + 3 ≤ B`: the shipped configuration, `maxrange = 1024` and
`io.DEFAULT_BUFFER_SIZE = 8192`) the limited marker scan is exact — the occurrences starting at or before `maxrange` —
and so is the candidate set. -/
theorem real_candidates_exact_large_buffer (B : Nat) (f : PyFile) (maxrange : Nat) (hm : maxrange ≠ 0)
    (hB : maxrange + 3 ≤ B) (c : Nat) :
    realHits B f maxrange = (C15.occ f.data eofMarker).filter (fun p => p ≤ maxrange) ∧
    (c ∈ realCandidates B f maxrange ↔
      (∃ h ∈ C15.occ f.data eofMarker, h ≤ maxrange ∧ c = h + 3) ∨
      (c < maxrange ∧ SizeRel f.data (f.data.length : Int) c)) := by
  have hx := realHits_large_buffer B f maxrange hm hB
  refine ⟨hx, ?_⟩
  simp only [realCandidates, candidates_mem, size_offsets_exact, hx, List.mem_filter, decide_eq_true_eq]
  constructor
  · rintro (⟨h, ⟨h1, h2⟩, rfl⟩ | h)
    · exact Or.inl ⟨h, h1, h2, rfl⟩
    · exact Or.inr h
  · rintro (⟨h, h1, h2, rfl⟩ | h)
    · exact Or.inl ⟨h, ⟨h1, h2⟩, rfl⟩
    · exact Or.inr h

/-- The answer of `from_file` does not depend on the read-buffer size when there is no limit (`maxrange = 0`) or when
both buffers hold the limited range.  (For smaller buffers it does: the limit of `iter_find_needle` is compared with
block-relative indices, see C15 `needle_limit_*`; the theorems above hold for every `B ≥ 1` regardless.) -/
theorem detect_buffer_independent (B B' : Nat) (f : PyFile) (maxrange : Nat)
    (h : (maxrange = 0 ∧ 1 ≤ B ∧ 1 ≤ B') ∨ (maxrange + 3 ≤ B ∧ maxrange + 3 ≤ B')) :
    fromFileReal B f maxrange = fromFileReal B' f maxrange := by
  rw [fromFileReal_full, fromFileReal_full]
  congr 1
  rcases h with ⟨rfl, h1, h2⟩ | ⟨h1, h2⟩
  · rw [realHits_nolimit B h1, realHits_nolimit B' h2]
  · by_cases hm : maxrange = 0
    · subst hm; rw [realHits_nolimit B (by omega), realHits_nolimit B' (by omega)]
    · rw [realHits_large_buffer B f maxrange hm h1, realHits_large_buffer B' f maxrange hm h2]

/-! ### every history: seeks with any offset and whence -/

/-- `read(n)` in EVERY state of the object (negative logical position, wrong nonce offset, cursor past the end): it
never raises, changes nothing but the cursor, and the reported position advances by exactly the number of bytes returned. -/
theorem read_advances_everywhere (x : XorFile) (n : Option Int) :
    ∃ out x', read x n = .ok (out, x') ∧ x' = x.withPos (x.fh.pos + out.length) ∧
      tell x' = tell x + (out.length : Int) := by
  obtain ⟨out, h⟩ := read_advances x n
  refine ⟨out, _, h, rfl, ?_⟩
  simp only [tell, PyFile.tell, XorFile.withPos]
  omega

/-- `seek(off, whence)` of the view (current code, after fix 13416c7), exactly, for every state and every argument:
a negative absolute offset and an unknown `whence` raise ValueError and nothing moves; otherwise the logical target
(`off`, `tell() + off`, `raw size − (nonce_offset + 8) + off`) is clamped at 0, the seek never raises, returns the raw
offset `max(target, 0) + nonce_offset + 8`, changes nothing but the cursor, and `tell()` then reports `max(target, 0)`
— never a negative position, whatever the kind of the underlying file. -/
theorem seek_exact (x : XorFile) (off : Int) (wh : Nat) :
    (wh = 0 → off < 0 → seek x off wh = .error .valueError) ∧
    (2 < wh → seek x off wh = .error .valueError) ∧
    (wh ≤ 2 → ¬ (wh = 0 ∧ off < 0) →
      ∃ v : Nat, (v : Int) = max (viewTarget x off wh) 0 + ((x.nonceOff : Int) + 8) ∧
        seek x off wh = .ok (v, x.withPos v) ∧ tell (x.withPos v) = max (viewTarget x off wh) 0) := by
  refine ⟨?_, seek_bad_whence x off wh, ?_⟩
  · rintro rfl h; exact seek_set_neg x off h
  · intro hwh hne
    have htell : ∀ v : Nat, (v : Int) = max (viewTarget x off wh) 0 + ((x.nonceOff : Int) + 8) →
        tell (x.withPos v) = max (viewTarget x off wh) 0 := by
      intro v hv; simp only [tell, PyFile.tell, XorFile.withPos]; omega
    match wh, hwh, hne with
    | 0, _, hne =>
      have h0 : 0 ≤ off := by
        apply Classical.byContradiction; intro h; exact hne ⟨rfl, by omega⟩
      refine ⟨(off + (x.nonceOff : Int) + 8).toNat, ?_, seek_set_eq x off _ h0 (by omega), htell _ ?_⟩ <;>
        simp only [viewTarget] <;> omega
    | 1, _, _ =>
      refine ⟨(max (tell x + off) 0 + (x.nonceOff : Int) + 8).toNat, ?_, seek_cur_eq x off _ (by omega), htell _ ?_⟩ <;>
        simp only [viewTarget] <;> omega
    | 2, _, _ =>
      refine ⟨(max ((x.fh.data.length : Int) - ((x.nonceOff : Int) + 8) + off) 0 + (x.nonceOff : Int) + 8).toNat, ?_,
        seek_end_eq x off _ (by omega), htell _ ?_⟩ <;> simp only [viewTarget] <;> omega

/-- The refinement statement without any hypothesis on the seeks, for a history runner `runF`: for EVERY history —
seeks with any integer offset and any `whence`, reads with any `n`, `tell` — from every logical position `p ≥ 0`,
the view (over a BytesIO or an OS file) does exactly what `io.BytesIO` over the decoded bytes does: the same
exception at the same operation, or the same outputs (`seek` returning the raw offset, i.e. the logical one shifted by
`nonce_offset + 8`) and the abstracting final state. -/
def HistoryRefinesAllSeeks (runF : XorFile → List Op → Py (List Out × XorFile)) : Prop :=
  ∀ (stub nonce size enc : Bytes) (x : XorFile), Layout stub nonce size enc x →
    ∀ (p : Nat), x.fh.pos = stub.length + 8 + p → ∀ (ops : List Op),
      match plainRun { data := rollDecode nonce enc, pos := p, kind := .bytesIO } ops with
      | .ok (outs, pf') =>
        runF x ops = .ok (outs.map (Out.shift (stub.length + 8)), x.withPos (stub.length + 8 + pf'.pos))
      | .error e => runF x ops = .error e

/-- **Full refinement** (current code): holds for every history and both kinds of underlying file. -/
theorem history_refines_all_seeks : HistoryRefinesAllSeeks run := by
  intro stub nonce size enc x hL p hpos ops
  have hA : Abs stub nonce size enc x { data := rollDecode nonce enc, pos := p, kind := .bytesIO } := ⟨hL, rfl, hpos⟩
  have h := run_refines_all ops hA rfl
  cases hp : plainRun { data := rollDecode nonce enc, pos := p, kind := .bytesIO } ops with
  | error e => rw [hp] at h; exact h
  | ok r =>
    obtain ⟨outs, pf'⟩ := r
    rw [hp] at h
    exact h.1

/-- The same for the trace the driver prints and the correspondence runs compare (`runTrace`: the history continues
after a raising operation, which leaves both objects where they were): operation by operation, the view's output is
the `io.BytesIO`'s output (seek values shifted), exceptions included. -/
theorem trace_refines_all_seeks {stub nonce size enc : Bytes} {x : XorFile} (hL : Layout stub nonce size enc x)
    (p : Nat) (hpos : x.fh.pos = stub.length + 8 + p) (ops : List Op) :
    runTrace x ops =
      (plainTrace { data := rollDecode nonce enc, pos := p, kind := .bytesIO } ops).map (shiftOut (stub.length + 8)) :=
  trace_refines_all ops ⟨hL, rfl, hpos⟩ rfl

/-- from the constructor call on the raw file (BytesIO or OS file) -/
theorem history_refines_all_seeks_from_open (stub nonce size enc : Bytes) (hn : nonce.length = 4) (hs : size.length = 4)
    (f : PyFile) (hd : f.data = stub ++ nonce ++ size ++ enc) (ops : List Op) :
    ∃ x, mk' f stub.length = .ok x ∧
      runTrace x ops =
        (plainTrace { data := rollDecode nonce enc, pos := 0, kind := .bytesIO } ops).map (shiftOut (stub.length + 8)) := by
  obtain ⟨x, hx, hL, hpos, _, _⟩ := open_layout stub nonce size enc hn hs f hd
  exact ⟨x, hx, trace_refines_all_seeks hL 0 hpos ops⟩

/-! #### the code before fix 13416c7 (`seekOld`): what it did, and why the full statement failed -/

/-- BEFORE fix 13416c7 (`seekOld`).  `seek(off, whence)` of the view, exactly, for every state and every argument: the raw target was
`off + nonce_offset + 8` (SET), `raw position + off` (CUR), `raw size + off` (END).  A non-negative raw target is taken
— whatever its logical value `raw target − (nonce_offset + 8)`, which `tell()` then reports, also when negative; a
negative raw target behaves as on the underlying file: SET raises ValueError (BytesIO) / OSError (OS file), CUR/END
clamp to raw 0 on BytesIO and raise OSError on an OS file.  A raising seek leaves the object unchanged. -/
theorem seek_exact_old (x : XorFile) (off : Int) (wh : Nat) :
    (wh ≤ 2 → seekOld x off wh =
      if 0 ≤ rawTarget x off wh then .ok ((rawTarget x off wh).toNat, x.withPos (rawTarget x off wh).toNat)
      else belowStart x wh) ∧
    (2 < wh → seekOld x off wh = .error .valueError) ∧
    (0 ≤ rawTarget x off wh →
      tell (x.withPos (rawTarget x off wh).toNat) = rawTarget x off wh - ((x.nonceOff : Int) + 8)) := by
  refine ⟨seekOld_exact x off wh, seekOld_bad_whence x off wh, ?_⟩
  intro h
  simp only [tell, PyFile.tell, XorFile.withPos]
  omega

/-- BEFORE fix 13416c7.  A seek whose logical target `t` is negative, compared with the plain file `pf` over the decoded bytes (same file
kind).  The plain file raises (SET: ValueError / OSError; CUR, END on an OS file: OSError) or clamps to 0 (CUR, END on
BytesIO).  The old view did the same only when the RAW target `t + nonce_offset + 8` is negative; otherwise the seek
succeeds and the view stands inside the stub / nonce / size dword, `tell()` reporting the negative value `t`. -/
theorem negative_seek_exact_old {stub nonce size enc : Bytes} {x : XorFile} {pf : PyFile}
    (hA : Abs stub nonce size enc x pf) (off : Int) (wh : Nat) (hwh : wh ≤ 2)
    (ht : logicalTarget pf off wh < 0) :
    plainStep pf (.seek off wh) = plainBelowStart pf wh ∧
    (logicalTarget pf off wh + ((stub.length : Int) + 8) < 0 →
      stepOpOld x (.seek off wh) = (belowStart x wh).map fun r => (.seek r.1, r.2)) ∧
    (0 ≤ logicalTarget pf off wh + ((stub.length : Int) + 8) →
      ∃ q : Nat, (q : Int) = logicalTarget pf off wh + ((stub.length : Int) + 8) ∧
        stepOpOld x (.seek off wh) = .ok (.seek q, x.withPos q) ∧ tell (x.withPos q) = logicalTarget pf off wh) := by
  have hraw := rawTarget_abs hA off wh
  refine ⟨plainStep_negative pf off wh hwh ht, ?_, ?_⟩
  · intro h
    simp only [stepOpOld]
    rw [(seek_exact_old x off wh).1 hwh, if_neg (by omega)]
  · intro h
    refine ⟨(rawTarget x off wh).toNat, by omega, ?_, ?_⟩
    · simp only [stepOpOld]
      rw [(seek_exact_old x off wh).1 hwh, if_pos (by omega)]
      rfl
    · rw [(seek_exact_old x off wh).2.2 (by omega), hA.layout.off]; omega

/-- BEFORE fix 13416c7.  Hence: on a seek with a negative logical target the old view and the plain file agree exactly when the raw target is
negative too and the underlying file raises (SET, or any whence on an OS file) — both then raise the same exception
and stay where they were.  In every other case the view's seek SUCCEEDS and leaves a negative logical position. -/
theorem negative_seek_agrees_iff_old {stub nonce size enc : Bytes} {x : XorFile} {pf : PyFile}
    (hA : Abs stub nonce size enc x pf) (hk : pf.kind = x.fh.kind) (off : Int) (wh : Nat) (hwh : wh ≤ 2)
    (ht : logicalTarget pf off wh < 0) :
    ((∃ e, plainStep pf (.seek off wh) = .error e ∧ stepOpOld x (.seek off wh) = .error e) ↔
      (logicalTarget pf off wh + ((stub.length : Int) + 8) < 0 ∧ (wh = 0 ∨ x.fh.kind = .osFile))) ∧
    (¬ (logicalTarget pf off wh + ((stub.length : Int) + 8) < 0 ∧ (wh = 0 ∨ x.fh.kind = .osFile)) →
      ∃ v x', stepOpOld x (.seek off wh) = .ok (.seek v, x') ∧ tell x' < 0) := by
  obtain ⟨hp, hlo, hhi⟩ := negative_seek_exact_old hA off wh hwh ht
  have hoff := hA.layout.off
  by_cases hneg : logicalTarget pf off wh + ((stub.length : Int) + 8) < 0
  · have hv := hlo hneg
    by_cases hw0 : wh = 0
    · subst hw0
      have e1 : plainStep pf (.seek off 0) = .error x.fh.negSeekExc := by
        rw [hp]; simp only [plainBelowStart, if_true, PyFile.negSeekExc, hk]
      have e2 : stepOpOld x (.seek off 0) = .error x.fh.negSeekExc := by
        rw [hv]; simp only [belowStart, if_true]; rfl
      refine ⟨⟨fun _ => ⟨hneg, Or.inl rfl⟩, fun _ => ⟨_, e1, e2⟩⟩, fun h => absurd ⟨hneg, Or.inl rfl⟩ h⟩
    · cases hkind : x.fh.kind with
      | osFile =>
        have e1 : plainStep pf (.seek off wh) = .error .osError := by
          rw [hp]; simp only [plainBelowStart, if_neg hw0, hk, hkind]
        have e2 : stepOpOld x (.seek off wh) = .error .osError := by
          rw [hv]; simp only [belowStart, if_neg hw0, hkind]; rfl
        refine ⟨⟨fun _ => ⟨hneg, Or.inr rfl⟩, fun _ => ⟨_, e1, e2⟩⟩, fun h => absurd ⟨hneg, Or.inr rfl⟩ h⟩
      | bytesIO =>
        have e2 : stepOpOld x (.seek off wh) = .ok (.seek 0, x.withPos 0) := by
          rw [hv]; simp only [belowStart, if_neg hw0, hkind]; rfl
        refine ⟨⟨?_, ?_⟩, fun _ => ⟨0, _, e2, ?_⟩⟩
        · rintro ⟨e, _, h2⟩
          rw [e2] at h2; cases h2
        · rintro ⟨_, h | h⟩
          · exact absurd h hw0
          · cases h
        · simp only [tell, PyFile.tell, XorFile.withPos]; omega
  · obtain ⟨q, hq, hs, htell⟩ := hhi (by omega)
    refine ⟨⟨?_, fun h => absurd h.1 hneg⟩, fun _ => ⟨q, _, hs, by rw [htell]; exact ht⟩⟩
    rintro ⟨e, _, h2⟩
    rw [hs] at h2; cases h2

/-! ### the hypotheses are satisfiable / concrete instances -/

def exFile : PyFile := { data := [0x90, 0xff, 0xff, 0xff] ++ [1, 2, 3, 4] ++ [9, 9, 9, 9] ++ [0x11, 0x22, 0x33, 0x44, 0x55, 0x66] }
def exView : XorFile :=
  { fh := { exFile with pos := 12 }, nonceOff := 4, initialNonce := [1, 2, 3, 4], noncedSize := [9, 9, 9, 9] }

example : mk' exFile 4 = .ok exView := by rfl
example : Layout [0x90, 0xff, 0xff, 0xff] [1, 2, 3, 4] [9, 9, 9, 9] [0x11, 0x22, 0x33, 0x44, 0x55, 0x66] exView :=
  ⟨rfl, rfl, rfl, rfl, rfl⟩
example : rollDecode [1, 2, 3, 4] [0x11, 0x22, 0x33, 0x44, 0x55, 0x66] = [0x10, 0x20, 0x30, 0x40, 0x44, 0x44] := by decide
example : rollEncode [1, 2, 3, 4] [0x10, 0x20, 0x30, 0x40, 0x44, 0x44] = [0x11, 0x22, 0x33, 0x44, 0x55, 0x66] := by decide
/-- a concrete history (unaligned reads, all three `whence` values, read past EOF, a seek beyond the end, negative
and None counts) meets the decidable hypothesis of `history_refines` -/
example : seeksNonneg 6 0
    [.read (some 3), .tell, .read (some 2), .seek (-1) 1, .read none, .seek (-5) 2, .read (some (-7)), .seek 6 0,
     .read (some 9), .tell, .seek 3 2, .read (some 2), .tell, .seek 0 0, .read (some 0)] = true := by decide
example : seeksNonneg 6 0 [.seek 7 0] = true := by decide
example : seeksNonneg 6 0 [.seek (-1) 1] = false := by decide
example : seeksNonneg 6 0 [.seek (-7) 2] = false := by decide
example : plainRun { data := [0x10, 0x20, 0x30, 0x40, 0x44, 0x44] } [.read (some 3), .tell, .read (some 2), .seek (-1) 1, .read none]
    = .ok ([.bytes [0x10, 0x20, 0x30], .pos 3, .bytes [0x40, 0x44], .seek 4, .bytes [0x44, 0x44]],
           { data := [0x10, 0x20, 0x30, 0x40, 0x44, 0x44], pos := 6 }) := by rfl
example : counter [7, 500, 3, 500] = [(7, 1), (500, 2), (3, 1)] := by decide
example : candidates [4, 497] [500, 3] = [500, 7, 3] := by decide
example : NoSpuriousCandidate [500, 7, 3] (fun c => c == 500 || c == 7) 500 := ⟨[], [7, 3], rfl, by simp⟩
example : u32 (C20.xor [1, 2, 3, 4] [7, 2, 3, 4]) = 6 := by decide
/-- a minimal plaintext that satisfies `PeHeaderAt0`: e_lfanew = 64, Machine = 0x8664 at offset 68 -/
example : PeHeaderAt0 (List.replicate 60 0 ++ [64, 0, 0, 0] ++ [0x50, 0x45, 0, 0] ++ [0x64, 0x86] ++ List.replicate 18 0) 1024 64 :=
  ⟨by decide, by decide, by decide, by decide, by decide, Or.inl (by decide)⟩

/-- The full statement separates the repaired code from the code before fix 13416c7 (stub of 4 bytes, so logical 0 is
raw 12): `seek(-1)` raises ValueError on `io.BytesIO` over the decoded bytes — and on the current view — but succeeded
on the old view: it returned raw offset 11, `tell()` then reported −1 and the next read started inside the size dword. -/
theorem history_refines_all_seeks_refutes_old : ¬ HistoryRefinesAllSeeks runOld := by
  intro h
  have h1 := h [0x90, 0xff, 0xff, 0xff] [1, 2, 3, 4] [9, 9, 9, 9] [0x11, 0x22, 0x33, 0x44, 0x55, 0x66] exView
    ⟨rfl, rfl, rfl, rfl, rfl⟩ 0 rfl [.seek (-1) 0]
  have hp : plainRun { data := rollDecode [1, 2, 3, 4] [0x11, 0x22, 0x33, 0x44, 0x55, 0x66], pos := 0, kind := .bytesIO }
      [.seek (-1) 0] = .error .valueError := rfl
  rw [hp] at h1
  have hr : runOld exView [.seek (-1) 0] = .ok ([.seek 11], exView.withPos 11) := rfl
  rw [hr] at h1
  cases h1

example : runOld exView [.seek (-1) 0, .tell, .seek (-13) 1, .tell] =
    .ok ([.seek 11, .pos (-1), .seek 0, .pos (-12)], exView.withPos 0) := by rfl
example : runTrace exView [.seek (-1) 0, .tell, .seek (-13) 1, .tell, .seek (-100) 2, .seek 0 7] =
    [.error .valueError, .ok (.pos 0), .ok (.seek 12), .ok (.pos 0), .ok (.seek 12), .error .valueError] := by rfl

/-! a complete stage that meets the byte-level hypotheses of `detect_correct_real_clean` (buffer size 7, OS file) -/
def exPlain : Bytes := List.replicate 60 0 ++ [64, 0, 0, 0] ++ [0x50, 0x45, 0, 0] ++ [0x64, 0x86] ++ List.replicate 17 0 ++ [1]
def exStub : Bytes := [0x90, 0xff, 0xff, 0xff]
def exNonce : Bytes := [1, 2, 3, 4]
def exSize : Bytes := [89, 2, 3, 4]
def exStage : PyFile := { data := exStub ++ exNonce ++ exSize ++ rollEncode exNonce exPlain, kind := .osFile }

example : ∃ x, fromFileReal 7 exStage 1024 = .ok x ∧ Layout exStub exNonce exSize (rollEncode exNonce exPlain) x ∧
    x.fh.pos = exStub.length + 8 + 0 ∧ tell x = 0 := by
  apply detect_correct_real_clean 7 (by omega) exStub exNonce exSize (rollEncode exNonce exPlain) rfl rfl exStage rfl 1024
    (by omega) (Or.inl ⟨[0x90], rfl, by decide⟩) 64
  · rw [rollDecode_rollEncode _ _ rfl]
    exact ⟨by decide, by decide, by decide, by decide, by decide, Or.inl (by decide)⟩
  · decide +kernel
  · decide +kernel

end C09

import CsVerif.Lemmas.C09
/-! C09 property theorems: the XorEncoded file view refines a read-only file over the decoded bytes;
candidate detection.  Vocabulary (`Layout`, `Abs`, `plainRead`, `XorFile.withPos`) is in `Lemmas/C09.lean`,
the model and the specification (`rollDecode`, `plainRun`, `seeksNonneg`) in `Model/C09.lean`. -/
namespace C09

/-! ### the specification is the inverse of the encoder -/

/-- element-wise reading of the specification -/
theorem rollDecode_getElem (nonce enc : Bytes) (i : Nat) (h : i < enc.length) :
    (rollDecode nonce enc)[i]'(by rw [rollDecode_length]; exact h)
      = enc[i] ^^^ (if i < 4 then nonce.getD i 0 else enc.getD (i - 4) 0) := by
  simp [rollDecode]

/-- decoding what the rolling encoder produced gives the plaintext back (any length) -/
theorem rollDecode_rollEncode (nonce plain : Bytes) (h : nonce.length = 4) :
    rollDecode nonce (rollEncode nonce plain) = plain := by
  rw [rollDecode_eq_zipWith _ _ h]
  exact zipWith_rollEncodeAux plain nonce (by intro h0; rw [h0] at h; cases h)

/-! ### opening the view -/

/-- `XorEncodedFile(fh, len(stub))` on `stub ++ nonce ++ size ++ enc` records nonce and size and stands at
logical position 0, wherever the underlying cursor was before. -/
theorem open_layout (stub nonce size enc : Bytes) (hn : nonce.length = 4) (hs : size.length = 4)
    (f : PyFile) (hd : f.data = stub ++ nonce ++ size ++ enc) :
    ∃ x, mk' f stub.length = .ok x ∧ Layout stub nonce size enc x ∧ x.fh.pos = stub.length + 8 + 0 ∧
      x.noncedSize = size ∧ tell x = 0 := by
  refine ⟨_, mk'_spec stub nonce size enc hn hs f hd, ⟨hd, hn, hs, rfl, rfl⟩, rfl, rfl, ?_⟩
  simp only [tell, PyFile.tell]; omega

/-! ### `read_nonce` -/

/-- At every logical position `p` (any alignment) the rolling key is `(nonce ++ enc)[p : p+4]`: for `p < 4` the
tail of the initial nonce followed by the first `p` encoded bytes (the size dword is skipped), afterwards the four
encoded bytes before the cursor.  The cursor is left where it was. -/
theorem readNonce_correct {stub nonce size enc : Bytes} {x : XorFile} (hL : Layout stub nonce size enc x)
    (p : Nat) (hpos : x.fh.pos = stub.length + 8 + p) (hp : p ≤ enc.length) :
    readNonce x = .ok (((nonce ++ enc).drop p).take 4, x) ∧
    (p < 4 → ((nonce ++ enc).drop p).take 4 = nonce.drop p ++ enc.take p) ∧
    (4 ≤ p → ((nonce ++ enc).drop p).take 4 = (enc.drop (p - 4)).take 4) := by
  refine ⟨readNonce_eq hL p hpos hp, ?_, ?_⟩
  · intro hp4
    have hn := hL.nlen
    rw [List.drop_append_of_le_length (by omega), List.take_append]
    have : (nonce.drop p).length = 4 - p := by simp [hn]
    rw [this, List.take_of_length_le (by simp [hn])]
    have : 4 - (4 - p) = p := by omega
    rw [this]
  · intro hp4
    have := drop_prefix nonce enc 4 (p - 4) hL.nlen
    have h2 : 4 + (p - 4) = p := by omega
    rw [h2] at this
    rw [this]

/-! ### `read` -/

/-- From every logical position `p ≥ 0` (also beyond the end), for every `n` (None, negative, 0, positive, beyond
EOF) `read(n)` returns exactly the plaintext slice an ordinary file would return, the reported position advances
by exactly the number of bytes returned, and nothing else about the object changes. -/
theorem read_refines {stub nonce size enc : Bytes} {x : XorFile} (hL : Layout stub nonce size enc x)
    (p : Nat) (hpos : x.fh.pos = stub.length + 8 + p) (n : Option Int) :
    ∃ out x',
      read x n = .ok (out, x') ∧
      out = (match n with
        | none => (rollDecode nonce enc).drop p
        | some v => if v < 0 then (rollDecode nonce enc).drop p else ((rollDecode nonce enc).drop p).take v.toNat) ∧
      out = (({ data := rollDecode nonce enc, pos := p } : PyFile).read (n.getD (-1))).1 ∧
      tell x' = (p : Int) + (out.length : Int) ∧
      x' = x.withPos (stub.length + 8 + p + out.length) ∧
      Layout stub nonce size enc x' := by
  refine ⟨_, _, read_spec hL p hpos n, ?_, rfl, ?_, rfl, layout_withPos hL _⟩
  · rw [plainRead_eq]
    cases n with
    | none => rfl
    | some v =>
      simp only [normN]
      by_cases hv : v < 0
      · simp [hv]
      · have : ¬ v = -1 := by omega
        simp [hv, this]
  · simp only [tell, PyFile.tell, XorFile.withPos, hL.off]
    omega

/-! ### histories -/

/-- Refinement (full strength): for every history of `seek` (SET/CUR/END), `read(n)` (all `n`) and `tell` whose
seeks land at logical positions `≥ 0` — including beyond the end — the view produces exactly the outputs of an
ordinary file (BytesIO or OS file, `k`) over the decoded bytes — `seek` returning the raw offset, i.e. the logical one
shifted by `nonce_offset + 8` — and ends in the state that abstracts to the plain file's state. -/
theorem history_refines {stub nonce size enc : Bytes} {x : XorFile} (hL : Layout stub nonce size enc x)
    (p : Nat) (hpos : x.fh.pos = stub.length + 8 + p)
    (k : FileKind) (ops : List Op) (hops : seeksNonneg enc.length p ops = true) :
    ∃ outs pf',
      plainRun { data := rollDecode nonce enc, pos := p, kind := k } ops = .ok (outs, pf') ∧
      run x ops = .ok (outs.map (Out.shift (stub.length + 8)), x.withPos (stub.length + 8 + pf'.pos)) ∧
      pf'.data = rollDecode nonce enc := by
  have hA : Abs stub nonce size enc x { data := rollDecode nonce enc, pos := p, kind := k } := ⟨hL, rfl, hpos⟩
  obtain ⟨outs, pf', h1, h2, hA'⟩ := run_refines ops hA hops
  exact ⟨outs, pf', h1, h2, hA'.data⟩

/-- the same, starting from the constructor call on the raw file -/
theorem history_refines_from_open (stub nonce size enc : Bytes) (hn : nonce.length = 4) (hs : size.length = 4)
    (f : PyFile) (hd : f.data = stub ++ nonce ++ size ++ enc)
    (ops : List Op) (hops : seeksNonneg enc.length 0 ops = true) :
    ∃ x outs pf' x',
      mk' f stub.length = .ok x ∧
      plainRun { data := rollDecode nonce enc, pos := 0, kind := f.kind } ops = .ok (outs, pf') ∧
      run x ops = .ok (outs.map (Out.shift (stub.length + 8)), x') ∧
      tell x' = (pf'.pos : Int) := by
  obtain ⟨x, hx, hL, hpos, _, _⟩ := open_layout stub nonce size enc hn hs f hd
  obtain ⟨outs, pf', h1, h2, _⟩ := history_refines hL 0 hpos f.kind ops hops
  refine ⟨x, outs, pf', _, hx, h1, h2, ?_⟩
  simp only [tell, PyFile.tell, XorFile.withPos, hL.off]
  omega

/-- the trace printed by the driver (`runTrace`, which continues after an exception) is the output list of `run`
whenever `run` succeeds, so the correspondence runs exercise exactly the function the theorems are about -/
theorem runTrace_of_run (ops : List Op) : ∀ (x : XorFile) (outs : List Out) (x' : XorFile),
    run x ops = .ok (outs, x') → runTrace x ops = outs.map .ok := by
  induction ops with
  | nil =>
    intro x outs x' h
    simp only [run] at h
    injection h with h
    rw [← (Prod.mk.inj h).1]; rfl
  | cons op ops ih =>
    intro x outs x' h
    simp only [run] at h
    cases hs : stepOp x op with
    | error e => rw [hs] at h; cases h
    | ok r =>
      obtain ⟨o, x1⟩ := r
      rw [hs] at h
      simp only at h
      cases hr : run x1 ops with
      | error e => rw [hr] at h; cases h
      | ok r2 =>
        obtain ⟨os, x2⟩ := r2
        rw [hr] at h
        simp only at h
        injection h with h
        rw [← (Prod.mk.inj h).1]
        simp only [runTrace, hs, List.map_cons, ih x1 os x2 hr]

def eofWitness : XorFile :=
  { fh := { data := [1, 2, 3, 4, 0, 0, 0, 0], pos := 9 }, nonceOff := 0,
    initialNonce := [1, 2, 3, 4], noncedSize := [0, 0, 0, 0] }

/-- The theorem separates the repaired code from the code before fix f64b15d: with the old `read_nonce` (no
`self.fh.seek(pos)`), at logical position 1 of an empty payload `read(1)` returns `b""` but leaves the raw cursor at
the end of the data, so `tell()` reports 0 instead of 1 — whereas `read_refines` gives 1 for the current code. -/
theorem history_refines_refutes_old :
    Layout [] [1, 2, 3, 4] [0, 0, 0, 0] [] eofWitness ∧ eofWitness.fh.pos = 0 + 8 + 1 ∧
    (∃ x', readWith readNonceOld eofWitness (some 1) = .ok ([], x') ∧ tell x' = 0) ∧
    (∃ x', read eofWitness (some 1) = .ok ([], x') ∧ tell x' = 1) := by
  have hL : Layout [] [1, 2, 3, 4] [0, 0, 0, 0] [] eofWitness := ⟨rfl, rfl, rfl, rfl, rfl⟩
  refine ⟨hL, rfl, ?_, ?_⟩
  · refine ⟨eofWitness.withPos 8, ?_, by decide⟩
    have hn : readNonceOld eofWitness = .ok ([2, 3, 4], eofWitness.withPos 8) := by rfl
    have hl : readLoop 1 (eofWitness.withPos 8).fh [2, 3, 4] 0 = ([], (eofWitness.withPos 8).fh) :=
      readLoop_at_eof _ _ _ _ (by decide)
    have h1 : normN (some 1) = 1 := by decide
    rw [readWith_unfold, h1, hn]
    dsimp only
    rw [hl]
    rfl
  · have h := read_spec hL 1 rfl (some 1)
    have hp : plainRead (rollDecode [1, 2, 3, 4] []) 1 (some 1) = [] := by decide
    rw [hp] at h
    exact ⟨_, h, by decide⟩

/-! ### detection -/

/-- If the size relation holds at the true nonce offset (`u32(nonce ^ size) + len(stub) + 8 == file size`) and the
stub is shorter than `maxrange`, `iter_nonce_offsets` yields that offset, hence it is among the candidates
`from_file` tries (whatever the needle scan found). -/
theorem true_offset_is_candidate (stub nonce size rest : Bytes) (hn : nonce.length = 4) (hs : size.length = 4)
    (f : PyFile) (hd : f.data = stub ++ nonce ++ size ++ rest)
    (hsize : u32 (C20.xor nonce size) + (stub.length : Int) + 8 = (f.data.length : Int))
    (maxrange : Nat) (hlt : stub.length < maxrange) (markerHits : List Nat) :
    ∃ l f', iterNonceOffsets f none maxrange = .ok (l, f') ∧ stub.length ∈ l ∧
      stub.length ∈ candidates markerHits l := by
  simp only [iterNonceOffsets, PyFile.seekEnd]
  rw [seekRel_ok f f.data.length 0 f.data.length (by omega)]
  simp only [PyFile.tell]
  obtain ⟨l, f', h, hm⟩ := nonceLoop_finds (f.data.length : Int) stub nonce size rest hn hs hsize maxrange 0
    { f with pos := f.data.length } hd (Nat.zero_le _) (by omega)
  exact ⟨l, f', h, hm, (mem_candidates _ _ _).mpr (Or.inr hm)⟩

/-- the candidates are exactly the marker hits `+ 3` and the offsets found through the size relation -/
theorem candidates_mem (markerHits nonceOffs : List Nat) (c : Nat) :
    c ∈ candidates markerHits nonceOffs ↔ (∃ h ∈ markerHits, c = h + 3) ∨ c ∈ nonceOffs := by
  rw [mem_candidates]
  simp only [List.mem_map]
  constructor
  · rintro (⟨h, hh, rfl⟩ | h)
    · exact Or.inl ⟨h, hh, rfl⟩
    · exact Or.inr h
  · rintro (⟨h, hh, rfl⟩ | h)
    · exact Or.inl ⟨h, hh, rfl⟩
    · exact Or.inr h

/-- Order in which they are tried = `Counter(...).most_common()`: a permutation of the distinct keys in
first-insertion order, sorted by count descending, ties kept in first-insertion order (stable). -/
theorem mostCommon_order (c : List (Nat × Nat)) :
    (mostCommon c).Perm c ∧ (mostCommon c).Pairwise (fun a b => a.2 ≥ b.2) ∧
    ∀ n, (mostCommon c).filter (·.2 == n) = c.filter (·.2 == n) :=
  ⟨mostCommon_perm c, mostCommon_sorted c, mostCommon_stable c⟩

/-- no candidate passes the MZ check ⇒ `from_file` raises ValueError -/
theorem detect_rejects (f : PyFile) (maxrange : Nat) (markerHits : List Nat) (mzOk : Nat → Bool)
    (l : List Nat) (f1 : PyFile) (hl : iterNonceOffsets f none maxrange = .ok (l, f1))
    (h : ∀ c ∈ candidates markerHits l, mzOk c = false) :
    fromFile f maxrange markerHits mzOk = .error .valueError := by
  simp only [fromFile, hl]
  exact tryCandidates_reject mzOk _ f1 h

/-- in particular when there is no candidate at all -/
theorem detect_rejects_no_candidate (f : PyFile) (maxrange : Nat) (mzOk : Nat → Bool)
    (f1 : PyFile) (hl : iterNonceOffsets f none maxrange = .ok ([], f1)) :
    fromFile f maxrange [] mzOk = .error .valueError :=
  detect_rejects f maxrange [] mzOk [] f1 hl (by intro c hc; simp [candidates, counter, mostCommon] at hc)

/-- the result is the view at the first candidate, in Counter order, that passes the MZ check, positioned at
logical offset 0 -/
theorem detect_first_passing (f : PyFile) (maxrange : Nat) (markerHits : List Nat) (mzOk : Nat → Bool)
    (l : List Nat) (f1 : PyFile) (hl : iterNonceOffsets f none maxrange = .ok (l, f1))
    (pre : List Nat) (c : Nat) (post : List Nat) (hc : candidates markerHits l = pre ++ c :: post)
    (hpre : ∀ d ∈ pre, mzOk d = false) (hok : mzOk c = true) :
    ∃ x0, mk' f c = .ok x0 ∧ fromFile f maxrange markerHits mzOk = .ok (x0.withPos (c + 8)) ∧
      (x0.withPos (c + 8)).nonceOff = c ∧ tell (x0.withPos (c + 8)) = 0 := by
  obtain ⟨l', f1', hl', hd1, hk1⟩ := iterNonceOffsets_ok f maxrange
  rw [hl] at hl'
  injection hl' with hl'
  obtain ⟨rfl, rfl⟩ := Prod.mk.inj hl'
  obtain ⟨x0, hx0, hn0, _, _⟩ := mk'_ok f c
  refine ⟨x0, hx0, ?_, hn0, ?_⟩
  · simp only [fromFile, hl, hc]
    exact tryCandidates_first mzOk f pre c post x0 hx0 hok f1 hd1 hk1 hpre
  · simp only [tell, PyFile.tell, XorFile.withPos, hn0]; omega

/-- `from_file` succeeds iff some candidate passes -/
theorem detect_ok_iff (f : PyFile) (maxrange : Nat) (markerHits : List Nat) (mzOk : Nat → Bool)
    (l : List Nat) (f1 : PyFile) (hl : iterNonceOffsets f none maxrange = .ok (l, f1)) :
    (∃ x, fromFile f maxrange markerHits mzOk = .ok x) ↔ ∃ c ∈ candidates markerHits l, mzOk c = true := by
  constructor
  · rintro ⟨x, hx⟩
    apply Classical.byContradiction
    intro hno
    have : ∀ c ∈ candidates markerHits l, mzOk c = false := by
      intro c hc
      cases hm : mzOk c with
      | false => rfl
      | true => exact absurd ⟨c, hc, hm⟩ hno
    rw [detect_rejects f maxrange markerHits mzOk l f1 hl this] at hx
    cases hx
  · rintro ⟨c, hc, hm⟩
    obtain ⟨pre, d, post, hsplit, hpre, hd⟩ := first_passing_split mzOk (candidates markerHits l) ⟨c, hc, hm⟩
    obtain ⟨x0, _, h, _⟩ := detect_first_passing f maxrange markerHits mzOk l f1 hl pre d post hsplit hpre hd
    exact ⟨_, h⟩

/-- Hypothesis of `detect_correct_partial`: no candidate ranked before the true offset passes the MZ check. -/
def NoSpuriousCandidate (cands : List Nat) (mzOk : Nat → Bool) (trueOff : Nat) : Prop :=
  ∃ pre post, cands = pre ++ trueOff :: post ∧ ∀ d ∈ pre, mzOk d = false

/-- Detection of a well-formed stage: when the true offset is a candidate, passes the MZ check and no higher-ranked
candidate does, `from_file` returns the view at the true offset; that view satisfies `Layout`, stands at logical
position 0, and therefore (by `history_refines`) behaves as a read-only file over the decoded bytes. -/
theorem detect_correct_partial (stub nonce size enc : Bytes) (hn : nonce.length = 4) (hs : size.length = 4)
    (f : PyFile) (hd : f.data = stub ++ nonce ++ size ++ enc)
    (maxrange : Nat) (markerHits : List Nat) (mzOk : Nat → Bool)
    (l : List Nat) (f1 : PyFile) (hl : iterNonceOffsets f none maxrange = .ok (l, f1))
    (hns : NoSpuriousCandidate (candidates markerHits l) mzOk stub.length) (hok : mzOk stub.length = true) :
    ∃ x, fromFile f maxrange markerHits mzOk = .ok x ∧ Layout stub nonce size enc x ∧
      x.fh.pos = stub.length + 8 + 0 ∧ tell x = 0 := by
  obtain ⟨pre, post, hsplit, hpre⟩ := hns
  obtain ⟨x0, hx0, h, _, ht⟩ := detect_first_passing f maxrange markerHits mzOk l f1 hl pre stub.length post hsplit hpre hok
  rw [mk'_spec stub nonce size enc hn hs f hd] at hx0
  injection hx0 with hx0
  subst hx0
  exact ⟨_, h, ⟨hd, hn, hs, rfl, rfl⟩, rfl, ht⟩

/-! ### totality, and detection with the modelled `find_mz_offset` -/

/-- `read(n)` never raises and changes nothing but the raw cursor, in every state of the object (also with a
wrong nonce offset or the cursor outside the payload). -/
theorem read_never_raises (x : XorFile) (n : Option Int) : ∃ out q, read x n = .ok (out, x.withPos q) :=
  read_total x n

/-- `pe.find_mz_offset` on a view never raises: short struct reads are skipped, every seek is non-negative. -/
theorem find_mz_offset_never_raises (x : XorFile) (start maxrange : Nat) :
    ∃ r q, findMzOffset x start maxrange = .ok (r, x.withPos q) :=
  findMzOffset_total x start maxrange

/-- A view whose decoded content starts with a PE image (64-byte DOS header with `0 < e_lfanew < maxrange`, file
header at `4 + e_lfanew` with Machine AMD64 or I386) passes the MZ check, at offset 0. -/
theorem candidate_passes {stub nonce size enc : Bytes} {x : XorFile} (hL : Layout stub nonce size enc x)
    (maxrange e : Nat) (hpe : PeHeaderAt0 (rollDecode nonce enc) maxrange e) :
    ∃ x', findMzOffset x 0 maxrange = .ok (some 0, x') :=
  findMz_header hL maxrange e hpe

/-- `from_file` with the MZ check modelled equals the parameterised `fromFile` instantiated with the verdicts of
the modelled check, so every `detect_*` theorem applies to it. -/
theorem fromFileFull_refines (f : PyFile) (maxrange : Nat) (markerHits : List Nat) :
    fromFileFull f maxrange markerHits = fromFile f maxrange markerHits (mzVerdict f) :=
  fromFileFull_eq f maxrange markerHits (mzVerdict f) (mzVerdict_spec f)

/-- End-to-end detection of a stage whose plaintext starts with a PE image: if no higher-ranked candidate passes
the (modelled) MZ check, `from_file` returns the decoding view at the true nonce offset, at logical position 0. -/
theorem detect_correct_full_partial (stub nonce size enc : Bytes) (hn : nonce.length = 4) (hs : size.length = 4)
    (f : PyFile) (hd : f.data = stub ++ nonce ++ size ++ enc)
    (maxrange : Nat) (markerHits : List Nat)
    (l : List Nat) (f1 : PyFile) (hl : iterNonceOffsets f none maxrange = .ok (l, f1))
    (e : Nat) (hpe : PeHeaderAt0 (rollDecode nonce enc) 1024 e)
    (hns : NoSpuriousCandidate (candidates markerHits l) (mzVerdict f) stub.length) :
    ∃ x, fromFileFull f maxrange markerHits = .ok x ∧ Layout stub nonce size enc x ∧
      x.fh.pos = stub.length + 8 + 0 ∧ tell x = 0 := by
  rw [fromFileFull_refines]
  apply detect_correct_partial stub nonce size enc hn hs f hd maxrange markerHits (mzVerdict f) l f1 hl hns
  have h0 := mk'_spec stub nonce size enc hn hs f hd
  have hL : Layout stub nonce size enc (⟨{ f with pos := stub.length + 8 }, stub.length, nonce, size⟩ : XorFile) :=
    ⟨hd, hn, hs, rfl, rfl⟩
  obtain ⟨x', hx'⟩ := findMz_header hL 1024 e hpe
  rw [mzVerdict_spec f stub.length _ h0 (some 0) x' hx']
  rfl

/-! ### the hypotheses are satisfiable / concrete instances -/

def exFile : PyFile := { data := [0x90, 0xff, 0xff, 0xff] ++ [1, 2, 3, 4] ++ [9, 9, 9, 9] ++ [0x11, 0x22, 0x33, 0x44, 0x55, 0x66] }
def exView : XorFile :=
  { fh := { exFile with pos := 12 }, nonceOff := 4, initialNonce := [1, 2, 3, 4], noncedSize := [9, 9, 9, 9] }

example : mk' exFile 4 = .ok exView := by rfl
example : Layout [0x90, 0xff, 0xff, 0xff] [1, 2, 3, 4] [9, 9, 9, 9] [0x11, 0x22, 0x33, 0x44, 0x55, 0x66] exView :=
  ⟨rfl, rfl, rfl, rfl, rfl⟩
example : rollDecode [1, 2, 3, 4] [0x11, 0x22, 0x33, 0x44, 0x55, 0x66] = [0x10, 0x20, 0x30, 0x40, 0x44, 0x44] := by decide
example : rollEncode [1, 2, 3, 4] [0x10, 0x20, 0x30, 0x40, 0x44, 0x44] = [0x11, 0x22, 0x33, 0x44, 0x55, 0x66] := by decide
/-- a concrete history (unaligned reads, all three `whence` values, read past EOF, a seek beyond the end, negative
and None counts) meets the decidable hypothesis of `history_refines` -/
example : seeksNonneg 6 0
    [.read (some 3), .tell, .read (some 2), .seek (-1) 1, .read none, .seek (-5) 2, .read (some (-7)), .seek 6 0,
     .read (some 9), .tell, .seek 3 2, .read (some 2), .tell, .seek 0 0, .read (some 0)] = true := by decide
example : seeksNonneg 6 0 [.seek 7 0] = true := by decide
example : seeksNonneg 6 0 [.seek (-1) 1] = false := by decide
example : seeksNonneg 6 0 [.seek (-7) 2] = false := by decide
example : plainRun { data := [0x10, 0x20, 0x30, 0x40, 0x44, 0x44] } [.read (some 3), .tell, .read (some 2), .seek (-1) 1, .read none]
    = .ok ([.bytes [0x10, 0x20, 0x30], .pos 3, .bytes [0x40, 0x44], .seek 4, .bytes [0x44, 0x44]],
           { data := [0x10, 0x20, 0x30, 0x40, 0x44, 0x44], pos := 6 }) := by rfl
example : counter [7, 500, 3, 500] = [(7, 1), (500, 2), (3, 1)] := by decide
example : candidates [4, 497] [500, 3] = [500, 7, 3] := by decide
example : NoSpuriousCandidate [500, 7, 3] (fun c => c == 500 || c == 7) 500 := ⟨[], [7, 3], rfl, by simp⟩
example : u32 (C20.xor [1, 2, 3, 4] [7, 2, 3, 4]) = 6 := by decide
/-- a minimal plaintext that satisfies `PeHeaderAt0`: e_lfanew = 64, Machine = 0x8664 at offset 68 -/
example : PeHeaderAt0 (List.replicate 60 0 ++ [64, 0, 0, 0] ++ [0x50, 0x45, 0, 0] ++ [0x64, 0x86] ++ List.replicate 18 0) 1024 64 :=
  ⟨by decide, by decide, by decide, by decide, by decide, Or.inl (by decide)⟩

end C09

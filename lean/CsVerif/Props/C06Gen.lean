import CsVerif.Gen.PyC2M
import CsVerif.Props.C06
import CsVerif.Lemmas.C06Gen
/-!
C06 — the tie between the source text and the model, by (untyped) translation.

`Gen/PyC2M.lean` is produced on every run by `tools/py2leanu.py` (plug-in `tools/gen/py_c2m.py`) from the *source* of
`c2.decrypt_metadata` and `c2.encrypt_metadata`: every Python value is a `PyU.V`, every Python operation one total function of the
run-time library (`Model/PyU.lean`, `PyU_T02.lean`, `PyU_T07.lean`).  EXTERNAL (parameters of the translated definitions):
`cipher.decrypt(ct, sentinel)` / `cipher.encrypt(msg)` of the object `PKCS1_v1_5.new(key)` returns — instantiated in
`Model/C06Gen.lean` with the `Crypto` record of the model (`decX`, `encX`).  `BeaconMetadata(pt)`, `len(metadata)`,
`metadata.dumps()` and `metadata.size = …` are run-time operations over the GENERATED layout of `struct BeaconMetadata`
(`Gen/C2Struct.lean`); `try … except EOFError` is translated by guarding the one raising operation of its body.

`gen_decrypt_metadata` / `gen_encrypt_metadata` state that the translated definitions compute, for every blob / every metadata
value (integer fields any natural numbers — out of range ones raise `struct.error` —, `aes_rand` and `info` any byte strings), any
key object and any primitives, exactly the encoding of what the hand-written model computes, the raising branches included.  So
every theorem of `Props/C06.lean` about `decryptMetadata` / `encryptMetadata` is a theorem about the function text as it stands now
(the corollaries below restate the central ones), and an edit that changes the meaning of one of the two functions breaks the
proof here.  `encrypt_metadata` changes its argument: the translated definition answers `(blob, metadata afterwards)`; the state of
the caller's object after a call that RAISES is not part of it (covered by the `hist` correspondence stream only).
Helper lemmas: `Lemmas/C06Gen.lean`.
-/
namespace C06Gen
open PyU (V)
open C06

/-- the structure class the translated code reads and writes has the layout the model was written for (generated tables) -/
theorem gen_layout :
    Gen.PyC2M.BeaconMetadataCls.fields =
      ["magic", "size", "aes_rand", "ansi_cp", "oem_cp", "bid", "pid", "port", "flag", "ver_major", "ver_minor", "ver_build",
       "ptr_x64", "ptr_gmh", "ptr_gpa", "ip", "info"] ∧
    Gen.PyC2M.BeaconMetadata.tys =
      [.uint 4, .uint 4, .chars 16, .uint 2, .uint 2, .uint 4, .uint 4, .uint 2, .uint 1, .uint 1, .uint 1, .uint 2, .uint 4,
       .uint 4, .uint 4, .uint 4, .charsExpr "size" 51] ∧
    Gen.PyC2M.BeaconMetadata.offsets = [0, 4, 8, 24, 26, 28, 32, 36, 38, 39, 40, 41, 43, 47, 51, 55, 59] ∧
    Gen.PyC2M.BeaconMetadata.bigEndian = true :=
  ⟨bm_fields, bm_tys, bm_offsets, bm_be⟩

/-- the run-time parse of the structure from `bytes` is the model's reader (every byte string) -/
theorem gen_struct_parse (d : Bytes) :
    PyU.t07StructParse Gen.PyC2M.BeaconMetadata (.bytes d) = (parseMetadata d).map encMeta :=
  parse_enc d

/-- the run-time `dumps()` / `len()` of the structure are the model's writer (every field value) -/
theorem gen_struct_dumps (m : Metadata) :
    PyU.t07Dumps Gen.PyC2M.structs (encMeta m) = encPyS .bytes (dumpsMetadata m) ∧
    PyU.t07Len Gen.PyC2M.structs (encMeta m) = encPyS (fun d => .int d.length) (dumpsMetadata m) := by
  rw [dumps_meta, len_meta]
  by_cases hw : InWidth m
  · simp only [hw, if_true, dumps_ok m hw]; exact ⟨rfl, rfl⟩
  · simp only [hw, if_false, dumps_err m hw]; exact ⟨rfl, rfl⟩

/-- **`decrypt_metadata`**: the definition translated from the source, with `cipher.decrypt` instantiated by the model's `rsaDec`,
equals the encoding of the hand-written model — for every blob, every key object, all primitives; including the propagated
exception of pycryptodome, the sentinel / empty-plaintext ValueError, EOFError → ValueError and the magic check -/
theorem gen_decrypt_metadata (c : Crypto) (key : V) (blob : Bytes) :
    Gen.PyC2M.decrypt_metadata (decX c) (.bytes blob) key = (decryptMetadata c blob).map encMeta :=
  gen_decrypt_metadata_proof c key blob

/-- **`encrypt_metadata`**: the definition translated from the source, with `cipher.encrypt` instantiated by the model's `rsaEnc`,
answers the model's blob together with the caller's object after `metadata.size = len(metadata) - 8` — for every metadata value,
every key object, all primitives and padding bytes; including `struct.error` (from `len()` with the stale size, or from `dumps()`
with the new one) and the ValueError of a too long plaintext -/
theorem gen_encrypt_metadata (c : Crypto) (r : Rand) (key : V) (m : Metadata) :
    Gen.PyC2M.encrypt_metadata (encX c r) (encMeta m) key =
      encPyS (fun p => .tuple [.bytes p.1, encMeta p.2]) (encryptMetadataM c m r) :=
  gen_encrypt_metadata_proof c r key m

/-! ### the property theorems, restated for the translated definitions -/

/-- **Round trip, for the source text.**  For every metadata whose integer fields fit their widths, every 16-byte `aes_rand` and
every info string that fits the modulus: the translated `encrypt_metadata` answers a blob of modulus length and leaves the caller's
object with the consistent size; the translated `decrypt_metadata` maps that blob back to the same object, field for field
(`ValueError` when the caller did not set the 0xBEEF magic). -/
theorem gen_metadata_roundtrip (c : Crypto) (hc : CryptoLaws c) (m : Metadata) (r : Rand) (kpub kpriv : V)
    (hw : InWidth m) (haes : m.aes_rand.length = 16)
    (hfit : 59 + m.info.length ≤ c.modulusBytes - 11) (hsz : 51 + m.info.length < 2 ^ 32) :
    ∃ blob, Gen.PyC2M.encrypt_metadata (encX c r) (encMeta m) kpub
        = .ok (.tuple [.bytes blob, encMeta { m with size := 51 + m.info.length }]) ∧
      blob.length = c.modulusBytes ∧
      Gen.PyC2M.decrypt_metadata (decX c) (.bytes blob) kpriv =
        if m.magic = 0xBEEF then .ok (encMeta { m with size := 51 + m.info.length }) else .error .valueError := by
  obtain ⟨blob, h1, h2, h3⟩ := metadata_roundtrip c hc m r hw haes hfit hsz
  have hs : sized m = .ok { m with size := 51 + m.info.length } := by
    have : (rawDumps m).length - 8 = 51 + m.info.length := by rw [rawDumps_length16 m haes]; omega
    simp only [sized, dumps_ok m hw, this]
  refine ⟨blob, ?_, h2, ?_⟩
  · rw [gen_encrypt_metadata]
    simp only [encryptMetadataM, hs, h1]
    rfl
  · rw [gen_decrypt_metadata, h3]
    split <;> rfl

/-- the source text of `decrypt_metadata` raises nothing but ValueError, for every blob whatsoever -/
theorem gen_decrypt_only_valueError (c : Crypto) (hc : CryptoLaws c) (key : V) (blob : Bytes) (e : PyExc)
    (h : Gen.PyC2M.decrypt_metadata (decX c) (.bytes blob) key = .error e) : e = .valueError := by
  rw [gen_decrypt_metadata] at h
  cases hm : decryptMetadata c blob with
  | ok m => rw [hm] at h; cases h
  | error e' =>
    rw [hm] at h
    have : e' = e := by injection h
    subst this
    exact decrypt_only_valueError c hc blob e' hm

/-- a plaintext that parses but does not start with `00 00 BE EF` is rejected with ValueError by the source text -/
theorem gen_bad_magic_rejected (c : Crypto) (key : V) (blob pt : Bytes) (hd : c.rsaDec blob = .ok (some pt))
    (hlen : 59 ≤ pt.length) (hm : magicField pt ≠ 0xBEEF) :
    Gen.PyC2M.decrypt_metadata (decX c) (.bytes blob) key = .error .valueError := by
  rw [gen_decrypt_metadata, bad_magic_rejected c blob pt hd hlen hm]; rfl

/-- a plaintext shorter than the header, or shorter than its size field promises, is rejected with ValueError by the source text
(the EOFError of the cstruct reader is caught) -/
theorem gen_short_plaintext_rejected (c : Crypto) (key : V) (blob pt : Bytes) (hd : c.rsaDec blob = .ok (some pt))
    (h : pt.length < 59 ∨ pt.length - 59 < sizeField pt - 51) :
    Gen.PyC2M.decrypt_metadata (decX c) (.bytes blob) key = .error .valueError := by
  rw [gen_decrypt_metadata, short_plaintext_rejected c blob pt hd h]; rfl

/-- a blob pycryptodome cannot decrypt (it raised, returned the sentinel, or returned `b""`) is rejected with ValueError -/
theorem gen_undecryptable_rejected (c : Crypto) (hc : CryptoLaws c) (key : V) (blob : Bytes)
    (h : (∃ e, c.rsaDec blob = .error e) ∨ c.rsaDec blob = .ok none ∨ c.rsaDec blob = .ok (some [])) :
    Gen.PyC2M.decrypt_metadata (decX c) (.bytes blob) key = .error .valueError := by
  rw [gen_decrypt_metadata, undecryptable_rejected c hc blob h]; rfl

/-- what the source text of `decrypt_metadata` returns carries the 0xBEEF magic, a 16-byte `aes_rand` and `max(0, size - 51)` info
bytes -/
theorem gen_decrypt_ok_shape (c : Crypto) (key : V) (blob : Bytes) (v : V)
    (h : Gen.PyC2M.decrypt_metadata (decX c) (.bytes blob) key = .ok v) :
    ∃ m, v = encMeta m ∧ m.magic = 0xBEEF ∧ m.aes_rand.length = 16 ∧ m.info.length = m.size - 51 := by
  rw [gen_decrypt_metadata] at h
  cases hm : decryptMetadata c blob with
  | error e => rw [hm] at h; cases h
  | ok m =>
    rw [hm] at h
    have : encMeta m = v := by injection h
    obtain ⟨h1, h2, h3, _⟩ := decrypt_ok_shape c blob m hm
    exact ⟨m, this.symm, h1, h2, h3⟩

/-- an integer field that does not fit its width makes the source text of `encrypt_metadata` raise `struct.error` -/
theorem gen_encrypt_overflow (c : Crypto) (r : Rand) (key : V) (m : Metadata) (h : ¬ InWidth m) :
    Gen.PyC2M.encrypt_metadata (encX c r) (encMeta m) key = .error .structError := by
  rw [gen_encrypt_metadata]
  simp only [encryptMetadataM, sized, dumps_err m h]
  rfl

/-- metadata that does not fit the modulus is rejected with ValueError by the source text of `encrypt_metadata` -/
theorem gen_too_long_rejected (c : Crypto) (hc : CryptoLaws c) (m : Metadata) (r : Rand) (key : V)
    (hw : InWidth m) (haes : m.aes_rand.length = 16) (hsz : 51 + m.info.length < 2 ^ 32)
    (hlong : ¬ (59 + m.info.length + 11 ≤ c.modulusBytes)) :
    Gen.PyC2M.encrypt_metadata (encX c r) (encMeta m) key = .error (.py .valueError) := by
  rw [gen_encrypt_metadata]
  have := too_long_rejected c hc m r hw haes hsz hlong
  simp only [encryptMetadataM, sized, dumps_ok m hw, this]
  rfl

/-! ### Non-vacuity: the translated definitions evaluated on concrete inputs (toy primitives of modulus length 128 / 70) -/

example : (Gen.PyC2M.encrypt_metadata (encX (toyCrypto 128) []) (encMeta sampleMetadata) .none).toOption.map
      (fun v => match v with
        | .tuple [.bytes blob, obj] => (blob.length, decMeta? obj, Gen.PyC2M.decrypt_metadata (decX (toyCrypto 128)) (.bytes blob) .none)
        | _ => (0, none, .error .typeError))
    = some (128, some { sampleMetadata with size := 56 }, .ok (encMeta { sampleMetadata with size := 56 })) := by decide +kernel
example : Gen.PyC2M.encrypt_metadata (encX (toyCrypto 128) []) (encMeta { sampleMetadata with port := 65536 }) .none
    = .error .structError := by decide +kernel
example : Gen.PyC2M.encrypt_metadata (encX (toyCrypto 70) []) (encMeta sampleMetadata) .none = .error (.py .valueError) := by
  decide +kernel
example : Gen.PyC2M.decrypt_metadata (decX (toyCrypto 128)) (.bytes (List.replicate 128 7)) .none = .error .valueError := by
  decide +kernel
example : Gen.PyC2M.decrypt_metadata (decX (toyCrypto 128)) (.bytes [1, 2, 3]) .none = .error .valueError := by decide +kernel
-- wrong-magic plaintext (59 zero bytes under the toy padding): the f-string of the error message is evaluated, then ValueError
example : Gen.PyC2M.decrypt_metadata (decX (toyCrypto 128)) (.bytes (toyPad 128 (List.replicate 59 0))) .none = .error .valueError := by
  decide +kernel
-- arguments of other kinds: `None.dumps` does not exist, `len(5)` is a TypeError, a `str` has no attribute `size` to assign
example : Gen.PyC2M.encrypt_metadata (encX (toyCrypto 128) []) .none .none = .error (.py .typeError) := by decide +kernel
example : Gen.PyC2M.encrypt_metadata (encX (toyCrypto 128) []) (.bytes [1, 2, 3, 4, 5, 6, 7, 8, 9]) .none
    = .error (.py .attributeError) := by decide +kernel

end C06Gen

import CsVerif.Gen.PyC2
import CsVerif.Props.C05
import CsVerif.Model.C06
import CsVerif.Lemmas.C05Gen
/-!
C05 — the tie between the source text and the model, by translation.

`Gen/PyC2.lean` is produced on every run by `tools/py2lean.py` from the *source* of `EncryptedPacket.dumps`,
`EncryptedPacket.raise_for_signature`, `derive_aes_hmac_keys`, `pad`, `encrypt_data`, `decrypt_data`, `decrypt_packet`
and `encrypt_packet` (dissect/cobaltstrike/c2.py).  AES-CBC / HMAC-SHA256 / SHA-256 are parameters of the translated
definitions just as they are fields of `C05.Crypto`.  The theorems state that each translated definition computes, for
all arguments and all primitives, what the hand-written model of `Model/C05.lean` computes — so the theorems of
`Props/C05.lean` are theorems about the function text as it stands now (the last section transfers the headline ones),
and an edit of one of these functions that changes its meaning breaks the corresponding proof here.
(`PyRt` = the Python semantics of the operations the translation uses, `lean/CsVerif/Model/PyRt.lean`.)
Helper lemmas: `Lemmas/C05Gen.lean`.
-/
namespace C05Gen
open PyRt

/-- the translated record and the model's record -/
def toPacket (p : Gen.PyC2.EncryptedPacket) : C05.Packet := ⟨p.ciphertext, p.signature⟩

/-! ### pad -/

/-- `pad(data)` with the default block size never raises and is the model's `pad` -/
theorem gen_pad (data : Bytes) : Gen.PyC2.pad data 16 = .ok (C05.pad data) := pad_16 data

/-- every positive block size -/
theorem gen_pad_to (data : Bytes) (bs : Nat) (h : 0 < bs) :
    Gen.PyC2.pad data (bs : Int) = .ok (C05.padTo bs data) := pad_nat data bs h

/-- `block_size = 0`: ZeroDivisionError (outside the model, which has no such argument) -/
theorem gen_pad_zero (data : Bytes) : Gen.PyC2.pad data 0 = .error .zeroDivisionError := pad_zero data

/-- a negative block size returns the data unchanged (`b"A" * negative` is empty); also outside the model -/
theorem gen_pad_negative (data : Bytes) (bs : Int) (h : bs < 0) : Gen.PyC2.pad data bs = .ok data :=
  pad_neg data bs h

/-! ### encrypt_data / decrypt_data / raise_for_signature -/

theorem gen_encrypt_data (c : C05.Crypto) (data : Bytes) (ak : Option Bytes) (iv : Bytes) :
    Gen.PyC2.encrypt_data c.aesCbcEnc data ak iv = C05.encryptData c data ak iv :=
  encrypt_data_eq c data ak iv

theorem gen_decrypt_data (c : C05.Crypto) (data : Bytes) (ak : Option Bytes) (iv : Bytes) :
    Gen.PyC2.decrypt_data c.aesCbcDec data ak iv = C05.decryptData c data ak iv :=
  decrypt_data_eq c data ak iv

theorem gen_raise_for_signature (c : C05.Crypto) (p : Gen.PyC2.EncryptedPacket) (hk : Bytes) :
    Gen.PyC2.EncryptedPacket_raise_for_signature c.hmacSha256 p hk = C05.raiseForSignature c (toPacket p) hk :=
  raise_for_signature_eq c p.ciphertext p.signature hk

/-! ### encrypt_packet / decrypt_packet -/

/-- (`hmac_key` is a bytes parameter of the translated function; the model's `none` case is the TypeError of
`hmac.new(None, …)`, which the translation does not cover) -/
theorem gen_encrypt_packet (c : C05.Crypto) (pt : Bytes) (ak : Option Bytes) (hk iv : Bytes) :
    (Gen.PyC2.encrypt_packet c.aesCbcEnc c.hmacSha256 pt ak hk iv).map toPacket
      = C05.encryptPacket c pt ak (some hk) iv :=
  encrypt_packet_eq c pt ak hk iv

theorem gen_decrypt_packet (c : C05.Crypto) (p : Gen.PyC2.EncryptedPacket) (ak hk : Option Bytes) (iv : Bytes)
    (verify : Bool) :
    Gen.PyC2.decrypt_packet c.hmacSha256 c.aesCbcDec p ak hk iv verify
      = C05.decryptPacket c (toPacket p) ak hk iv verify :=
  decrypt_packet_eq c p.ciphertext p.signature ak hk iv verify

/-! ### framing -/

theorem gen_dumps (p : Gen.PyC2.EncryptedPacket) : Gen.PyC2.EncryptedPacket_dumps p = C05.dumps (toPacket p) :=
  dumps_eq p.ciphertext p.signature

/-! ### derive_aes_hmac_keys -/

theorem gen_derive_aes_hmac_keys (sha256 : Bytes → Bytes) (r : Bytes) :
    Gen.PyC2.derive_aes_hmac_keys sha256 r = .ok ((sha256 r).take 16, (sha256 r).drop 16) :=
  derive_eq sha256 r

/-- … which is `deriveKeys` of the C06 model -/
theorem gen_derive_aes_hmac_keys_c06 (c : C06.Crypto) (r : Bytes) :
    Gen.PyC2.derive_aes_hmac_keys c.sha256 r = .ok (C06.deriveKeys c r) :=
  derive_eq c.sha256 r

/-- with a 32-byte digest both keys have 16 bytes and together they are the digest -/
theorem gen_derived_key_lengths (sha256 : Bytes → Bytes) (hlen : ∀ x, (sha256 x).length = 32) (r : Bytes) :
    ∃ ak hk, Gen.PyC2.derive_aes_hmac_keys sha256 r = .ok (ak, hk) ∧ ak.length = 16 ∧ hk.length = 16 ∧
      ak ++ hk = sha256 r := by
  refine ⟨_, _, derive_eq sha256 r, ?_, ?_, List.take_append_drop 16 _⟩
  · rw [List.length_take, hlen]; rfl
  · rw [List.length_drop, hlen]

/-! ### The headline theorems of Props/C05.lean, for the translated definitions -/

/-- Round trip: decrypting (with verification) what the translated `encrypt_packet` produced gives the padded
plaintext, under the hypotheses of `C05.decrypt_encrypt`. -/
theorem gen_decrypt_encrypt (c : C05.Crypto) (L : C05.CryptoLaws c) (pt k hk iv : Bytes)
    (hkv : k.length = 16 ∨ k.length = 24 ∨ k.length = 32) (hiv : iv.length = 16) (hne : hk ≠ []) :
    ∃ pkt, Gen.PyC2.encrypt_packet c.aesCbcEnc c.hmacSha256 pt (some k) hk iv = .ok pkt ∧
      Gen.PyC2.decrypt_packet c.hmacSha256 c.aesCbcDec pkt (some k) (some hk) iv true = .ok (C05.pad pt) := by
  obtain ⟨mp, h1, h2⟩ := C05.decrypt_encrypt c L pt k hk iv hkv hiv hne
  rw [← gen_encrypt_packet] at h1
  cases hg : Gen.PyC2.encrypt_packet c.aesCbcEnc c.hmacSha256 pt (some k) hk iv with
  | error e => rw [hg] at h1; cases h1
  | ok pkt =>
    rw [hg] at h1
    have hp : toPacket pkt = mp := by injection h1
    subst hp
    exact ⟨pkt, rfl, by rw [gen_decrypt_packet]; exact h2⟩

/-- … and without verification, whatever HMAC key (or none) the receiver has -/
theorem gen_decrypt_encrypt_unverified (c : C05.Crypto) (L : C05.CryptoLaws c) (pt k hk iv : Bytes)
    (hk' : Option Bytes) (hkv : k.length = 16 ∨ k.length = 24 ∨ k.length = 32) (hiv : iv.length = 16) :
    ∃ pkt, Gen.PyC2.encrypt_packet c.aesCbcEnc c.hmacSha256 pt (some k) hk iv = .ok pkt ∧
      Gen.PyC2.decrypt_packet c.hmacSha256 c.aesCbcDec pkt (some k) hk' iv false = .ok (C05.pad pt) := by
  obtain ⟨mp, h1, h2⟩ := C05.decrypt_encrypt_unverified c L pt k hk iv hk' hkv hiv
  rw [← gen_encrypt_packet] at h1
  cases hg : Gen.PyC2.encrypt_packet c.aesCbcEnc c.hmacSha256 pt (some k) hk iv with
  | error e => rw [hg] at h1; cases h1
  | ok pkt =>
    rw [hg] at h1
    have hp : toPacket pkt = mp := by injection h1
    subst hp
    exact ⟨pkt, rfl, by rw [gen_decrypt_packet]; exact h2⟩

/-- the signature of a packet made by the translated `encrypt_packet` is `HMAC(hk, ciphertext)[:16]` and has 16 bytes -/
theorem gen_signature_is_mac (c : C05.Crypto) (L : C05.CryptoLaws c) (pt : Bytes) (ak : Option Bytes) (hk iv : Bytes)
    (pkt : Gen.PyC2.EncryptedPacket)
    (h : Gen.PyC2.encrypt_packet c.aesCbcEnc c.hmacSha256 pt ak hk iv = .ok pkt) :
    pkt.signature = (c.hmacSha256 hk pkt.ciphertext).take 16 ∧ pkt.signature.length = 16 := by
  have hm : C05.encryptPacket c pt ak (some hk) iv = .ok (toPacket pkt) := by
    rw [← gen_encrypt_packet, h]; rfl
  obtain ⟨_, h', _, hh, _, hs⟩ := C05.signature_is_mac c pt ak (some hk) iv _ hm
  cases hh
  exact ⟨hs, C05.signature_length c L pt ak (some hk) iv _ hm⟩

/-- Complete description of the translated `decrypt_packet(..., verify=True)`: the result of `decrypt_data` when the
packet verifies (key present, non-empty, truncated MAC equal to the signature), ValueError otherwise. -/
theorem gen_verify_decision (c : C05.Crypto) (p : Gen.PyC2.EncryptedPacket) (ak hk : Option Bytes) (iv : Bytes) :
    Gen.PyC2.decrypt_packet c.hmacSha256 c.aesCbcDec p ak hk iv true =
      if C05.Verifies c (toPacket p) hk then Gen.PyC2.decrypt_data c.aesCbcDec p.ciphertext ak iv
      else .error .valueError := by
  rw [gen_decrypt_packet, gen_decrypt_data, C05.verify_decision]
  rfl

/-- Verification precedes decryption: with `verify=True` and a signature that is not the truncated MAC under the
given key (or no usable key at all), the translated `decrypt_packet` returns ValueError for EVERY function put in the
place of AES-CBC decryption — its output, exceptions included, cannot influence the outcome. -/
theorem gen_verify_before_decrypt (hmacSha256 : Bytes → Bytes → Bytes) (aesCbcDec : Bytes → Bytes → Bytes → Py Bytes)
    (p : Gen.PyC2.EncryptedPacket) (ak hk : Option Bytes) (iv : Bytes)
    (hbad : ∀ k, hk = some k → k ≠ [] → (hmacSha256 k p.ciphertext).take 16 ≠ p.signature) :
    Gen.PyC2.decrypt_packet hmacSha256 aesCbcDec p ak hk iv true = .error .valueError := by
  let c : C05.Crypto := ⟨aesCbcDec, aesCbcDec, hmacSha256⟩
  have hrej : ¬ C05.Verifies c (toPacket p) hk := by
    cases hk with
    | none => exact fun h => h
    | some k => exact fun hv => hbad k rfl hv.1 hv.2
  have h := (C05.no_plaintext_on_reject c (toPacket p) ak hk iv hrej).1
  exact (gen_decrypt_packet c p ak hk iv true).trans h

/-- in particular a rejected packet gives the same answer under any two AES implementations -/
theorem gen_reject_independent_of_aes (hmacSha256 : Bytes → Bytes → Bytes)
    (dec dec' : Bytes → Bytes → Bytes → Py Bytes) (p : Gen.PyC2.EncryptedPacket) (ak hk : Option Bytes) (iv : Bytes)
    (hbad : ∀ k, hk = some k → k ≠ [] → (hmacSha256 k p.ciphertext).take 16 ≠ p.signature) :
    Gen.PyC2.decrypt_packet hmacSha256 dec p ak hk iv true = Gen.PyC2.decrypt_packet hmacSha256 dec' p ak hk iv true := by
  rw [gen_verify_before_decrypt hmacSha256 dec p ak hk iv hbad, gen_verify_before_decrypt hmacSha256 dec' p ak hk iv hbad]

/-- a packet made by the translated `encrypt_packet` whose signature was changed is rejected -/
theorem gen_tampered_signature_rejected (c : C05.Crypto) (pt : Bytes) (ak : Option Bytes) (hk iv : Bytes)
    (pkt : Gen.PyC2.EncryptedPacket) (sig' : Bytes) (hne : hk ≠ [])
    (henc : Gen.PyC2.encrypt_packet c.aesCbcEnc c.hmacSha256 pt ak hk iv = .ok pkt) (hs : sig' ≠ pkt.signature) :
    Gen.PyC2.decrypt_packet c.hmacSha256 c.aesCbcDec ⟨pkt.ciphertext, sig'⟩ ak (some hk) iv true
      = .error .valueError := by
  have hm : C05.encryptPacket c pt ak (some hk) iv = .ok (toPacket pkt) := by
    rw [← gen_encrypt_packet, henc]; rfl
  rw [gen_decrypt_packet]
  exact C05.tampered_signature_of_encrypted_rejected c pt ak hk iv (toPacket pkt) sig' hne hm hs

/-- the framed form of a packet made by the translated functions: 4-byte big-endian length, ciphertext, signature -/
theorem gen_dumps_spec (p : Gen.PyC2.EncryptedPacket) :
    Gen.PyC2.EncryptedPacket_dumps p =
      if p.ciphertext.length + p.signature.length < 2 ^ 32 then
        .ok (C20.toBytesU .big 4 (p.ciphertext.length + p.signature.length) ++ (p.ciphertext ++ p.signature))
      else .error .overflowError := by
  rw [gen_dumps, C05.dumps_spec]
  rfl

/-! ### Non-vacuity: the translated definitions evaluated on concrete inputs (toy primitives of `C05.toyCrypto`) -/

example : Gen.PyC2.pad [1, 2, 3] 16 = .ok ([1, 2, 3] ++ List.replicate 13 0x41) := by decide
example : Gen.PyC2.pad (List.replicate 16 7) 16 = .ok (List.replicate 16 7 ++ List.replicate 16 0x41) := by decide
example : Gen.PyC2.pad [1, 2, 3] 2 = .ok [1, 2, 3, 0x41] := by decide
example : Gen.PyC2.pad [1, 2, 3] 0 = .error .zeroDivisionError := by decide
example : Gen.PyC2.pad [1, 2, 3, 4] (-3) = .ok [1, 2, 3, 4] := by decide
example : Gen.PyC2.encrypt_data C05.toyCrypto.aesCbcEnc [1] none [] = .error .valueError := by decide
example : Gen.PyC2.encrypt_data C05.toyCrypto.aesCbcEnc [1] (some [1, 2]) (List.replicate 16 1) = .error .valueError := by
  decide
example : Gen.PyC2.encrypt_data C05.toyCrypto.aesCbcEnc [1, 2, 3] (some (List.replicate 16 9)) (List.replicate 16 1)
    = .ok ([8, 11, 10] ++ List.replicate 13 0x48) := by decide
example : Gen.PyC2.decrypt_data C05.toyCrypto.aesCbcDec ([8, 11, 10] ++ List.replicate 13 0x48)
    (some (List.replicate 16 9)) (List.replicate 16 1) = .ok ([1, 2, 3] ++ List.replicate 13 0x41) := by decide
example : Gen.PyC2.encrypt_packet C05.toyCrypto.aesCbcEnc C05.toyCrypto.hmacSha256 [1, 2, 3]
      (some (List.replicate 16 9)) [5] (List.replicate 16 1)
    = .ok ⟨[8, 11, 10] ++ List.replicate 13 0x48, [5, 8, 11, 10] ++ List.replicate 12 0x48⟩ := by decide
example : Gen.PyC2.decrypt_packet C05.toyCrypto.hmacSha256 C05.toyCrypto.aesCbcDec
      ⟨[8, 11, 10] ++ List.replicate 13 0x48, [5, 8, 11, 10] ++ List.replicate 12 0x48⟩
      (some (List.replicate 16 9)) (some [5]) (List.replicate 16 1) true
    = .ok ([1, 2, 3] ++ List.replicate 13 0x41) := by decide
/-- one changed signature byte: ValueError -/
example : Gen.PyC2.decrypt_packet C05.toyCrypto.hmacSha256 C05.toyCrypto.aesCbcDec
      ⟨[8, 11, 10] ++ List.replicate 13 0x48, [5, 8, 11, 11] ++ List.replicate 12 0x48⟩
      (some (List.replicate 16 9)) (some [5]) (List.replicate 16 1) true
    = .error .valueError := by decide
/-- the same packet without verification decrypts -/
example : Gen.PyC2.decrypt_packet C05.toyCrypto.hmacSha256 C05.toyCrypto.aesCbcDec
      ⟨[8, 11, 10] ++ List.replicate 13 0x48, [5, 8, 11, 11] ++ List.replicate 12 0x48⟩
      (some (List.replicate 16 9)) none (List.replicate 16 1) false
    = .ok ([1, 2, 3] ++ List.replicate 13 0x41) := by decide
/-- empty / missing HMAC key with `verify=True` -/
example : Gen.PyC2.decrypt_packet C05.toyCrypto.hmacSha256 C05.toyCrypto.aesCbcDec ⟨[], []⟩ none (some []) [] true
    = .error .valueError := by decide
example : Gen.PyC2.decrypt_packet C05.toyCrypto.hmacSha256 C05.toyCrypto.aesCbcDec ⟨[], []⟩ none none [] true
    = .error .valueError := by decide
example : Gen.PyC2.EncryptedPacket_raise_for_signature C05.toyCrypto.hmacSha256
    ⟨[1, 2], [7, 1, 2] ++ List.replicate 13 0⟩ [7] = .ok () := by decide
example : Gen.PyC2.EncryptedPacket_raise_for_signature C05.toyCrypto.hmacSha256
    ⟨[1, 3], [7, 1, 2] ++ List.replicate 13 0⟩ [7] = .error .valueError := by decide
example : Gen.PyC2.EncryptedPacket_dumps ⟨[0xaa], List.replicate 16 0xbb⟩
    = .ok ([0, 0, 0, 17, 0xaa] ++ List.replicate 16 0xbb) := by decide
example : Gen.PyC2.derive_aes_hmac_keys (C06.toyCrypto 64).sha256 [1, 2, 3]
    = .ok ([1, 2, 3] ++ List.replicate 13 0, List.replicate 16 0) := by decide
/-- the hypotheses of `gen_decrypt_encrypt` are satisfiable -/
example : ∃ pkt, Gen.PyC2.encrypt_packet C05.toyCrypto.aesCbcEnc C05.toyCrypto.hmacSha256 [1, 2, 3]
      (some (List.replicate 16 9)) [5] (List.replicate 16 1) = .ok pkt ∧
    Gen.PyC2.decrypt_packet C05.toyCrypto.hmacSha256 C05.toyCrypto.aesCbcDec pkt (some (List.replicate 16 9)) (some [5])
      (List.replicate 16 1) true = .ok (C05.pad [1, 2, 3]) :=
  gen_decrypt_encrypt C05.toyCrypto C05.toy_laws [1, 2, 3] (List.replicate 16 9) [5] (List.replicate 16 1)
    (by decide) (by decide) (by decide)
/-- … and so is the hypothesis of `gen_verify_before_decrypt` (a signature that is not the MAC) -/
example : ∀ k, (some [7] : Option Bytes) = some k → k ≠ [] →
    (C05.toyCrypto.hmacSha256 k [1, 3]).take 16 ≠ [7, 1, 2] ++ List.replicate 13 0 := by
  intro k hk _
  cases hk
  decide

end C05Gen

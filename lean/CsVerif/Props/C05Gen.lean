import CsVerif.Gen.PyC2
import CsVerif.Lemmas.C05
/-!
C05 — the tie between the source text and the model, by translation.

`Gen/PyC2.lean` is produced on every run by `tools/py2lean.py` from the *source* of `EncryptedPacket.dumps`,
`EncryptedPacket.raise_for_signature`, `derive_aes_hmac_keys`, `pad`, `encrypt_data`, `decrypt_data`, `decrypt_packet`
and `encrypt_packet` (dissect/cobaltstrike/c2.py).  AES-CBC / HMAC-SHA256 / SHA-256 are parameters of the translated
definitions just as they are fields of `C05.Crypto`.  The theorems state that each translated definition computes, for
all arguments and all primitives, what the hand-written model of `Model/C05.lean` computes.
-/
namespace C05Gen
open PyRt

/-- the translated record and the model's record -/
def toPacket (p : Gen.PyC2.EncryptedPacket) : C05.Packet := ⟨p.ciphertext, p.signature⟩

end C05Gen

import CsVerif.Model.C14R
/-! ### configurations with a setting that cannot be rendered (`Model/C14R.lean`, stream `raising`) -/
namespace C14R

/-- Invariant of every history: a rendered view is never cached (so nothing half-filled can be handed out later). -/
theorem raising_never_caches_rendered (pre : List Use) :
    ∀ v ∈ (run State.init pre).cached, v.pretty = false := by
  suffices h : ∀ (s : State), (∀ v ∈ s.cached, v.pretty = false) → ∀ v ∈ (run s pre).cached, v.pretty = false from
    h State.init (by simp [State.init])
  induction pre with
  | nil => intro s hs; simpa [run] using hs
  | cons u us ih =>
    intro s hs
    apply ih
    cases u <;> simp only [step, viewAccess] <;> (try exact hs) <;>
      (split <;> (try exact hs) <;> split <;> (try exact hs)) <;>
      (intro v hv; simp only [List.mem_cons] at hv; rcases hv with rfl | hv <;> simp_all)

/-- Every use gives the same result after any history as on a fresh configuration – an error included. -/
theorem raising_history_independent (pre : List Use) (u : Use) :
    (step (run State.init pre) u).2 = (step State.init u).2 := by
  have hinv := raising_never_caches_rendered pre
  have key : ∀ v : View, (viewAccess (run State.init pre) v).2 = (viewAccess State.init v).2 := by
    intro v
    simp only [viewAccess, State.init, List.not_mem_nil, if_false]
    by_cases hm : v ∈ (run ⟨[]⟩ pre).cached
    · have := hinv v hm
      simp [hm, this]
    · simp only [hm, if_false]
      split <;> rfl
  cases u <;> simp only [step] <;> first | exact key _ | rfl

/-- Closed form of the result: exactly the uses that render raise; the raw views and unrendered maps are mappings. -/
theorem raising_result (pre : List Use) (u : Use) :
    (step (run State.init pre) u).2 =
      (match u with
       | .view v => if v.pretty then .raises else .mapping
       | .smap p => if p then .raises else .mapping
       | .c2http | .client | .profile => .raises) := by
  rw [raising_history_independent]
  cases u with
  | view v => cases v <;> simp [step, viewAccess, State.init, View.pretty]
  | smap p => rfl
  | c2http => simp [step, viewAccess, State.init, View.pretty]
  | client => simp [step, viewAccess, State.init, View.pretty]
  | profile => simp [step, viewAccess, State.init, View.pretty]

/-- The variant that fills the slot before rendering (seeded change C14-m18) is history dependent: the second use of
`settings` returns a mapping where a fresh configuration raises. -/
theorem eager_cache_variant_history_dependent :
    (viewAccessEager (viewAccessEager State.init .settings).1 .settings).2 ≠ (viewAccessEager State.init .settings).2 := by
  decide

/-- non-vacuity: a history that mixes raw and rendered uses, with its results -/
example : outs State.init [.view .rawSettings, .c2http, .view .rawSettings, .profile, .smap false, .view .settings] =
    [.mapping, .raises, .mapping, .raises, .mapping, .raises] := by decide

end C14R

import CsVerif.Lemmas.C17
/-! C17 property theorems (Guardrails). -/
namespace C17
open Gen.Guardrails

/-! ### generated tables -/

theorem starts_length : ∀ s ∈ GUARD_CONFIG_STARTS, s.length = 6 := by decide

/-- every known start is the header (option, type, length — big-endian uint16 each) of a guard setting -/
theorem starts_are_headers :
    GUARD_CONFIG_STARTS =
      [(GUARD_USER, TYPE_SHORT, 2), (GUARD_COMPUTER, TYPE_SHORT, 2), (GUARD_DOMAIN, TYPE_SHORT, 2), (GUARD_LOCAL_IP, TYPE_INT, 4)].map
        (fun (o, t, l) => C20.toBytesU .big 2 o ++ C20.toBytesU .big 2 t ++ C20.toBytesU .big 2 l) := by decide

theorem layout_ok : settingHeaderWidths = [2, 2, 2] ∧ metaBeaconXorKey = beaconXorKey := by decide

theorem options_distinct : (GuardOption.map Prod.snd).Nodup ∧ ("GUARD_PAYLOAD_CHECKSUM", GUARD_PAYLOAD_CHECKSUM) ∈ GuardOption := by decide

/-- The scan never raises (BytesIO or OS file, any mask key) and reports, in increasing offset order, exactly the
offsets where the marker relation holds and a 6144-byte area fits in front.  (Proved next to the model because the
compiled driver's linear-time scan is justified by it, see `iterGuardrailConfigs_eq_probe`.) -/
theorem iterGuardrailConfigs_eq (f : PyFile) (xorkey : Bytes) :
    iterGuardrailConfigs f xorkey =
      .ok ((List.range f.data.length).filterMap (probeAt f.data (maskedStarts xorkey) 6 xorkey)) :=
  iterGuardrailConfigs_eq_probe f xorkey

theorem iterGuardrailConfigs_total (f : PyFile) (xorkey : Bytes) :
    ∃ ms, iterGuardrailConfigs f xorkey = .ok ms := ⟨_, iterGuardrailConfigs_eq f xorkey⟩

/-- Everything the scan can report (chance matches included): a record is reported iff it is the record built at some
offset `off` with the marker relation `xor(reverse(data[off:off+6]), data[off+6:off+12]) ∈ masked starts` and `off + 6 ≥ 6144`. -/
theorem scan_reports_iff (f : PyFile) (xorkey : Bytes) (ms : List Meta) (h : iterGuardrailConfigs f xorkey = .ok ms) (m : Meta) :
    m ∈ ms ↔ ∃ off, off < f.data.length ∧ markerAt f.data (maskedStarts xorkey) 6 off ∧ BEACON_CONFIG_PATCH_SIZE ≤ off + 6 ∧
      m = metaAt f.data xorkey (off + 6) (off + 6 - BEACON_CONFIG_PATCH_SIZE) := by
  rw [iterGuardrailConfigs_eq] at h
  injection h with h
  subst h
  simp only [List.mem_filterMap, List.mem_range, probeAt]
  constructor
  · rintro ⟨off, hlt, hp⟩
    split at hp
    · rename_i hc
      injection hp with hp
      exact ⟨off, hlt, hc.1, hc.2, hp.symm⟩
    · cases hp
  · rintro ⟨off, hlt, h1, h2, rfl⟩
    exact ⟨off, hlt, by rw [if_pos ⟨h1, h2⟩]⟩

/-- **scan_position_independent**: putting any prefix `p` in front of a file moves every record the scan reported for
the file by `|p|` and changes nothing else; the only additional records are ones whose marker lies in the prefix or in
the first 6138 bytes of the old content (their 6144-byte area reaches into the prefix).  In particular no file position
— block boundary or otherwise — is special. -/
theorem scan_position_independent (p data key : Bytes) (ms : List Meta)
    (h : iterGuardrailConfigs (PyFile.ofBytes data) key = .ok ms) :
    ∃ early, iterGuardrailConfigs (PyFile.ofBytes (p ++ data)) key = .ok (early ++ ms.map (Meta.shift p.length)) ∧
      ∀ m ∈ early, m.guardConfigOffset < p.length + BEACON_CONFIG_PATCH_SIZE := by
  rw [iterGuardrailConfigs_eq] at h
  injection h with h
  subst h
  simp only [PyFile.ofBytes]
  generalize hc : min (BEACON_CONFIG_PATCH_SIZE - 6) data.length = c
  have hB : 6 ≤ BEACON_CONFIG_PATCH_SIZE := by decide
  have hc1 : c ≤ data.length := by omega
  have hc2 : c ≤ BEACON_CONFIG_PATCH_SIZE - 6 := by omega
  have hc3 : 0 < data.length - c → c = BEACON_CONFIG_PATCH_SIZE - 6 := by omega
  refine ⟨(List.range' 0 (p.length + c)).filterMap (probeAt (p ++ data) (maskedStarts key) 6 key), ?_, ?_⟩
  · rw [iterGuardrailConfigs_eq]
    simp only [List.length_append]
    congr 1
    -- split both ranges at the cut
    have hs1 : List.range (p.length + data.length)
        = List.range' 0 (p.length + c) ++ List.range' (p.length + c) (data.length - c) := by
      rw [List.range_eq_range']
      have := List.range'_append_1 (s := 0) (m := p.length + c) (n := data.length - c)
      rw [Nat.zero_add] at this
      rw [this]; congr 1; omega
    have hs2 : List.range data.length = List.range' 0 c ++ List.range' c (data.length - c) := by
      rw [List.range_eq_range']
      have := List.range'_append_1 (s := 0) (m := c) (n := data.length - c)
      rw [Nat.zero_add] at this
      rw [this]; congr 1; omega
    rw [hs1, hs2, List.filterMap_append, List.filterMap_append]
    congr 1
    have hnone : (List.range' 0 c).filterMap (probeAt data (maskedStarts key) 6 key) = [] := by
      rw [List.filterMap_eq_nil_iff]
      intro off hoff
      simp only [List.mem_range'_1] at hoff
      exact probeAt_none_early data _ key off (by omega)
    rw [hnone, List.nil_append, List.map_filterMap]
    have hmap : List.range' (p.length + c) (data.length - c) = (List.range' c (data.length - c)).map (p.length + ·) := by
      rw [List.map_add_range']
    rw [hmap, List.filterMap_map]
    apply filterMap_congr'
    intro off hoff
    simp only [List.mem_range'_1] at hoff
    have := hc3 (by omega)
    simp only [Function.comp]
    exact probeAt_shift p data (maskedStarts key) key off (by omega)
  · intro m hm
    simp only [List.mem_filterMap, List.mem_range'_1] at hm
    obtain ⟨off, hoff, hp⟩ := hm
    rw [probeAt_gco hp]
    omega

/-! ### guard unmasking and the marker -/

/-- masking then unmasking the guard configuration returns it (any guard key, any masked beacon area) -/
theorem guard_unmask_roundtrip (gc mb key : Bytes) :
    C20.xor (C20.xor (C20.xor (C20.xor gc key) mb.reverse) mb.reverse) key = gc := by
  rw [xor_involutive, xor_involutive]

/-- the marker relation holds where a masked guard configuration with a known start follows a masked beacon area -/
theorem marker_relation (mb gc key : Bytes) (hmb : 6 ≤ mb.length) (hgc : 6 ≤ gc.length) :
    C20.xor ((mb.drop (mb.length - 6)).reverse) ((C20.xor (C20.xor gc key) mb.reverse).take 6) = C20.xor (gc.take 6) key := by
  rw [xor_take, xor_take]
  have hr : (mb.drop (mb.length - 6)).reverse = mb.reverse.take 6 := by
    rw [List.reverse_drop]; congr 1; omega
  rw [hr]
  apply List.ext_getElem
  · simp [xor_length]; omega
  · intro i h1 h2
    have hi : i < 6 := by simp [xor_length] at h2; omega
    have hl : (C20.xor (C20.xor (List.take 6 gc) key) mb.reverse).length = 6 := by simp [xor_length]; omega
    rw [xor_getElem, keyAt_lt _ _ (by rw [hl]; exact hi)]
    rw [xor_getElem (C20.xor (List.take 6 gc) key) mb.reverse, keyAt_lt mb.reverse i (by simp; omega)]
    simp only [List.getElem_take]
    rw [UInt8.xor_comm, UInt8.xor_assoc]
    simp

/-- the guard-side mask the builder applies: `xor(xor(guard_config, key), reverse(masked_beacon))` -/
def maskGuard (gc key mb : Bytes) : Bytes := C20.xor (C20.xor gc key) mb.reverse

/-- the record reported for a protected area `mb ++ maskGuard gc key mb` placed behind `pre` -/
def areaMeta (pre mb gc key : Bytes) : Meta :=
  { beaconConfigOffset := pre.length
    guardConfigOffset := pre.length + BEACON_CONFIG_PATCH_SIZE
    maskedBeaconConfig := mb
    maskedGuardConfig := maskGuard gc key mb
    beaconXorKey := metaBeaconXorKey
    guardrailXorKey := key
    unmaskedGuardConfig := gc
    checksum := (settingsPure gc [] 0).2
    payloadXorKey := none
    unmaskedBeaconConfig := none
    settings := (settingsPure gc [] 0).1 }

theorem area_marker (pre mb gc key post : Bytes)
    (hmb : mb.length = BEACON_CONFIG_PATCH_SIZE) (hgc : gc.length = GUARD_PATCH_SIZE)
    (hstart : gc.take 6 ∈ GUARD_CONFIG_STARTS) :
    markerAt (pre ++ mb ++ maskGuard gc key mb ++ post) (maskedStarts key) 6 (pre.length + (BEACON_CONFIG_PATCH_SIZE - 6)) := by
  have hmb' : mb.length = 6144 := hmb
  have hgc' : gc.length = 2048 := hgc
  have hmg : (maskGuard gc key mb).length = 2048 := by simp [maskGuard, xor_length, hgc']
  unfold markerAt
  have hblock : ((pre ++ mb ++ maskGuard gc key mb ++ post).drop (pre.length + (BEACON_CONFIG_PATCH_SIZE - 6))).take (6 * 2)
      = mb.drop (mb.length - 6) ++ (maskGuard gc key mb).take 6 := by
    have e : pre ++ mb ++ maskGuard gc key mb ++ post = pre ++ (mb ++ (maskGuard gc key mb ++ post)) := by simp
    rw [e, List.drop_length_add_append, List.drop_append_of_le_length (by rw [hmb]; omega)]
    have hd : (mb.drop (BEACON_CONFIG_PATCH_SIZE - 6)).length = 6 := by simp [hmb']; rfl
    have h12 : 6 * 2 = (mb.drop (BEACON_CONFIG_PATCH_SIZE - 6)).length + 6 := by rw [hd]
    rw [h12, List.take_length_add_append, List.take_append_of_le_length (by omega), hmb]
  rw [hblock]
  have hd : (mb.drop (mb.length - 6)).length = 6 := by simp [hmb']
  have h6 : 6 = (mb.drop (mb.length - 6)).length := hd.symm
  have ht : (mb.drop (mb.length - 6) ++ (maskGuard gc key mb).take 6).take 6 = mb.drop (mb.length - 6) := by
    conv => lhs; arg 1; rw [h6]
    exact List.take_left
  have hdr : (mb.drop (mb.length - 6) ++ (maskGuard gc key mb).take 6).drop 6 = (maskGuard gc key mb).take 6 := by
    conv => lhs; arg 1; rw [h6]
    exact List.drop_left
  rw [ht, hdr]
  unfold maskGuard
  rw [marker_relation mb gc key (by omega) (by omega)]
  exact List.mem_map_of_mem hstart

theorem area_metaAt (pre mb gc key post : Bytes)
    (hmb : mb.length = BEACON_CONFIG_PATCH_SIZE) (hgc : gc.length = GUARD_PATCH_SIZE) :
    metaAt (pre ++ mb ++ maskGuard gc key mb ++ post) key (pre.length + BEACON_CONFIG_PATCH_SIZE) pre.length
      = areaMeta pre mb gc key := by
  have hmg : (maskGuard gc key mb).length = GUARD_PATCH_SIZE := by simp [maskGuard, xor_length, hgc]
  have e : pre ++ mb ++ maskGuard gc key mb ++ post = pre ++ (mb ++ (maskGuard gc key mb ++ post)) := by simp
  have h1 : ((pre ++ mb ++ maskGuard gc key mb ++ post).drop pre.length).take BEACON_CONFIG_PATCH_SIZE = mb := by
    rw [e, List.drop_left, ← hmb, List.take_left]
  have h2 : ((pre ++ mb ++ maskGuard gc key mb ++ post).drop (pre.length + mb.length)).take GUARD_PATCH_SIZE
      = maskGuard gc key mb := by
    rw [e, List.drop_length_add_append, List.drop_left, ← hmg, List.take_left]
  unfold metaAt areaMeta
  simp only [h1, h2]
  have h3 : C20.xor (C20.xor (maskGuard gc key mb) mb.reverse) key = gc := guard_unmask_roundtrip gc mb key
  simp only [h3]

/-- **marker_found**: a protected area (6144 masked beacon bytes followed by the 2048-byte masked guard configuration
whose plain text starts with one of the four known settings) placed behind any prefix — offset 0 included — and followed
by anything is reported by the scan with exactly its offsets, masked areas, unmasked guard configuration and settings;
no other record is reported for that offset.  What else can be reported is characterised by `scan_reports_iff`
(chance matches of the 12-byte marker relation at other offsets). -/
theorem marker_found (pre mb gc key post : Bytes)
    (hmb : mb.length = BEACON_CONFIG_PATCH_SIZE) (hgc : gc.length = GUARD_PATCH_SIZE)
    (hstart : gc.take 6 ∈ GUARD_CONFIG_STARTS) :
    ∃ ms, iterGuardrailConfigs (PyFile.ofBytes (pre ++ mb ++ maskGuard gc key mb ++ post)) key = .ok ms ∧
      areaMeta pre mb gc key ∈ ms ∧
      ∀ m ∈ ms, m.guardConfigOffset = pre.length + BEACON_CONFIG_PATCH_SIZE → m = areaMeta pre mb gc key := by
  have hB : BEACON_CONFIG_PATCH_SIZE = 6144 := rfl
  have hG : GUARD_PATCH_SIZE = 2048 := rfl
  have hmg : (maskGuard gc key mb).length = 2048 := by simp [maskGuard, xor_length, hgc, hG]
  refine ⟨_, iterGuardrailConfigs_eq _ _, ?_, ?_⟩
  · rw [scan_reports_iff _ _ _ (iterGuardrailConfigs_eq _ _)]
    refine ⟨pre.length + (BEACON_CONFIG_PATCH_SIZE - 6), ?_, area_marker pre mb gc key post hmb hgc hstart, by omega, ?_⟩
    · simp [PyFile.ofBytes, hmb, hmg, hB]; omega
    · have e1 : pre.length + (BEACON_CONFIG_PATCH_SIZE - 6) + 6 = pre.length + BEACON_CONFIG_PATCH_SIZE := by omega
      have e2 : pre.length + BEACON_CONFIG_PATCH_SIZE - BEACON_CONFIG_PATCH_SIZE = pre.length := by omega
      rw [e1, e2]
      exact (area_metaAt pre mb gc key post hmb hgc).symm
  · intro m hm hoff
    rw [scan_reports_iff _ _ _ (iterGuardrailConfigs_eq _ _)] at hm
    obtain ⟨off, _, _, hge, rfl⟩ := hm
    have : off + 6 = pre.length + BEACON_CONFIG_PATCH_SIZE := hoff
    have e2 : pre.length + BEACON_CONFIG_PATCH_SIZE - BEACON_CONFIG_PATCH_SIZE = pre.length := by omega
    rw [this, e2]
    exact area_metaAt pre mb gc key post hmb hgc

/-! ### checksum -/

/-- `payload_checksum` is the weighted byte sum (weights 1,2,3 cycling) reduced modulo 99999999 … -/
theorem payloadChecksum_spec (d : Bytes) : payloadChecksum d = wsum d 0 % 99999999 := payloadChecksum_eq d

/-- … and therefore below the modulus; for a 6144-byte configuration the reduction never happens and the value is at most 4700160. -/
theorem payloadChecksum_bounds (d : Bytes) :
    payloadChecksum d < 99999999 ∧ (d.length ≤ 130718 → payloadChecksum d = wsum d 0 ∧ payloadChecksum d ≤ 765 * d.length) :=
  ⟨payloadChecksum_lt d, fun h => ⟨payloadChecksum_small d h, by rw [payloadChecksum_small d h]; exact wsum_le d 0⟩⟩

/-! ### only_if_checksum / no_match_metadata_only -/

/-- no candidate key unmasks the record's configuration to something with the stored checksum -/
def NoMatch (bufSize : Nat) (m : Meta) : Prop :=
  ∀ k ∈ findXorKeyCandidates (C20.xor m.maskedBeaconConfig beaconXorKey) bufSize,
    m.checksum ≠ payloadChecksum (C20.xor (C20.xor m.maskedBeaconConfig beaconXorKey) k) + 1

theorem withBeaconOne_checksum (bufSize : Nat) (m : Meta) : (withBeaconOne bufSize m).checksum = m.checksum := by
  unfold withBeaconOne; simp only []; split <;> rfl

theorem withBeaconOne_masked (bufSize : Nat) (m : Meta) :
    (withBeaconOne bufSize m).maskedBeaconConfig = m.maskedBeaconConfig := by
  unfold withBeaconOne; simp only []; split <;> rfl

theorem withBeaconOne_config {bufSize : Nat} {m : Meta} {u : Bytes} (h0 : m.unmaskedBeaconConfig = none)
    (h : (withBeaconOne bufSize m).unmaskedBeaconConfig = some u) :
    payloadChecksum u + 1 = m.checksum ∧
      ∃ k, (withBeaconOne bufSize m).payloadXorKey = some k ∧
        k ∈ findXorKeyCandidates (C20.xor m.maskedBeaconConfig beaconXorKey) bufSize ∧
        u = C20.xor (C20.xor m.maskedBeaconConfig beaconXorKey) k := by
  unfold withBeaconOne at h ⊢
  simp only [] at h ⊢
  split at h
  · rename_i k u' hs
    simp only [Option.some.injEq] at h
    subst h
    obtain ⟨a, b, c⟩ := selectKey_some hs
    exact ⟨c.symm, k, rfl, a, b⟩
  · rw [h0] at h; cases h

theorem scan_unmasked_none {f : PyFile} {xorkey : Bytes} {ms : List Meta} (h : iterGuardrailConfigs f xorkey = .ok ms)
    {m : Meta} (hm : m ∈ ms) : m.unmaskedBeaconConfig = none ∧ m.payloadXorKey = none := by
  rw [scan_reports_iff f xorkey ms h] at hm
  obtain ⟨_, _, _, _, rfl⟩ := hm
  exact ⟨rfl, rfl⟩

/-- **only_if_checksum** (unconditional): whenever `iter_guardrail_configs_with_beacon` reports an unmasked
configuration `u`, `payload_checksum(u) + 1` equals the checksum stored in the guard configuration, and `u` is the
masked area unmasked with 0x2e and the reported key, which is one of the candidates. -/
theorem only_if_checksum (f : PyFile) (bufSize : Nat) (ms : List Meta)
    (h : iterGuardrailConfigsWithBeacon f bufSize = .ok ms) (m : Meta) (hm : m ∈ ms) (u : Bytes)
    (hu : m.unmaskedBeaconConfig = some u) :
    payloadChecksum u + 1 = m.checksum ∧
      ∃ k, m.payloadXorKey = some k ∧
        k ∈ findXorKeyCandidates (C20.xor m.maskedBeaconConfig beaconXorKey) bufSize ∧
        u = C20.xor (C20.xor m.maskedBeaconConfig beaconXorKey) k := by
  unfold iterGuardrailConfigsWithBeacon at h
  split at h
  · cases h
  · rename_i ms0 h0
    injection h with h
    subst h
    simp only [List.mem_map] at hm
    obtain ⟨m0, hm0, rfl⟩ := hm
    have hn := (scan_unmasked_none h0 hm0).1
    have := withBeaconOne_config hn hu
    rw [withBeaconOne_checksum, withBeaconOne_masked]
    exact this

/-- the same at the level of `BeaconConfig.from_file`: the configuration block handed to `BeaconConfig(...)` by the
Guardrails fallback always carries the stored checksum. -/
theorem only_if_checksum_from_file (f : PyFile) (bufSize : Nat) (m : Meta) (h : fromFileFallback f bufSize = .ok m) :
    ∃ u, m.unmaskedBeaconConfig = some u ∧ u ≠ [] ∧ payloadChecksum u + 1 = m.checksum := by
  unfold fromFileFallback at h
  split at h
  · cases h
  · rename_i ms hms
    split at h
    · rename_i m' hfind
      injection h with h; subst h
      have hmem := List.mem_of_find?_eq_some hfind
      have hcfg := List.find?_some hfind
      unfold Meta.hasConfig at hcfg
      split at hcfg
      · rename_i b bs hu
        exact ⟨b :: bs, hu, by simp, (only_if_checksum f bufSize ms hms m' hmem _ hu).1⟩
      · cases hcfg
    · cases h

/-- **no_match_metadata_only**: a record is passed through with the guard metadata alone (no key, no configuration)
exactly when no candidate key reproduces the stored checksum. -/
theorem no_match_metadata_only (bufSize : Nat) (m : Meta) (h0 : m.unmaskedBeaconConfig = none) :
    (NoMatch bufSize m → withBeaconOne bufSize m = { m with beaconXorKey := beaconXorKey }) ∧
    ((withBeaconOne bufSize m).unmaskedBeaconConfig = none ↔ NoMatch bufSize m) := by
  have hnone := selectKey_none_iff (C20.xor m.maskedBeaconConfig beaconXorKey) m.checksum
    (findXorKeyCandidates (C20.xor m.maskedBeaconConfig beaconXorKey) bufSize)
  constructor
  · intro hn
    unfold withBeaconOne
    simp only []
    rw [hnone.mpr hn]
  · constructor
    · intro h
      apply hnone.mp
      unfold withBeaconOne at h
      simp only [] at h
      split at h
      · cases h
      · assumption
    · intro hn
      unfold withBeaconOne
      simp only []
      rw [hnone.mpr hn]
      exact h0

/-- when no reported record has a matching candidate, `BeaconConfig.from_file` ends in
`ValueError("No valid Beacon configuration found")`; the fallback raises nothing else. -/
theorem no_match_valueError (f : PyFile) (bufSize : Nat) :
    (∀ ms, iterGuardrailConfigs f = .ok ms → ∀ m ∈ ms, NoMatch bufSize m) →
      fromFileFallback f bufSize = .error .valueError := by
  intro h
  obtain ⟨ms, hms⟩ := iterGuardrailConfigs_total f defaultGuardXorKey
  unfold fromFileFallback iterGuardrailConfigsWithBeacon
  rw [hms]
  simp only []
  have : (ms.map (withBeaconOne bufSize)).find? Meta.hasConfig = none := by
    rw [List.find?_eq_none]
    intro m' hm'
    simp only [List.mem_map] at hm'
    obtain ⟨m0, hm0, rfl⟩ := hm'
    have h0 := (scan_unmasked_none hms hm0).1
    have := ((no_match_metadata_only bufSize m0 h0).2).mpr (h ms hms m0 hm0)
    simp [Meta.hasConfig, this]
  rw [this]

theorem fallback_errors_only_valueError (f : PyFile) (bufSize : Nat) (e : PyExc)
    (h : fromFileFallback f bufSize = .error e) : e = .valueError := by
  obtain ⟨ms, hms⟩ := iterGuardrailConfigs_total f defaultGuardXorKey
  unfold fromFileFallback iterGuardrailConfigsWithBeacon at h
  rw [hms] at h
  simp only [] at h
  split at h
  · cases h
  · injection h with h; exact h.symm

/-! ### key candidates and recovery -/

/-- every candidate key has a length in 2..256 -/
theorem candidates_length (bufSize : Nat) (data : Bytes) :
    ∀ k ∈ findXorKeyCandidates data bufSize, 2 ≤ k.length ∧ k.length ≤ 256 := by
  intro k hk
  unfold findXorKeyCandidates at hk
  simp only [List.mem_flatMap, List.mem_range'_1] at hk
  obtain ⟨n, hn, hkn⟩ := hk
  have := candidatesAt_length bufSize data n k hkn
  omega

/-- **key_is_candidate**: if the environmental key `K` (2 ≤ |K| ≤ 256) is the strictly most common aligned |K|-gram of
the guarded configuration (as the Counter sees it: per `bufSize` chunk, last gram zero-filled) — e.g. because the zero
padding of the configuration dominates, see `majority_strict` — it is the one and only key yielded for `keylen = |K|`. -/
theorem key_is_candidate (bufSize : Nat) (guarded K : Bytes) (h2 : 2 ≤ K.length) (h256 : K.length ≤ 256)
    (hdom : StrictlyMostCommon K (gramsOf bufSize K.length guarded)) :
    candidatesAt bufSize guarded K.length = [K] ∧ K ∈ findXorKeyCandidates guarded bufSize := by
  have h1 := candidatesAt_strict bufSize guarded K K.length hdom
  refine ⟨h1, ?_⟩
  rw [candidates_split bufSize guarded K.length h2 h256, h1]
  simp

/-- a sufficient condition for dominance: more than half of all aligned grams equal `K` -/
theorem majority_is_candidate (bufSize : Nat) (guarded K : Bytes) (h2 : 2 ≤ K.length) (h256 : K.length ≤ 256)
    (hmaj : (gramsOf bufSize K.length guarded).length < 2 * (gramsOf bufSize K.length guarded).count K) :
    K ∈ findXorKeyCandidates guarded bufSize :=
  (key_is_candidate bufSize guarded K h2 h256 (majority_strict K _ hmaj)).2

/-- **zero padding dominates ⇒ the key is a candidate**: when (discounting a partial last gram) more than half of the
aligned |K|-grams of the configuration are all-zero — the normal situation, a configuration being a few hundred bytes of
settings padded with zeros to 6144 — the environmental key is the strictly most common gram of the guarded configuration. -/
theorem zero_padding_dominates (bufSize : Nat) (cfg K : Bytes) (hcfg : cfg ≠ []) (hbuf : cfg.length ≤ bufSize)
    (hz : (grouper K.length cfg).length + 2 < 2 * (grouper K.length cfg).count (List.replicate K.length 0)) :
    StrictlyMostCommon K (gramsOf bufSize K.length (C20.xor cfg K)) := by
  have hne : C20.xor cfg K ≠ [] := by
    intro e
    have := congrArg List.length e
    rw [xor_length] at this
    exact hcfg (List.length_eq_zero_iff.mp this)
  unfold gramsOf
  rw [chunks_single _ _ hne (by rw [xor_length]; exact hbuf)]
  simp only [List.flatMap_cons, List.flatMap_nil, List.append_nil]
  apply majority_strict
  rw [grouper_xor_length]
  have := zero_grams_le K cfg
  split at this <;> omega

/-- no candidate of a shorter key length collides on the (weak) checksum -/
def NoEarlierChecksumHit (bufSize : Nat) (guarded : Bytes) (stored L : Nat) : Prop :=
  ∀ k ∈ (List.range' 2 (L - 2)).flatMap (candidatesAt bufSize guarded),
    stored ≠ payloadChecksum (C20.xor guarded k) + 1

/-- **recover_partial** (record level): for a configuration `cfg` masked with the environmental key `K` and 0x2e, whose
guard configuration stores `payload_checksum(cfg) + 1`, under `key_is_candidate`'s dominance hypothesis and
`NoEarlierChecksumHit`, the record is completed with exactly `K` and `cfg`; everything else is left as the scan
reported it. -/
theorem recover_partial (bufSize : Nat) (cfg K : Bytes) (m : Meta)
    (h2 : 2 ≤ K.length) (h256 : K.length ≤ 256)
    (hmasked : m.maskedBeaconConfig = C20.xor (C20.xor cfg K) beaconXorKey)
    (hstored : m.checksum = payloadChecksum cfg + 1)
    (hdom : StrictlyMostCommon K (gramsOf bufSize K.length (C20.xor cfg K)))
    (hno : NoEarlierChecksumHit bufSize (C20.xor cfg K) m.checksum K.length) :
    withBeaconOne bufSize m =
      { m with beaconXorKey := beaconXorKey, payloadXorKey := some K, unmaskedBeaconConfig := some cfg } := by
  unfold withBeaconOne
  simp only []
  have hg : C20.xor m.maskedBeaconConfig beaconXorKey = C20.xor cfg K := by rw [hmasked, xor_involutive]
  rw [hg, candidates_split bufSize _ K.length h2 h256, candidatesAt_strict bufSize _ K K.length hdom]
  have hK : m.checksum = payloadChecksum (C20.xor (C20.xor cfg K) K) + 1 := by rw [xor_involutive]; exact hstored
  have := selectKey_first_hit (C20.xor cfg K) m.checksum
    ((List.range' 2 (K.length - 2)).flatMap (candidatesAt bufSize (C20.xor cfg K)))
    ((List.range' (K.length + 1) (256 - K.length)).flatMap (candidatesAt bufSize (C20.xor cfg K))) K hno hK
  simp only [List.append_assoc, List.singleton_append]
  rw [this, xor_involutive]

/-- no record reported in front of the protected area yields a configuration (chance marker matches that also pass the
checksum test are excluded) -/
def NoEarlierRecord (bufSize : Nat) (data : Bytes) (limit : Nat) : Prop :=
  ∀ off, off < limit → ∀ m, probeAt data (maskedStarts defaultGuardXorKey) 6 defaultGuardXorKey off = some m →
    (withBeaconOne bufSize m).hasConfig = false

/-- **recover_partial** (end to end, `BeaconConfig.from_file` fallback): the payload `pre ++ protected area ++ post`
built from `cfg` (6144 bytes, not empty), key `K`, and a 2048-byte guard configuration `gc` that starts with a known
setting and stores `payload_checksum(cfg) + 1` is decoded to (cfg, K, guard settings, offsets). -/
theorem recover_from_file_partial (bufSize : Nat) (pre post cfg K gc : Bytes)
    (hcfg : cfg.length = BEACON_CONFIG_PATCH_SIZE) (hgc : gc.length = GUARD_PATCH_SIZE)
    (h2 : 2 ≤ K.length) (h256 : K.length ≤ 256)
    (hstart : gc.take 6 ∈ GUARD_CONFIG_STARTS)
    (hstored : (settingsPure gc [] 0).2 = payloadChecksum cfg + 1)
    (hdom : StrictlyMostCommon K (gramsOf bufSize K.length (C20.xor cfg K)))
    (hno : NoEarlierChecksumHit bufSize (C20.xor cfg K) (payloadChecksum cfg + 1) K.length)
    (hfirst : NoEarlierRecord bufSize
      (pre ++ C20.xor (C20.xor cfg K) beaconXorKey ++ maskGuard gc defaultGuardXorKey (C20.xor (C20.xor cfg K) beaconXorKey) ++ post)
      (pre.length + (BEACON_CONFIG_PATCH_SIZE - 6))) :
    fromFileFallback (PyFile.ofBytes
      (pre ++ C20.xor (C20.xor cfg K) beaconXorKey ++ maskGuard gc defaultGuardXorKey (C20.xor (C20.xor cfg K) beaconXorKey) ++ post)) bufSize
      = .ok { areaMeta pre (C20.xor (C20.xor cfg K) beaconXorKey) gc defaultGuardXorKey with
                beaconXorKey := beaconXorKey, payloadXorKey := some K, unmaskedBeaconConfig := some cfg } := by
  have hB : BEACON_CONFIG_PATCH_SIZE = 6144 := rfl
  have hG : GUARD_PATCH_SIZE = 2048 := rfl
  generalize hmb : C20.xor (C20.xor cfg K) beaconXorKey = mb at *
  have hmbl : mb.length = BEACON_CONFIG_PATCH_SIZE := by rw [← hmb, xor_length, xor_length, hcfg]
  have hmg : (maskGuard gc defaultGuardXorKey mb).length = 2048 := by simp [maskGuard, xor_length, hgc, hG]
  generalize hdata : pre ++ mb ++ maskGuard gc defaultGuardXorKey mb ++ post = data at *
  have hlen : pre.length + (BEACON_CONFIG_PATCH_SIZE - 6) < data.length := by
    rw [← hdata]; simp [hmbl, hmg, hB]; omega
  -- what the scan reports at the area's marker offset, and what the key search makes of it
  have hprobe : probeAt data (maskedStarts defaultGuardXorKey) 6 defaultGuardXorKey (pre.length + (BEACON_CONFIG_PATCH_SIZE - 6))
      = some (areaMeta pre mb gc defaultGuardXorKey) := by
    unfold probeAt
    have hm := area_marker pre mb gc defaultGuardXorKey post hmbl hgc hstart
    rw [hdata] at hm
    rw [if_pos ⟨hm, by omega⟩]
    have e1 : pre.length + (BEACON_CONFIG_PATCH_SIZE - 6) + 6 = pre.length + BEACON_CONFIG_PATCH_SIZE := by omega
    have e2 : pre.length + BEACON_CONFIG_PATCH_SIZE - BEACON_CONFIG_PATCH_SIZE = pre.length := by omega
    rw [e1, e2, ← hdata, area_metaAt pre mb gc defaultGuardXorKey post hmbl hgc]
  have hrec := recover_partial bufSize cfg K (areaMeta pre mb gc defaultGuardXorKey) h2 h256
    (by rw [← hmb]; rfl) hstored hdom (by unfold areaMeta; simp only []; rw [hstored]; exact hno)
  -- run the fallback
  unfold fromFileFallback iterGuardrailConfigsWithBeacon
  rw [iterGuardrailConfigs_eq]
  simp only [PyFile.ofBytes]
  have hsplit := range_split data.length (pre.length + (BEACON_CONFIG_PATCH_SIZE - 6)) hlen
  rw [hsplit, List.filterMap_append, List.filterMap_cons, hprobe, List.map_append, List.map_cons, List.find?_append]
  have hnone : (List.map (withBeaconOne bufSize) (List.filterMap (probeAt data (maskedStarts defaultGuardXorKey) 6 defaultGuardXorKey)
      (List.range' 0 (pre.length + (BEACON_CONFIG_PATCH_SIZE - 6))))).find? Meta.hasConfig = none := by
    rw [List.find?_eq_none]
    intro m' hm'
    simp only [List.mem_map, List.mem_filterMap, List.mem_range'_1] at hm'
    obtain ⟨m0, ⟨off, hoff, hp⟩, rfl⟩ := hm'
    have := hfirst off (by omega) m0 hp
    simp [this]
  rw [hnone, hrec]
  have hne : cfg ≠ [] := by
    intro e; rw [e] at hcfg; simp [hB] at hcfg
  have hhas : Meta.hasConfig { areaMeta pre mb gc defaultGuardXorKey with
      beaconXorKey := beaconXorKey, payloadXorKey := some K, unmaskedBeaconConfig := some cfg } = true := by
    unfold Meta.hasConfig
    cases cfg with
    | nil => exact absurd rfl hne
    | cons b bs => rfl
  rw [List.find?_cons_of_pos hhas]
  rfl

/-! ### periodic keys -/

/-- a key that is `m` copies of a shorter root masks exactly like the root -/
theorem xor_periodic (d R : Bytes) (m : Nat) (hm : 0 < m) :
    C20.xor d ((List.replicate m R).flatten) = C20.xor d R := by
  apply List.ext_getElem
  · simp [xor_length]
  · intro i h1 h2
    rw [xor_getElem, xor_getElem, keyAt_tile R m hm]

/-- **periodic keys are recovered up to their primitive root**: when the environmental key is `m` copies of `R`
(2 ≤ |R|), the record is completed with `R` (found at `keylen = |R|`, before `|K|` is tried) and the same configuration;
for `m ≥ 2` the reported key therefore differs from `K`. -/
theorem recover_periodic (bufSize : Nat) (cfg R : Bytes) (n : Nat) (m : Meta) (hn : 0 < n)
    (h2 : 2 ≤ R.length) (h256 : R.length ≤ 256)
    (hmasked : m.maskedBeaconConfig = C20.xor (C20.xor cfg ((List.replicate n R).flatten)) beaconXorKey)
    (hstored : m.checksum = payloadChecksum cfg + 1)
    (hdom : StrictlyMostCommon R (gramsOf bufSize R.length (C20.xor cfg R)))
    (hno : NoEarlierChecksumHit bufSize (C20.xor cfg R) m.checksum R.length) :
    withBeaconOne bufSize m =
      { m with beaconXorKey := beaconXorKey, payloadXorKey := some R, unmaskedBeaconConfig := some cfg } ∧
    (2 ≤ n → R ≠ (List.replicate n R).flatten) := by
  constructor
  · rw [xor_periodic cfg R n hn] at hmasked
    exact recover_partial bufSize cfg R m h2 h256 hmasked hstored hdom hno
  · intro hn2 e
    have := congrArg List.length e
    simp at this
    have : 2 * R.length ≤ n * R.length := Nat.mul_le_mul_right _ hn2
    omega

/-! ### the full-strength statement and why it is not a theorem -/

/-- Full strength (record level): every 6144-byte configuration masked with any key of 2..256 bytes whose guard
configuration stores `payload_checksum(cfg) + 1` is completed with exactly (K, cfg). -/
def recover_full : Prop :=
  ∀ (bufSize : Nat) (cfg K : Bytes) (m : Meta), cfg.length = BEACON_CONFIG_PATCH_SIZE → 2 ≤ K.length → K.length ≤ 256 →
    m.maskedBeaconConfig = C20.xor (C20.xor cfg K) beaconXorKey → m.checksum = payloadChecksum cfg + 1 →
    withBeaconOne bufSize m =
      { m with beaconXorKey := beaconXorKey, payloadXorKey := some K, unmaskedBeaconConfig := some cfg }

def cexCfg : Bytes := List.replicate BEACON_CONFIG_PATCH_SIZE 0
def cexR : Bytes := [1, 2]
def cexMeta : Meta :=
  { beaconConfigOffset := 0, guardConfigOffset := BEACON_CONFIG_PATCH_SIZE
    maskedBeaconConfig := C20.xor (C20.xor cexCfg ((List.replicate 2 cexR).flatten)) beaconXorKey
    maskedGuardConfig := [], beaconXorKey := beaconXorKey, guardrailXorKey := defaultGuardXorKey
    unmaskedGuardConfig := [], checksum := payloadChecksum cexCfg + 1, payloadXorKey := none
    unmaskedBeaconConfig := none, settings := [] }


theorem cexCfg_length : cexCfg.length = BEACON_CONFIG_PATCH_SIZE := by
  unfold cexCfg; exact List.length_replicate

theorem cex_xor : C20.xor cexCfg cexR = (List.replicate 3072 cexR).flatten := by
  apply List.ext_getElem
  · rw [xor_length, length_flatten_replicate, cexCfg_length]; rfl
  · intro i h1 h2
    rw [xor_getElem, flatten_replicate_getElem cexR 3072 i h2 (by decide)]
    simp only [cexCfg, List.getElem_replicate, UInt8.zero_xor, C20.keyAt]
    rw [← List.getElem_eq_getD]

theorem cex_grams : gramsOf DEFAULT_BUFFER_SIZE cexR.length (C20.xor cexCfg cexR) = List.replicate 3072 cexR := by
  unfold gramsOf
  have hne : (List.replicate 3072 cexR).flatten ≠ [] := by
    intro e
    have := congrArg List.length e
    rw [length_flatten_replicate] at this
    cases this
  have hle : ((List.replicate 3072 cexR).flatten).length ≤ DEFAULT_BUFFER_SIZE := by
    rw [length_flatten_replicate]; decide
  rw [cex_xor, chunks_single _ _ hne hle]
  simp only [List.flatMap_cons, List.flatMap_nil, List.append_nil]
  exact grouper_tiled cexR (by decide) 3072

theorem cex_key_len : 2 ≤ ((List.replicate 2 cexR).flatten).length ∧ ((List.replicate 2 cexR).flatten).length ≤ 256 := by
  rw [length_flatten_replicate]; decide

theorem cex_masked : cexMeta.maskedBeaconConfig
    = C20.xor (C20.xor cexCfg ((List.replicate 2 cexR).flatten)) beaconXorKey := by simp only [cexMeta]

theorem cex_stored : cexMeta.checksum = payloadChecksum cexCfg + 1 := by simp only [cexMeta]

/-- counterexample: an all-zero configuration under the key 01 02 01 02 is reported with the key 01 02 -/
theorem recover_full_fails : ¬ recover_full := by
  intro h
  have hfull := h DEFAULT_BUFFER_SIZE cexCfg ((List.replicate 2 cexR).flatten) cexMeta cexCfg_length
    cex_key_len.1 cex_key_len.2 cex_masked cex_stored
  have hper := (recover_periodic DEFAULT_BUFFER_SIZE cexCfg cexR 2 cexMeta (by decide) (by decide) (by decide) cex_masked cex_stored
    (by rw [cex_grams]; exact all_same_strict cexR 3072 (by decide))
    (by intro k hk; simp [cexR] at hk)).1
  rw [hper] at hfull
  have := congrArg Meta.payloadXorKey hfull
  simp [cexR] at this

/-! ### non-vacuity: concrete inputs meeting the hypotheses -/

/-- marker_found: a 6144-byte area and a 2048-byte guard configuration `GUARD_COMPUTER, TYPE_SHORT, 2, 00 01, 00 00 …` -/
example : ∃ mb gc : Bytes, mb.length = BEACON_CONFIG_PATCH_SIZE ∧ gc.length = GUARD_PATCH_SIZE ∧
    gc.take 6 ∈ GUARD_CONFIG_STARTS :=
  ⟨List.replicate BEACON_CONFIG_PATCH_SIZE 7, [0, 6, 0, 1, 0, 2] ++ List.replicate 2042 0, List.length_replicate,
    by rw [List.length_append, List.length_replicate]; rfl, by rw [List.take_append_of_le_length (by decide)]; decide⟩

/-- the marker relation on a 12-byte block: reverse(a) xor b is the masked GUARD_COMPUTER start -/
example : C20.xor [0x11, 0x22, 0x33, 0x44, 0x55, 0x66].reverse [0xec, 0xd9, 0xce, 0xb8, 0xa8, 0x99]
    ∈ maskedStarts defaultGuardXorKey := by decide

/-- guard settings loop: two settings, terminator, trailing garbage ignored; the checksum is option 9's value -/
example : settingsLoop [0, 6, 0, 1, 0, 2, 0xab, 0xcd, 0, 9, 0, 2, 0, 4, 0, 0x0a, 0x5a, 0xd1, 0, 0, 0x3f, 0xeb] [] 0
    = .ok ([⟨6, 1, 2, [0xab, 0xcd]⟩, ⟨9, 2, 4, [0, 0x0a, 0x5a, 0xd1]⟩], 0xa5ad1) := by
  rw [settingsLoop_eq]
  simp [settingsPure, parseSetting, readU16, readExact, GUARD_PAYLOAD_CHECKSUM, u32be, C20.fromBytesU, C20.fromLE]

/-- unterminated guard configuration: the EOFError of the truncated last setting ends the loop -/
example : settingsLoop [0, 5, 0, 1, 0, 2, 1, 2, 0, 7, 0, 1, 0, 9, 1] [] 0 = .ok ([⟨5, 1, 2, [1, 2]⟩], 0) := by
  rw [settingsLoop_eq]
  simp [settingsPure, parseSetting, readU16, readExact, GUARD_PAYLOAD_CHECKSUM]

/-- payload_checksum: weights 1,2,3,1 -/
example : payloadChecksum [1, 1, 1, 255] = 1 + 2 + 3 + 255 := by decide

/-- key_is_candidate / recover_partial hypotheses on a small record: configuration 00 01 00 00 00 00 00 00, key 05 06 -/
theorem small_grams : gramsOf DEFAULT_BUFFER_SIZE ([5, 6] : Bytes).length (C20.xor [0, 1, 0, 0, 0, 0, 0, 0] [5, 6])
    = [[5, 7], [5, 6], [5, 6], [5, 6]] := by
  have : C20.xor [0, 1, 0, 0, 0, 0, 0, 0] [5, 6] = [5, 7, 5, 6, 5, 6, 5, 6] := by decide
  rw [this]
  unfold gramsOf
  rw [chunks_single _ _ (by simp) (by simp [DEFAULT_BUFFER_SIZE])]
  simp [grouper]

/-- recover_partial applies: the record is completed with key 05 06 and the configuration 00 01 00 … -/
example : withBeaconOne DEFAULT_BUFFER_SIZE
      { beaconConfigOffset := 0, guardConfigOffset := 8, maskedBeaconConfig := C20.xor (C20.xor [0, 1, 0, 0, 0, 0, 0, 0] [5, 6]) beaconXorKey,
        maskedGuardConfig := [], beaconXorKey := [], guardrailXorKey := [], unmaskedGuardConfig := [], checksum := 3,
        payloadXorKey := none, unmaskedBeaconConfig := none, settings := [] }
    = { beaconConfigOffset := 0, guardConfigOffset := 8, maskedBeaconConfig := C20.xor (C20.xor [0, 1, 0, 0, 0, 0, 0, 0] [5, 6]) beaconXorKey,
        maskedGuardConfig := [], beaconXorKey := beaconXorKey, guardrailXorKey := [], unmaskedGuardConfig := [], checksum := 3,
        payloadXorKey := some [5, 6], unmaskedBeaconConfig := some [0, 1, 0, 0, 0, 0, 0, 0], settings := [] } := by
  apply recover_partial DEFAULT_BUFFER_SIZE [0, 1, 0, 0, 0, 0, 0, 0] [5, 6] _ (by decide) (by decide) rfl (by decide)
  · rw [small_grams]; exact majority_strict _ _ (by decide)
  · intro k hk; simp at hk

/-- no_match_metadata_only: a record without checksum setting (stored checksum 0) never matches -/
example (bufSize : Nat) (m : Meta) (h : m.checksum = 0) : NoMatch bufSize m := by
  intro k _; rw [h]; omega

/-- zero_padding_dominates: a 14-byte "configuration" with six zero 2-grams out of seven -/
example : StrictlyMostCommon [5, 6] (gramsOf DEFAULT_BUFFER_SIZE 2 (C20.xor [0, 1, 0, 0, 0, 0, 0, 0, 0, 0, 0, 0, 0, 0] [5, 6])) :=
  zero_padding_dominates DEFAULT_BUFFER_SIZE [0, 1, 0, 0, 0, 0, 0, 0, 0, 0, 0, 0, 0, 0] [5, 6] (by simp)
    (by simp [DEFAULT_BUFFER_SIZE]) (by simp [grouper])

end C17

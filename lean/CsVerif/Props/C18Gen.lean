import CsVerif.Lemmas.C18Gen
import CsVerif.Props.C18
/-!
C18 — the six PE helpers of pe.py TRANSLATED from their source text (`Gen/PyPe.lean`, regenerated on every run by
tools/gen/py_pe.py with the untyped translator tools/py2leanu.py) equal the hand-written model of `Model/C18.lean`, so the
theorems of `Props/C18.lean` are theorems about what pe.py says now.

Domain of the `gen_*` theorems: EVERY file object of the model (`PyFile`: any content, any position, `io.BytesIO` or a regular file),
`start_offset` `None` or any non-negative int, `maxrange` any non-negative int (the domain of the hand-written model); the
`gen_*_any_int` theorems extend this to ANY int `start_offset` and ANY int `maxrange` (against `C18.Generic.*` over Python file objects).  The translated definition answers the Python tuple
`(result, file object afterwards)`: both the reported value and the position the helper leaves behind are part of the statement.
A helper that raises answers the exception alone (`encPy`; the file is then not observable through the translated definition).
The struct reads are `PyU.t18Read(E)` on the layouts `Gen.PyPe.IMAGE_*` (introspected, every field the code reads); the proofs connect
them to `C18.readStruct` + `C18.fieldVal` on the layouts of `Gen/PeStruct.lean` (both regenerated from the same loaded cstruct classes).
-/
namespace C18Gen
open PyU (V)
open C15Gen (encFile encOptNat)
open Gen.PeStruct

/-! ## the translated definitions equal the model -/

/-- `pe.find_mz_offset`, translated from its source = `C18.findMzOffset` (value and file afterwards) -/
theorem gen_find_mz_offset (f : PyFile) (start : Option Nat) (maxrange : Nat) :
    Gen.PyPe.find_mz_offset (encFile f) (encOptNat start) (.int (maxrange : Int))
      = encRes encOptNat (C18.findMzOffset f start maxrange) :=
  gen_find_mz_offset_proof f start maxrange

/-- `pe.find_architecture` = `C18.findArchitecture` -/
theorem gen_find_architecture (f : PyFile) (start : Option Nat) (maxrange : Nat) :
    Gen.PyPe.find_architecture (encFile f) (encOptNat start) (.int (maxrange : Int))
      = encRes encArch (C18.findArchitecture f start maxrange) :=
  gen_find_architecture_proof f start maxrange

/-- `pe.find_compile_stamps` = `C18.findCompileStamps`, including the `try … except EOFError: pass` that reports what was read
so far, the section loop with its chained comparison, and the uncaught ValueError / OSError of a negative seek -/
theorem gen_find_compile_stamps (f : PyFile) (start : Option Nat) (maxrange : Nat) :
    Gen.PyPe.find_compile_stamps (encFile f) (encOptNat start) (.int (maxrange : Int))
      = encPy encStamps (C18.findCompileStamps f start maxrange) :=
  gen_find_compile_stamps_proof f start maxrange

/-- `pe.find_magic_mz` = `C18.findMagicMz` -/
theorem gen_find_magic_mz (f : PyFile) (start : Option Nat) (maxrange : Nat) :
    Gen.PyPe.find_magic_mz (encFile f) (encOptNat start) (.int (maxrange : Int))
      = encRes encOptBytes (C18.findMagicMz f start maxrange) :=
  gen_find_magic_mz_proof f start maxrange

/-- `pe.find_magic_pe` = `C18.findMagicPe` (no `try`: the EOFError of the struct read escapes) -/
theorem gen_find_magic_pe (f : PyFile) (start : Option Nat) (maxrange : Nat) :
    Gen.PyPe.find_magic_pe (encFile f) (encOptNat start) (.int (maxrange : Int))
      = encPy encOptBytes (C18.findMagicPe f start maxrange) :=
  gen_find_magic_pe_proof f start maxrange

/-- `pe.find_stage_prepend_append` = `C18.findStagePrependAppend`; the handler of `except (OSError, OverflowError, ValueError)`
around `fh.seek(mz_offset + size)` is never entered on a model file: the offset is a sum of unsigned fields -/
theorem gen_find_stage_prepend_append (f : PyFile) (start : Option Nat) (maxrange : Nat) :
    Gen.PyPe.find_stage_prepend_append (encFile f) (encOptNat start) (.int (maxrange : Int))
      = encPy encPair (C18.findStagePrependAppend f start maxrange) :=
  gen_find_stage_prepend_append_proof f start maxrange

/-- all six at once, in the form the stage theorems use -/
theorem gen_pe_call (f : PyFile) (start : Option Nat) (maxrange : Nat) (op : C18.PeOp) :
    peCallG f start maxrange op = encOut (C18.peCall f start maxrange op) := by
  cases op
  · exact gen_find_mz_offset f start maxrange
  · exact gen_find_architecture f start maxrange
  · exact gen_find_compile_stamps f start maxrange
  · exact gen_find_magic_mz f start maxrange
  · exact gen_find_magic_pe f start maxrange
  · exact gen_find_stage_prepend_append f start maxrange

/-- the defaults the SOURCE gives `start_offset` / `maxrange` are the documented ones (0 and 1024), for every helper -/
theorem gen_pe_defaults (op : C18.PeOp) : dfltStart op = .int 0 ∧ dfltMaxrange op = .int 1024 := by
  cases op <;> exact ⟨rfl, rfl⟩

/-! ### every int argument

`start_offset` is `None` or ANY int and `maxrange` ANY int: the translated helper equals the file-like-generic model
(`C18.Generic.*` over `C18.pyFileLike` — the model C01 / C09 run over the XorEncoded view; `C18.generic_agrees` identifies it with the
`PyFile` model for non-negative arguments).  A `maxrange ≤ 0` searches nothing (and touches nothing), a negative `start_offset` with
`maxrange > 0` is the ValueError (`io.BytesIO`) / OSError (file) of the first `fh.seek`. -/

theorem gen_find_mz_offset_any_int (f : PyFile) (start : Option Int) (m : Int) :
    Gen.PyPe.find_mz_offset (encFile f) (C15Gen.encOptInt start) (.int m)
      = encGen encOptI (C18.Generic.findMzOffset C18.pyFileLike f start m.toNat) :=
  gen_find_mz_offset_all f start m

theorem gen_find_architecture_any_int (f : PyFile) (start : Option Int) (m : Int) :
    Gen.PyPe.find_architecture (encFile f) (C15Gen.encOptInt start) (.int m)
      = encGen encArch (C18.Generic.findArchitecture C18.pyFileLike f start m.toNat) :=
  gen_find_architecture_all f start m

theorem gen_find_compile_stamps_any_int (f : PyFile) (start : Option Int) (m : Int) :
    Gen.PyPe.find_compile_stamps (encFile f) (C15Gen.encOptInt start) (.int m)
      = encGen encStamps (C18.Generic.findCompileStamps C18.pyFileLike f start m.toNat) :=
  gen_find_compile_stamps_all f start m

theorem gen_find_magic_mz_any_int (f : PyFile) (start : Option Int) (m : Int) :
    Gen.PyPe.find_magic_mz (encFile f) (C15Gen.encOptInt start) (.int m)
      = encGen encOptBytes (C18.Generic.findMagicMz C18.pyFileLike f start m.toNat) :=
  gen_find_magic_mz_all f start m

theorem gen_find_magic_pe_any_int (f : PyFile) (start : Option Int) (m : Int) :
    Gen.PyPe.find_magic_pe (encFile f) (C15Gen.encOptInt start) (.int m)
      = encGen encOptBytes (C18.Generic.findMagicPe C18.pyFileLike f start m.toNat) :=
  gen_find_magic_pe_all f start m

theorem gen_find_stage_prepend_append_any_int (f : PyFile) (start : Option Int) (m : Int) :
    Gen.PyPe.find_stage_prepend_append (encFile f) (C15Gen.encOptInt start) (.int m)
      = encGen encPair (C18.Generic.findStagePrependAppend C18.pyFileLike f start m.toNat) :=
  gen_find_stage_prepend_append_all f start m

/-! ## the property theorems of `Props/C18.lean`, for the translated definitions -/

/-- `stage_call_at`: every translated helper on a stage `J ++ P ++ I` searched from `start_offset = |J|` reports the artifacts
of the image and leaves the file at `|J| + |P| + Img.endPos I op` — for every initial position and both file kinds -/
theorem gen_stage_call_at {J P I : Bytes} {maxrange : Nat} (h : C18.StageAt J P I maxrange)
    (hc : C18.Img.headersEnd I ≤ I.length) (pos : Nat) (k : FileKind) (op : C18.PeOp) :
    peCallG ⟨J ++ P ++ I, pos, k⟩ (some J.length) maxrange op
      = encOut (C18.stageAnswerAt J P I op, ⟨J ++ P ++ I, J.length + P.length + C18.Img.endPos I op, k⟩) := by
  rw [gen_pe_call, C18.stage_call_at h hc pos k op]

/-- `mz_found_at` for the translated definitions: absolute offset, architecture, stamps, magic bytes, prepend / append -/
theorem gen_mz_found_at {J P I : Bytes} {maxrange : Nat} (h : C18.StageAt J P I maxrange)
    (hc : C18.Img.headersEnd I ≤ I.length) (pos : Nat) (k : FileKind) :
    let fh := encFile ⟨J ++ P ++ I, pos, k⟩
    let s := V.int (J.length : Int)
    let m := V.int (maxrange : Int)
    (∃ f', Gen.PyPe.find_mz_offset fh s m = .ok (.tuple [.int ((J.length + P.length : Nat) : Int), f'])) ∧
    (∃ f', Gen.PyPe.find_architecture fh s m = .ok (.tuple [PyU.lit (C18.Img.arch I).name, f'])) ∧
    (∃ f', Gen.PyPe.find_compile_stamps fh s m
        = .ok (.tuple [.tuple [.int (C18.Img.compileStamp I), encOptI (C18.Img.exportStamp I)], f'])) ∧
    (∃ f', Gen.PyPe.find_magic_mz fh s m = .ok (.tuple [encOptBytes (C18.Img.magicMz I), f'])) ∧
    (∃ f', Gen.PyPe.find_magic_pe fh s m = .ok (.tuple [.bytes (C18.Img.magicPe I), f'])) ∧
    (∃ f', Gen.PyPe.find_stage_prepend_append fh s m
        = .ok (.tuple [.tuple [encOptBytes (C18.prependOf (J ++ P)), encOptBytes (C18.Img.append I)], f'])) := by
  have key := fun op => gen_stage_call_at h hc pos k op
  refine ⟨⟨_, key .mz⟩, ⟨_, key .arch⟩, ⟨_, key .stamps⟩, ⟨_, key .mmz⟩, ⟨_, key .mpe⟩, ⟨_, key .ppa⟩⟩

/-- `pe_position_independent`: with an explicit `start_offset` the answer of a translated helper (value AND file afterwards, as soon
as `maxrange > 0`) does not depend on the position of the file object it is handed — for ARBITRARY content -/
theorem gen_pe_position_independent (op : C18.PeOp) (d : Bytes) (p q : Nat) (k : FileKind) (s maxrange : Nat) (hm : 0 < maxrange) :
    peCallG ⟨d, p, k⟩ (some s) maxrange op = peCallG ⟨d, q, k⟩ (some s) maxrange op := by
  rw [gen_pe_call, gen_pe_call, (C18.pe_position_independent op d p q k s maxrange).2 hm]

/-- `pe_start_none_is_tell`: `start_offset=None` is `start_offset=fh.tell()` -/
theorem gen_pe_start_none_is_tell (f : PyFile) (maxrange : Nat) (op : C18.PeOp) :
    peCallG f none maxrange op = peCallG f (some f.tell) maxrange op := by
  rw [gen_pe_call, gen_pe_call, C18.pe_start_none_is_tell]

/-- `pe_only_moves_position`: a translated helper that returns hands back the SAME bytes and kind of file object -/
theorem gen_pe_only_moves_position (f : PyFile) (start : Option Nat) (maxrange : Nat) (op : C18.PeOp) (x fv : V)
    (h : peCallG f start maxrange op = .ok (.tuple [x, fv])) :
    ∃ pos, fv = encFile ⟨f.data, pos, f.kind⟩ := by
  rw [gen_pe_call] at h
  obtain ⟨hd, hk⟩ := C18.pe_only_moves_position f start maxrange op
  generalize C18.peCall f start maxrange op = r at h hd hk
  obtain ⟨out, g⟩ := r
  have hg : encFile g = encFile ⟨f.data, g.pos, f.kind⟩ := by
    cases g; simp only at hd hk; subst hd; subst hk; rfl
  cases out with
  | mz r => injection h with h; injection h with h; simp only [List.cons.injEq, and_true] at h; exact ⟨g.pos, by rw [← h.2, hg]⟩
  | arch r => injection h with h; injection h with h; simp only [List.cons.injEq, and_true] at h; exact ⟨g.pos, by rw [← h.2, hg]⟩
  | mmz r => injection h with h; injection h with h; simp only [List.cons.injEq, and_true] at h; exact ⟨g.pos, by rw [← h.2, hg]⟩
  | stamps r =>
    cases r with
    | error e => cases h
    | ok a => injection h with h; injection h with h; simp only [List.cons.injEq, and_true] at h; exact ⟨g.pos, by rw [← h.2, hg]⟩
  | mpe r =>
    cases r with
    | error e => cases h
    | ok a => injection h with h; injection h with h; simp only [List.cons.injEq, and_true] at h; exact ⟨g.pos, by rw [← h.2, hg]⟩
  | ppa r =>
    cases r with
    | error e => cases h
    | ok a => injection h with h; injection h with h; simp only [List.cons.injEq, and_true] at h; exact ⟨g.pos, by rw [← h.2, hg]⟩

/-! ## version deduction: `BeaconVersion.from_pe_export_stamp` / `from_max_setting_enum`, `BeaconConfig.version`

The constructor `BeaconVersion(text)` (regex + strptime) is the EXTERNAL function `bv` of the translated definitions: the theorems hold
for ANY `bv`; `beaconVersionM` instantiates it with the model's `C18.parseVersion`.  `self.max_setting_enum` (translated and proved in
C02's unit: `C02Gen.gen_max_setting_enum`) is the external function `mse`. -/

/-- `BeaconVersion.from_pe_export_stamp(k)` = `BeaconVersion(PE_EXPORT_STAMP_TO_VERSION.get(k, "Unknown"))`, the dict being the generated
table; for every int `k`, every constructor, whatever `cls` is -/
theorem gen_from_pe_export_stamp (bv : V → Py V) (cls : V) (k : Int) :
    Gen.PyPe.from_pe_export_stamp bv cls (.int k) = bv (.str (C18.lookup Gen.Version.peExportStampEntries k)) :=
  gen_from_pe_export_stamp_proof bv cls k

theorem gen_from_max_setting_enum (bv : V → Py V) (cls : V) (k : Int) :
    Gen.PyPe.from_max_setting_enum bv cls (.int k) = bv (.str (C18.lookup Gen.Version.maxEnumEntries k)) :=
  gen_from_max_setting_enum_proof bv cls k

/-- `BeaconConfig.version`, translated from its source = `BeaconVersion(C18.configVersion stamp enums)`: for ANY constructor `bv`, any
object `self` whose `pe_export_stamp` is `None` or an int, and any `max_setting_enum` getter that answers the maximum of the setting
indices (ValueError when there are none — only evaluated when the stamp is falsy) -/
theorem gen_config_version (bv : V → Py V) (mse : V → Py V) (self : V) (stamp : Option Int) (enums : List Nat)
    (hattr : PyU.getAttr self "pe_export_stamp" = .ok (encOptI stamp))
    (hmse : mse self = (C18.maxEnumOf enums).map fun (n : Nat) => V.int (n : Int)) :
    Gen.PyPe.config_version bv mse self = (C18.configVersion stamp enums).bind (fun t => bv (.str t)) :=
  gen_config_version_proof bv mse self stamp enums hattr hmse

/-- … instantiated with the model's constructor and getter -/
theorem gen_config_version_model (stamp : Option Int) (enums : List Nat) :
    configVersionG stamp enums = (C18.configVersion stamp enums).bind (fun t => beaconVersionM (.str t)) :=
  gen_config_version_proof _ _ _ stamp enums rfl rfl

/-- `version_precedence` for the translated property: a table export stamp decides alone; any other non-zero stamp is "Unknown" whatever
the settings say; `None` / `0` fall through to the highest setting index; an empty configuration with a falsy stamp raises ValueError -/
theorem gen_version_precedence :
    (∀ e ∈ Gen.Version.peExportStampEntries, ∀ enums, configVersionG (some (e.key : Int)) enums = beaconVersionM (.str e.text)) ∧
    (∀ s : Int, s ≠ 0 → (∀ e ∈ Gen.Version.peExportStampEntries, (e.key : Int) ≠ s) →
      ∀ enums, configVersionG (some s) enums = beaconVersionM (.str Gen.Version.unknownText)) ∧
    (∀ (x : Nat) (xs : List Nat), configVersionG none (x :: xs)
        = beaconVersionM (.str (C18.lookup Gen.Version.maxEnumEntries ((xs.foldl max x : Nat) : Int))) ∧
      configVersionG (some 0) (x :: xs) = configVersionG none (x :: xs)) ∧
    configVersionG none [] = .error .valueError ∧ configVersionG (some 0) [] = .error .valueError := by
  obtain ⟨p1, p2, _, _, _⟩ := C18.version_precedence
  refine ⟨?_, ?_, ?_, by rw [gen_config_version_model]; rfl, by rw [gen_config_version_model]; rfl⟩
  · intro e he enums
    have hne : (e.key : Int) ≠ 0 := by
      have := (C18.table_shape).2.2.2.2 e he; omega
    rw [gen_config_version_model]
    have : C18.configVersion (some (e.key : Int)) enums = .ok e.text := by
      have h := p1 e he 0
      simp only [C18.versionFor, hne, ne_eq, not_false_eq_true, if_true] at h
      simp only [C18.configVersion, hne, ne_eq, not_false_eq_true, if_true, h]
    rw [this]; rfl
  · intro s hs habs enums
    rw [gen_config_version_model]
    have : C18.configVersion (some s) enums = .ok Gen.Version.unknownText := by
      have h := p2 s hs habs 0
      simp only [C18.versionFor, hs, ne_eq, not_false_eq_true, if_true] at h
      simp only [C18.configVersion, hs, ne_eq, not_false_eq_true, if_true, h]
    rw [this]; rfl
  · intro x xs
    rw [gen_config_version_model, gen_config_version_model, C18.config_version, C18.config_version]
    exact ⟨rfl, rfl⟩

/-! ## the translated definitions evaluated on concrete inputs (non-vacuity; independent of the theorems above) -/

/-- the sample stage of `Props/C18.lean` (3 bytes in front of an x86 image with one section, an export directory and two appended
bytes), `io.BytesIO` at position 0, documented defaults: the values and the positions left behind -/
example :
    let fh := encFile (PyFile.ofBytes (C18.samplePrepend ++ C18.sampleImage))
    Gen.PyPe.find_mz_offset_default2 fh = .ok (.tuple [.int 3, encFile ⟨C18.samplePrepend ++ C18.sampleImage, 3 + 88, .bytesIO⟩]) ∧
    Gen.PyPe.find_architecture_default2 fh = .ok (.tuple [PyU.lit "x86", encFile ⟨C18.samplePrepend ++ C18.sampleImage, 3 + 88, .bytesIO⟩]) ∧
    valOf (Gen.PyPe.find_compile_stamps_default2 fh) = some (.tuple [.int 0x5F94C216, .int 0x603E2D9D]) ∧
    valOf (Gen.PyPe.find_magic_mz_default2 fh) = some (.bytes [77, 90]) ∧
    valOf (Gen.PyPe.find_magic_pe_default2 fh) = some (.bytes [80, 69]) ∧
    valOf (Gen.PyPe.find_stage_prepend_append_default2 fh) = some (.tuple [.bytes [0x90, 0x90, 0xCC], .bytes [65, 66]]) ∧
    tellOf (Gen.PyPe.find_stage_prepend_append_default2 fh) = some (3 + 420) := by decide +kernel

/-- a regular file at position 7, a complete x64 image in front of `start_offset = 328`, `maxrange = 65` / `64` (`e_lfanew < maxrange`) -/
example :
    Gen.PyPe.find_mz_offset (encFile C18.sampleFileAt) (.int 328) (.int 65)
      = .ok (.tuple [.int 331, encFile ⟨C18.sampleFileAt.data, 331 + 88, .osFile⟩]) ∧
    valOf (Gen.PyPe.find_mz_offset (encFile C18.sampleFileAt) (.int 328) (.int 64)) = some .none ∧
    valOf (Gen.PyPe.find_architecture (encFile C18.sampleFileAt) (.int 0) (.int 65)) = some (PyU.lit "x64") := by decide +kernel

/-- truncated inside the optional header: the compile stamp that was read is reported, the export stamp is `None`; on an empty file
searched from `fh.tell()` every helper answers `None` and leaves the position where the last probe put it -/
example :
    valOf (Gen.PyPe.find_compile_stamps (encFile (PyFile.ofBytes ((C18.samplePrepend ++ C18.sampleImage).take 120))) (.int 0) (.int 1024))
      = some (.tuple [.int 0x5F94C216, .none]) ∧
    Gen.PyPe.find_stage_prepend_append (encFile (PyFile.ofBytes [])) V.none (.int 1024)
      = .ok (.tuple [.tuple [.none, .none], encFile ⟨[], 1023, .bytesIO⟩]) := by decide +kernel

/-- arguments of other kinds (only the translation can express them): a negative `start_offset` is the ValueError (BytesIO) / OSError
(file) of `fh.seek`, `maxrange=None` the TypeError of `range(None)`, a `str` where the file is expected has no `seek` -/
example :
    Gen.PyPe.find_mz_offset (encFile (PyFile.ofBytes [1, 2, 3])) (.int (-1)) (.int 8) = .error .valueError ∧
    Gen.PyPe.find_mz_offset (encFile ⟨[1, 2, 3], 0, .osFile⟩) (.int (-1)) (.int 8) = .error .osError ∧
    Gen.PyPe.find_architecture (encFile (PyFile.ofBytes [1, 2, 3])) (.int 0) V.none = .error .typeError ∧
    Gen.PyPe.find_magic_mz (PyU.lit "abc") (.int 0) (.int 8) = .error .attributeError ∧
    Gen.PyPe.find_magic_mz (PyU.lit "abc") (.int 0) (.int 0) = .ok (.tuple [V.none, PyU.lit "abc"]) := by decide +kernel

/-- the version of a configuration: export stamp in the table, stamp 0 / None (highest setting index 20), an unknown stamp -/
example :
    configVersionG (some 0x5F94C216) [20]
      = .ok (encVersion (C18.toTxt "Cobalt Strike 4.2 (Nov 06, 2020)") (some ⟨[4, 2], ⟨2020, 11, 6⟩⟩)) ∧
    configVersionG none [1, 20, 7]
      = .ok (encVersion (C18.toTxt "Cobalt Strike 3.4 (Jul 29, 2016)") (some ⟨[3, 4], ⟨2016, 7, 29⟩⟩)) ∧
    configVersionG (some 0) [78] = .ok (encVersion (C18.toTxt "Cobalt Strike 4.10 (Jul 16, 2024)") (some ⟨[4, 10], ⟨2024, 7, 16⟩⟩)) ∧
    configVersionG (some 12345) [78] = .ok (encVersion (C18.toTxt "Unknown") none) ∧
    configVersionG none [] = .error .valueError ∧
    -- arguments of other kinds: a `str` stamp is truthy and not a key (→ "Unknown"); a list is unhashable (TypeError of `dict.get`)
    Gen.PyPe.from_pe_export_stamp beaconVersionM V.none (PyU.lit "x") = .ok (encVersion (C18.toTxt "Unknown") none) ∧
    Gen.PyPe.from_pe_export_stamp beaconVersionM V.none (.list []) = .error .typeError := by decide +kernel

end C18Gen

import CsVerif.Lemmas.C05
/-! C05 property theorems: packet encryption round-trips, is authenticated before decryption,
and the two framings split a stream back into exactly the packets concatenated.

`c : Crypto` are the primitives (AES-CBC, HMAC-SHA256) as parameters; `CryptoLaws c` are the only
assumptions about them and are used only where a theorem lists them. -/
namespace C05
open C20

/-! ### the assumptions are satisfiable -/

theorem cryptoLaws_satisfiable : ∃ c : Crypto, CryptoLaws c := ⟨toyCrypto, toy_laws⟩

/-! ### padding -/

/-- `pad d = d ++ 'A' * k` with `k = 16 - |d| % 16`, `1 ≤ k ≤ 16`, and the result is block aligned. -/
theorem pad_spec (d : Bytes) :
    ∃ k, pad d = d ++ List.replicate k 0x41 ∧ 1 ≤ k ∧ k ≤ 16 ∧ k = 16 - d.length % 16 ∧
      (pad d).length = d.length + k ∧ (pad d).length % 16 = 0 := by
  refine ⟨16 - d.length % 16, rfl, by omega, by omega, rfl, ?_, pad_length_mod d⟩
  rw [pad, padTo_length]

/-- the same for every positive block size -/
theorem padTo_spec (bs : Nat) (hbs : 0 < bs) (d : Bytes) :
    ∃ k, padTo bs d = d ++ List.replicate k 0x41 ∧ 1 ≤ k ∧ k ≤ bs ∧ k = bs - d.length % bs ∧
      (padTo bs d).length % bs = 0 := by
  refine ⟨bs - d.length % bs, rfl, ?_, by omega, rfl, ?_⟩
  · have := Nat.mod_lt d.length hbs; omega
  · rw [padTo_length]
    have hlt := Nat.mod_lt d.length hbs
    have hdm := Nat.div_add_mod d.length bs
    have : d.length + (bs - d.length % bs) = bs * (d.length / bs + 1) := by
      rw [Nat.mul_add, Nat.mul_one]; omega
    rw [this, Nat.mul_mod_right]

/-- an already aligned plaintext gets a full extra block; the padding is never empty -/
theorem pad_aligned_adds_block (d : Bytes) (h : d.length % 16 = 0) :
    pad d = d ++ List.replicate 16 0x41 := by
  simp [pad, padTo, h]

theorem pad_prefix (d : Bytes) : (pad d).take d.length = d ∧ ∀ b ∈ (pad d).drop d.length, b = 0x41 := by
  constructor
  · simp [pad, padTo]
  · intro b hb
    simp [pad, padTo] at hb
    exact hb.2

/-! ### encryption, signature -/

/-- `encrypt_packet` with admissible key/IV lengths and a bytes HMAC key always succeeds:
ciphertext = AES(pad pt), signature = first 16 bytes of the MAC over the ciphertext. -/
theorem encrypt_packet_ok (c : Crypto) (L : CryptoLaws c) (pt k hk iv : Bytes)
    (hkv : k.length = 16 ∨ k.length = 24 ∨ k.length = 32) (hiv : iv.length = 16) :
    ∃ ct, c.aesCbcEnc k iv (pad pt) = .ok ct ∧ ct.length = (pad pt).length ∧
      c.aesCbcDec k iv ct = .ok (pad pt) ∧
      encryptPacketT c pt (some k) (some hk) iv =
        (.ok ⟨ct, mac16 c hk ct⟩, [.aesEnc k iv (pad pt), .hmac hk ct]) := by
  obtain ⟨ct, h1, h2, h3⟩ := L.dec_enc k iv (pad pt) ⟨hkv, hiv, pad_length_mod pt⟩
  refine ⟨ct, h1, h2, h3, ?_⟩
  simp [encryptPacketT, encryptDataT, h1]

/-- whenever `encrypt_packet` returns a packet, its signature is `HMAC(hk, ciphertext)[:16]` and its
ciphertext is the AES encryption of the padded plaintext -/
theorem signature_is_mac (c : Crypto) (pt : Bytes) (ak : Option Bytes) (hk : Option Bytes) (iv : Bytes)
    (pkt : Packet) (h : encryptPacket c pt ak hk iv = .ok pkt) :
    ∃ k h', ak = some k ∧ hk = some h' ∧ c.aesCbcEnc k iv (pad pt) = .ok pkt.ciphertext ∧
      pkt.signature = (c.hmacSha256 h' pkt.ciphertext).take 16 := by
  unfold encryptPacket encryptPacketT encryptDataT at h
  cases ak with
  | none => simp at h
  | some k =>
    cases he : c.aesCbcEnc k iv (pad pt) with
    | error e => simp [he] at h
    | ok ct =>
      cases hk with
      | none => simp [he] at h
      | some h' =>
        simp [he] at h
        subst h
        exact ⟨k, h', rfl, rfl, he, rfl⟩

/-- the signature has exactly 16 bytes -/
theorem signature_length (c : Crypto) (L : CryptoLaws c) (pt : Bytes) (ak hk : Option Bytes) (iv : Bytes)
    (pkt : Packet) (h : encryptPacket c pt ak hk iv = .ok pkt) : pkt.signature.length = 16 := by
  obtain ⟨k, h', _, _, _, hs⟩ := signature_is_mac c pt ak hk iv pkt h
  rw [hs, List.length_take, L.hmac_len]; rfl

/-- when `encrypt_packet` raises and which exception -/
theorem encrypt_packet_raises (c : Crypto) (L : CryptoLaws c) (pt : Bytes) (ak hk : Option Bytes) (iv : Bytes) :
    encryptPacket c pt ak hk iv =
      match ak with
      | none => .error .valueError
      | some k =>
        if (k.length = 16 ∨ k.length = 24 ∨ k.length = 32) ∧ iv.length = 16 then
          match hk with
          | none => .error .typeError
          | some h' => (c.aesCbcEnc k iv (pad pt)).map fun ct => ⟨ct, mac16 c h' ct⟩
        else .error .valueError := by
  cases ak with
  | none => rfl
  | some k =>
    by_cases hv : (k.length = 16 ∨ k.length = 24 ∨ k.length = 32) ∧ iv.length = 16
    · obtain ⟨ct, h1, _, _⟩ := L.dec_enc k iv (pad pt) ⟨hv.1, hv.2, pad_length_mod pt⟩
      simp only [if_pos hv]
      cases hk <;> simp [encryptPacket, encryptPacketT, encryptDataT, h1, Except.map]
    · have := L.enc_raises k iv (pad pt) (fun h => hv ⟨h.1, h.2.1⟩)
      simp only [if_neg hv]
      simp [encryptPacket, encryptPacketT, encryptDataT, this]

/-! ### decryption: verify, then decrypt -/

/-- Complete description of `decrypt_packet(..., verify=True)`: the result is that of `decrypt_data`
when the packet verifies and ValueError otherwise. -/
theorem verify_decision (c : Crypto) (p : Packet) (ak hk : Option Bytes) (iv : Bytes) :
    decryptPacket c p ak hk iv true =
      if Verifies c p hk then decryptData c p.ciphertext ak iv else .error .valueError := by
  unfold decryptPacket
  rw [decryptPacketT_verify]
  cases hk with
  | none => simp [Verifies]
  | some k =>
    by_cases hk0 : k = []
    · simp [Verifies, hk0]
    · by_cases hm : mac16 c k p.ciphertext = p.signature
      · simp [Verifies, hk0, hm, decryptData]
      · simp [Verifies, hk0, hm]

/-- With usable AES arguments, a plaintext is produced iff the HMAC key is present and non-empty and
`HMAC(key, ct)[:16] = signature`. -/
theorem verify_decision_iff (c : Crypto) (L : CryptoLaws c) (p : Packet) (k : Bytes) (hk : Option Bytes)
    (iv : Bytes) (hok : AesArgsOk k iv p.ciphertext) :
    (∃ pt, decryptPacket c p (some k) hk iv true = .ok pt) ↔
      ∃ h', hk = some h' ∧ h' ≠ [] ∧ (c.hmacSha256 h' p.ciphertext).take 16 = p.signature := by
  rw [verify_decision]
  obtain ⟨pt, hpt, _⟩ := L.dec_total k iv p.ciphertext hok
  constructor
  · rintro ⟨pt', h⟩
    by_cases hv : Verifies c p hk
    · cases hk with
      | none => exact absurd hv (by simp [Verifies])
      | some h' => exact ⟨h', rfl, hv.1, hv.2⟩
    · rw [if_neg hv] at h; cases h
  · rintro ⟨h', rfl, hne, hm⟩
    have hv : Verifies c p (some h') := ⟨hne, hm⟩
    exact ⟨pt, by rw [if_pos hv]; simpa [decryptData, decryptDataT] using hpt⟩

/-- `verify=False` skips the check altogether; the HMAC key is ignored and HMAC is never computed -/
theorem unverified_decrypts (c : Crypto) (p : Packet) (ak hk : Option Bytes) (iv : Bytes) :
    decryptPacketT c p ak hk iv false = decryptDataT c p.ciphertext ak iv ∧
      ∀ call ∈ (decryptPacketT c p ak hk iv false).2, ∀ a b, call ≠ Call.hmac a b := by
  refine ⟨rfl, ?_⟩
  intro call hc a b
  cases ak <;> simp [decryptPacketT, decryptDataT] at hc
  subst hc; simp

/-- Round trip: decrypting what `encrypt_packet` produced gives the plaintext followed by the
1..16 bytes of 'A' padding (`pad_spec`), for every admissible key length, with verification
(non-empty HMAC key) … -/
theorem decrypt_encrypt (c : Crypto) (L : CryptoLaws c) (pt k hk iv : Bytes)
    (hkv : k.length = 16 ∨ k.length = 24 ∨ k.length = 32) (hiv : iv.length = 16) (hne : hk ≠ []) :
    ∃ pkt, encryptPacket c pt (some k) (some hk) iv = .ok pkt ∧
      decryptPacket c pkt (some k) (some hk) iv true = .ok (pad pt) := by
  obtain ⟨ct, _, _, hdec, henc⟩ := encrypt_packet_ok c L pt k hk iv hkv hiv
  refine ⟨⟨ct, mac16 c hk ct⟩, by simp [encryptPacket, henc], ?_⟩
  rw [verify_decision]
  have hv : Verifies c ⟨ct, mac16 c hk ct⟩ (some hk) := ⟨hne, rfl⟩
  rw [if_pos hv]
  simpa [decryptData, decryptDataT] using hdec

/-- … and without verification (any, or no, HMAC key on the receiving side). -/
theorem decrypt_encrypt_unverified (c : Crypto) (L : CryptoLaws c) (pt k hk iv : Bytes) (hk' : Option Bytes)
    (hkv : k.length = 16 ∨ k.length = 24 ∨ k.length = 32) (hiv : iv.length = 16) :
    ∃ pkt, encryptPacket c pt (some k) (some hk) iv = .ok pkt ∧
      decryptPacket c pkt (some k) hk' iv false = .ok (pad pt) := by
  obtain ⟨ct, _, _, hdec, henc⟩ := encrypt_packet_ok c L pt k hk iv hkv hiv
  refine ⟨⟨ct, mac16 c hk ct⟩, by simp [encryptPacket, henc], ?_⟩
  simpa [decryptPacket, decryptPacketT, decryptDataT] using hdec

/-- `hmac_key` `None` or `b""` with `verify=True`: ValueError before any primitive is called. -/
theorem missing_key_rejected (c : Crypto) (p : Packet) (ak hk : Option Bytes) (iv : Bytes)
    (h : hk = none ∨ hk = some []) :
    decryptPacketT c p ak hk iv true = (.error .valueError, []) := by
  rcases h with rfl | rfl <;> rfl

/-- On rejection no plaintext is produced and AES is not invoked: the outcome is ValueError and the
call log is empty (no usable key) or consists of the single HMAC computation. -/
theorem no_plaintext_on_reject (c : Crypto) (p : Packet) (ak hk : Option Bytes) (iv : Bytes)
    (h : ¬ Verifies c p hk) :
    (decryptPacketT c p ak hk iv true).1 = .error .valueError ∧
      (∀ call ∈ (decryptPacketT c p ak hk iv true).2, call.isAes = false) ∧
      ((decryptPacketT c p ak hk iv true).2 = [] ∨
        ∃ k, hk = some k ∧ (decryptPacketT c p ak hk iv true).2 = [.hmac k p.ciphertext]) := by
  rw [decryptPacketT_verify]
  cases hk with
  | none => simp
  | some k =>
    by_cases hk0 : k = []
    · simp [hk0]
    · have hm : ¬ mac16 c k p.ciphertext = p.signature := fun hm => h ⟨hk0, hm⟩
      simp [hk0, hm, Call.isAes]

/-- …and therefore the outcome of a rejected packet does not depend on the AES functions at all. -/
theorem reject_independent_of_aes (c c' : Crypto) (hh : c'.hmacSha256 = c.hmacSha256) (p : Packet)
    (ak hk : Option Bytes) (iv : Bytes) (h : ¬ Verifies c p hk) :
    decryptPacketT c' p ak hk iv true = decryptPacketT c p ak hk iv true := by
  rw [decryptPacketT_verify, decryptPacketT_verify]
  cases hk with
  | none => rfl
  | some k =>
    by_cases hk0 : k = []
    · simp [hk0]
    · have hm : ¬ mac16 c k p.ciphertext = p.signature := fun hm => h ⟨hk0, hm⟩
      have hm' : ¬ mac16 c' k p.ciphertext = p.signature := by simpa [mac16, hh] using hm
      simp [hk0, hm, hm']

/-- When the packet verifies, the MAC is computed first and AES is called after it (at most once). -/
theorem verified_call_order (c : Crypto) (p : Packet) (ak hk : Option Bytes) (iv : Bytes)
    (h : Verifies c p hk) :
    ∃ k, hk = some k ∧
      (decryptPacketT c p ak hk iv true).2 =
        .hmac k p.ciphertext :: (match ak with | none => [] | some a => [.aesDec a iv p.ciphertext]) := by
  rw [decryptPacketT_verify]
  cases hk with
  | none => exact absurd h (by simp [Verifies])
  | some k =>
    refine ⟨k, rfl, ?_⟩
    simp only [if_neg h.1, if_pos h.2]
    cases ak <;> rfl

/-- Any other signature on an accepted packet (bit flip, truncation, extension, …) is rejected. -/
theorem tampered_signature_rejected (c : Crypto) (p : Packet) (ak hk : Option Bytes) (iv : Bytes)
    (sig' : Bytes) (hacc : Verifies c p hk) (hs : sig' ≠ p.signature) :
    decryptPacket c ⟨p.ciphertext, sig'⟩ ak hk iv true = .error .valueError ∧
      ∀ call ∈ (decryptPacketT c ⟨p.ciphertext, sig'⟩ ak hk iv true).2, call.isAes = false := by
  have hrej : ¬ Verifies c ⟨p.ciphertext, sig'⟩ hk := by
    cases hk with
    | none => simp [Verifies]
    | some k =>
      intro hv
      exact hs (hv.2.symm.trans hacc.2)
  have := no_plaintext_on_reject c ⟨p.ciphertext, sig'⟩ ak hk iv hrej
  exact ⟨this.1, this.2.1⟩

/-- the instance the property talks about: a packet made by `encrypt_packet` with a changed signature -/
theorem tampered_signature_of_encrypted_rejected (c : Crypto) (pt : Bytes) (ak : Option Bytes) (hk iv : Bytes)
    (pkt : Packet) (sig' : Bytes) (hne : hk ≠ [])
    (henc : encryptPacket c pt ak (some hk) iv = .ok pkt) (hs : sig' ≠ pkt.signature) :
    decryptPacket c ⟨pkt.ciphertext, sig'⟩ ak (some hk) iv true = .error .valueError := by
  obtain ⟨_, h', _, hh, _, hsig⟩ := signature_is_mac c pt ak (some hk) iv pkt henc
  cases hh
  exact (tampered_signature_rejected c pkt ak (some hk) iv sig' ⟨hne, hsig.symm⟩ hs).1

/-- A changed ciphertext is rejected — under the explicit hypothesis that the truncated MACs differ
(collision resistance of HMAC-SHA256 is not provable and is not assumed silently). -/
theorem tampered_ciphertext_rejected (c : Crypto) (p : Packet) (ak : Option Bytes) (hk : Bytes) (iv : Bytes)
    (ct' : Bytes) (hacc : Verifies c p (some hk))
    (hmac_differs : (c.hmacSha256 hk ct').take 16 ≠ (c.hmacSha256 hk p.ciphertext).take 16) :
    decryptPacket c ⟨ct', p.signature⟩ ak (some hk) iv true = .error .valueError ∧
      ∀ call ∈ (decryptPacketT c ⟨ct', p.signature⟩ ak (some hk) iv true).2, call.isAes = false := by
  have hrej : ¬ Verifies c ⟨ct', p.signature⟩ (some hk) := by
    intro hv
    exact hmac_differs (hv.2.trans hacc.2.symm)
  have := no_plaintext_on_reject c ⟨ct', p.signature⟩ ak (some hk) iv hrej
  exact ⟨this.1, this.2.1⟩

/-- A different HMAC key is rejected — again under the hypothesis that the truncated MACs differ
(they do NOT differ for `hk' = hk ++ [0]`: HMAC zero-pads short keys; that is why the hypothesis is needed). -/
theorem wrong_key_rejected (c : Crypto) (p : Packet) (ak : Option Bytes) (hk hk' : Bytes) (iv : Bytes)
    (hacc : Verifies c p (some hk))
    (hmac_differs : (c.hmacSha256 hk' p.ciphertext).take 16 ≠ (c.hmacSha256 hk p.ciphertext).take 16) :
    decryptPacket c p ak (some hk') iv true = .error .valueError ∧
      ∀ call ∈ (decryptPacketT c p ak (some hk') iv true).2, call.isAes = false := by
  have hrej : ¬ Verifies c p (some hk') := by
    intro hv
    exact hmac_differs (hv.2.trans hacc.2.symm)
  have := no_plaintext_on_reject c p ak (some hk') iv hrej
  exact ⟨this.1, this.2.1⟩

/-- without verification, a ciphertext that is not block aligned (e.g. truncated) makes AES raise
ValueError, and a missing AES key raises ValueError -/
theorem unverified_bad_ciphertext_raises (c : Crypto) (L : CryptoLaws c) (p : Packet) (k : Bytes)
    (hk : Option Bytes) (iv : Bytes) (h : p.ciphertext.length % 16 ≠ 0) :
    decryptPacket c p (some k) hk iv false = .error .valueError ∧
      decryptPacket c p none hk iv false = .error .valueError := by
  refine ⟨?_, rfl⟩
  have := L.dec_raises k iv p.ciphertext (fun hok => h hok.2.2)
  simpa [decryptPacket, decryptPacketT, decryptDataT] using this

/-! ### framing of callback packets (client side) -/

/-- `dumps` is `p32be(len(ct)+len(sig)) ++ ct ++ sig`, and OverflowError from 2^32 on -/
theorem dumps_spec (p : Packet) :
    dumps p =
      if p.ciphertext.length + p.signature.length < 2 ^ 32 then
        .ok (toBytesU .big 4 (p.ciphertext.length + p.signature.length) ++ (p.ciphertext ++ p.signature))
      else .error .overflowError := by
  by_cases h : p.ciphertext.length + p.signature.length < 2 ^ 32
  · rw [if_pos h, dumps_ok p h]
  · rw [if_neg h]
    unfold dumps
    rw [List.length_append, p32be_overflow _ (by omega)]
    rfl

/-- `dumpsAll` (used below) is literally `b"".join(p.dumps() for p in ps)` -/
theorem dumpsAll_is_concat (ps : List Packet) :
    dumpsAll ps = (ps.mapM dumps).map List.flatten := by
  induction ps with
  | nil => rfl
  | cons p ps ih =>
    rw [dumpsAll, ih, List.mapM_cons]
    cases dumps p with
    | error e => rfl
    | ok b =>
      cases List.mapM dumps ps with
      | error e => rfl
      | ok bs => rfl

/-- the generator's loop terminates: every yielded packet accounts for at least 4 consumed bytes -/
theorem client_packets_bounded (data : Bytes) : 4 * (iterClientPackets data).1.length ≤ data.length + 3 := by
  induction data using iterClientPackets.induct with
  | case1 data h =>
    rw [iterClientPackets]; simp [h]
  | case2 data h e he =>
    have hne : data ≠ [] := by cases data <;> simp_all
    rw [iterClientPackets_error hne he]; simp
  | case3 data h p rest he ih =>
    have hne : data ≠ [] := by cases data <;> simp_all
    rw [iterClientPackets_ok hne he]
    have := iterClientStep_consumes he
    simp only [List.length_cons]
    omega

/-- Central framing theorem: for every list of packets with 16-byte signatures whose frames fit the
32-bit size field, iterating over the concatenation of their `dumps()` yields exactly these packets,
in order, and ends normally — also when followed by further well-formed data (`more`). -/
theorem client_frames_roundtrip_append (ps : List Packet) (more : Bytes)
    (hwf : ∀ p ∈ ps, p.signature.length = 16 ∧ p.ciphertext.length + 16 < 2 ^ 32) :
    ∃ bs, dumpsAll ps = .ok bs ∧
      iterClientPackets (bs ++ more) = (ps ++ (iterClientPackets more).1, (iterClientPackets more).2) := by
  induction ps with
  | nil => exact ⟨[], rfl, rfl⟩
  | cons p ps ih =>
    obtain ⟨hs, hl⟩ := hwf p (by simp)
    obtain ⟨bs, hbs, hit⟩ := ih (fun q hq => hwf q (by simp [hq]))
    have hd := dumps_ok p (by omega)
    refine ⟨toBytesU .big 4 (p.ciphertext.length + 16) ++ (p.ciphertext ++ p.signature) ++ bs, ?_, ?_⟩
    · rw [hs] at hd
      rw [dumpsAll, hd, hbs]
      simp only [Except.map, Except.bind]
    · have hstep := iterClientStep_frame p.ciphertext p.signature (bs ++ more) hs hl
      have hne : toBytesU .big 4 (p.ciphertext.length + 16) ++ (p.ciphertext ++ p.signature) ++ (bs ++ more) ≠ [] := by
        intro h0
        have := congrArg List.length h0
        simp only [List.length_append, toBytesU_length, List.length_nil] at this
        omega
      have := iterClientPackets_ok hne hstep
      rw [List.append_assoc _ bs more, this, hit]
      rfl

theorem client_frames_roundtrip (ps : List Packet)
    (hwf : ∀ p ∈ ps, p.signature.length = 16 ∧ p.ciphertext.length + 16 < 2 ^ 32) :
    ∃ bs, dumpsAll ps = .ok bs ∧ iterClient (some bs) = (ps, none) := by
  obtain ⟨bs, h1, h2⟩ := client_frames_roundtrip_append ps [] hwf
  refine ⟨bs, h1, ?_⟩
  simpa [iterClient, iterClientPackets_nil] using h2

/-! behaviour on malformed client frames -/

/-- 1–3 bytes where a size field is expected (also after valid frames): EOFError -/
theorem client_short_header (data : Bytes) (h0 : 0 < data.length) (h4 : data.length < 4) :
    iterClientPackets data = ([], some .eofError) := by
  have hne : data ≠ [] := by intro h; simp [h] at h0
  apply iterClientPackets_error hne
  rw [iterClientStep_eq, if_pos h4]

theorem client_frames_then_trailing (ps : List Packet) (trail : Bytes)
    (hwf : ∀ p ∈ ps, p.signature.length = 16 ∧ p.ciphertext.length + 16 < 2 ^ 32)
    (h0 : 0 < trail.length) (h4 : trail.length < 4) :
    ∃ bs, dumpsAll ps = .ok bs ∧ iterClientPackets (bs ++ trail) = (ps, some .eofError) := by
  obtain ⟨bs, h1, h2⟩ := client_frames_roundtrip_append ps trail hwf
  refine ⟨bs, h1, ?_⟩
  rw [h2, client_short_header trail h0 h4]; simp

/-- a size field below 16 makes `read(size - 16)` negative: everything that follows becomes the
"ciphertext" of ONE packet with an empty signature, and the iteration ends -/
theorem client_size_below_16 (hdr body : Bytes) (hh : hdr.length = 4) (hs : fromBytesU .big hdr < 16) :
    iterClientPackets (hdr ++ body) = ([⟨body, []⟩], none) := by
  have hne : hdr ++ body ≠ [] := by
    intro h; have := congrArg List.length h; simp [hh] at this
  have hstep : iterClientStep (hdr ++ body) = .ok (⟨body, []⟩, []) := by
    rw [iterClientStep_eq, if_neg (by simp [hh])]
    simp only [List.take_left' hh, List.drop_left' hh, if_pos hs]
  rw [iterClientPackets_ok hne hstep, iterClientPackets_nil]

/-- general shape of one iteration for `size ≥ 16`, whatever the amount of data present
(a size reaching beyond the data yields a short ciphertext / short or empty signature) -/
theorem client_frame_general (hdr body : Bytes) (hh : hdr.length = 4) (hs : 16 ≤ fromBytesU .big hdr) :
    iterClientPackets (hdr ++ body) =
      (⟨body.take (fromBytesU .big hdr - 16), (body.drop (fromBytesU .big hdr - 16)).take 16⟩
          :: (iterClientPackets (body.drop (fromBytesU .big hdr))).1,
        (iterClientPackets (body.drop (fromBytesU .big hdr))).2) := by
  have hne : hdr ++ body ≠ [] := by
    intro h; have := congrArg List.length h; simp [hh] at this
  apply iterClientPackets_ok hne
  rw [iterClientStep_eq, if_neg (by simp [hh])]
  simp only [List.take_left' hh, List.drop_left' hh, if_neg (by omega : ¬ fromBytesU .big hdr < 16)]

/-! ### framing of task data (server side) -/

/-- `|out| ≥ 16`: exactly one packet, ciphertext = all but the last 16 bytes, signature = last 16 -/
theorem server_frame_split (out : Bytes) (h : 16 ≤ out.length) :
    iterServerPacket (some out) = [⟨out.take (out.length - 16), out.drop (out.length - 16)⟩] ∧
      (out.drop (out.length - 16)).length = 16 := by
  have hne : out.isEmpty = false := by cases out <;> simp_all
  have hnn : ¬ ((out.length : Int) - 16 < 0) := by omega
  have htn : ((out.length : Int) - 16).toNat = out.length - 16 := by omega
  refine ⟨?_, by simp; omega⟩
  simp only [iterServerPacket, hne, Bool.false_eq_true, ↓reduceIte, PyFile.read, PyFile.ofBytes, if_neg hnn, htn]
  simp
  rw [List.take_of_length_le (by simp; omega)]

/-- and it inverts concatenation: `ct ++ sig` with a 16-byte signature splits into `(ct, sig)` -/
theorem server_frame_roundtrip (ct sig : Bytes) (hs : sig.length = 16) :
    iterServerPacket (some (ct ++ sig)) = [⟨ct, sig⟩] := by
  have h := (server_frame_split (ct ++ sig) (by simp [hs])).1
  rw [h]
  have : (ct ++ sig).length - 16 = ct.length := by simp [hs]
  rw [this, List.take_left' rfl, List.drop_left' rfl]

/-- 1..15 bytes: the negative `read` argument swallows everything, the signature is empty -/
theorem server_short_output (out : Bytes) (h0 : 0 < out.length) (h : out.length < 16) :
    iterServerPacket (some out) = [⟨out, []⟩] := by
  have hne : out.isEmpty = false := by cases out <;> simp_all
  have hneg : (out.length : Int) - 16 < 0 := by omega
  simp only [iterServerPacket, hne, Bool.false_eq_true, ↓reduceIte, PyFile.read, PyFile.ofBytes, if_pos hneg]
  simp

theorem server_no_output : iterServerPacket none = [] ∧ iterServerPacket (some []) = [] := ⟨rfl, rfl⟩

/-! ### Non-vacuity: concrete inputs meeting the hypotheses, on the toy instance -/

example : pad [1, 2, 3] = [1, 2, 3] ++ List.replicate 13 0x41 := by decide
example : (pad (List.replicate 16 7)).length = 32 := by decide
example : ∃ pkt, encryptPacket toyCrypto [1, 2, 3] (some (List.replicate 16 9)) (some [5]) (List.replicate 16 1) = .ok pkt ∧
    decryptPacket toyCrypto pkt (some (List.replicate 16 9)) (some [5]) (List.replicate 16 1) true = .ok (pad [1, 2, 3]) :=
  decrypt_encrypt toyCrypto toy_laws [1, 2, 3] (List.replicate 16 9) [5] (List.replicate 16 1) (by decide) (by decide) (by decide)
example : Verifies toyCrypto ⟨[1, 2], [7, 1, 2] ++ List.replicate 13 0⟩ (some [7]) := by decide
example : ¬ Verifies toyCrypto ⟨[1, 3], [7, 1, 2] ++ List.replicate 13 0⟩ (some [7]) := by decide
example : decryptPacketT toyCrypto ⟨[1, 3], [7, 1, 2] ++ List.replicate 13 0⟩ (some (List.replicate 16 9)) (some [7]) (List.replicate 16 1) true
    = (.error .valueError, [.hmac [7] [1, 3]]) := by decide
example : dumps ⟨[0xaa], List.replicate 16 0xbb⟩ = .ok ([0, 0, 0, 17, 0xaa] ++ List.replicate 16 0xbb) := by decide
example : iterClientStep ([0, 0, 0, 17, 0xaa] ++ List.replicate 16 0xbb ++ [1, 2]) = .ok (⟨[0xaa], List.replicate 16 0xbb⟩, [1, 2]) := by decide
example : iterClientPackets [0, 0, 0, 5, 1, 2, 3] = ([⟨[1, 2, 3], []⟩], none) :=
  client_size_below_16 [0, 0, 0, 5] [1, 2, 3] rfl (by decide)
example : iterServerPacket (some [1, 2, 3]) = [⟨[1, 2, 3], []⟩] := by decide
example : iterServerPacket (some ([9] ++ List.replicate 16 0xcc)) = [⟨[9], List.replicate 16 0xcc⟩] := by decide
/-- the hypotheses of `client_frames_roundtrip` hold for a concrete two-packet stream (one empty ciphertext) … -/
example : ∀ p ∈ [(⟨[0xaa], List.replicate 16 0xbb⟩ : Packet), ⟨[], List.replicate 16 0xcc⟩],
    p.signature.length = 16 ∧ p.ciphertext.length + 16 < 2 ^ 32 := by decide
/-- … whose concatenated frames are these 41 bytes … -/
example : dumpsAll [⟨[0xaa], List.replicate 16 0xbb⟩, ⟨[], List.replicate 16 0xcc⟩] =
    .ok ([0, 0, 0, 17, 0xaa] ++ List.replicate 16 0xbb ++ [0, 0, 0, 16] ++ List.replicate 16 0xcc) := by decide
/-- … and they are split back exactly. -/
example : iterClient (some ([0, 0, 0, 17, 0xaa] ++ List.replicate 16 0xbb ++ [0, 0, 0, 16] ++ List.replicate 16 0xcc)) =
    ([⟨[0xaa], List.replicate 16 0xbb⟩, ⟨[], List.replicate 16 0xcc⟩], none) := by
  obtain ⟨bs, h1, h2⟩ := client_frames_roundtrip [⟨[0xaa], List.replicate 16 0xbb⟩, ⟨[], List.replicate 16 0xcc⟩] (by decide)
  have h3 : dumpsAll [⟨[0xaa], List.replicate 16 0xbb⟩, ⟨[], List.replicate 16 0xcc⟩] =
      .ok ([0, 0, 0, 17, 0xaa] ++ List.replicate 16 0xbb ++ [0, 0, 0, 16] ++ List.replicate 16 0xcc) := by decide
  rw [h3] at h1
  cases h1
  exact h2
example : iterClientPackets [0, 0, 1] = ([], some .eofError) := client_short_header _ (by decide) (by decide)

end C05

import CsVerif.Gen.PyXor
import CsVerif.Props.C09
import CsVerif.Lemmas.C09Gen
/-!
C09 — the tie between the source text and the model, by (untyped) translation.

`Gen/PyXor.lean` is produced on every run by `tools/py2leanu.py` from the *source* of `xordecode.iter_nonce_offsets` and of
`XorEncodedFile.__init__`, `read_nonce`, `tell`, `seek`, `read`.  `iter_nonce_offsets` is a generator over a file parameter (it
returns `(list of yields, file afterwards)`).  `XorEncodedFile(fh, nonce_offset)` MOVES the file into the new instance
(`C09Gen.encXor`: `.inst XorEncodedFile [file, nonce_offset, initial_nonce, nonced_filesize]`); every method threads `self`
and returns `(result, self afterwards)`: `self.fh.read / seek / tell` act on the file inside the instance (Model/PyU_T15.lean,
`PyFile`'s raising behaviour), `self.read_nonce()` / `self.tell()` are calls of the translated methods, `try … except OSError`
of `read_nonce` is Lean's `try … catch`, the `while True:` chunk loop of `read` runs on fuel.

The `gen_*` theorems state that each translated definition computes, for every state of the view object (any file content,
position and kind; any nonce offset) and every argument in the stated domain, exactly the encoding of what the hand-written
model computes, including the raising branches (`ValueError` of `seek` for a negative absolute offset / an unknown `whence`,
the `ValueError` / `OSError` of the underlying file's `seek` in the constructor).  `gen_run` / `gen_run_trace` lift this to
operation histories executed through the translated methods, and the refinement theorems of `Props/C09.lean` are restated for
those histories: the source text of `seek` / `read` / `tell`, run on any history, does what `io.BytesIO` over the decoded bytes
does.  Helper lemmas: `Lemmas/C09Gen.lean`.
-/
namespace C09Gen
open PyU C15Gen

/-! ### `iter_nonce_offsets` -/

/-- the translated `iter_nonce_offsets` equals the encoding of the model, for every file, `real_size` (`None` or any int) and
non-negative `maxrange` (a `for` loop: no fuel) -/
theorem gen_iter_nonce_offsets (f : PyFile) (realSize : Option Int) (maxrange : Nat) :
    Gen.PyXor.iter_nonce_offsets (encFile f) (encOptInt realSize) (.int (maxrange : Int))
      = (C09.iterNonceOffsets f realSize maxrange).map encOffsets :=
  gen_iter_nonce_offsets_proof f realSize maxrange

/-- the source defaults `real_size=None, maxrange=1024` -/
theorem gen_iter_nonce_offsets_defaults (f : PyFile) :
    Gen.PyXor.iter_nonce_offsets_default2 (encFile f) = (C09.iterNonceOffsets f none 1024).map encOffsets :=
  gen_iter_nonce_offsets f none 1024

/-- `size_offsets_exact` for the translated definition: what the source text yields when `real_size` is left to the file size -/
theorem gen_size_offsets_exact (f : PyFile) (maxrange : Nat) :
    ∃ f', Gen.PyXor.iter_nonce_offsets (encFile f) .none (.int (maxrange : Int))
        = .ok (encOffsets (C09.sizeOffsets f maxrange, f')) := by
  obtain ⟨l, f1, h, _, _⟩ := C09.iterNonceOffsets_ok f maxrange
  refine ⟨f1, ?_⟩
  have := gen_iter_nonce_offsets f none maxrange
  rw [h] at this
  rw [C09.sizeOffsets_of_scan h]
  exact this

/-! ### the constructor and the methods -/

/-- `XorEncodedFile(fh, nonce_offset)`: the translated `__init__` builds the encoding of `C09.mk'` -/
theorem gen_new (fh : PyFile) (nonceOff : Nat) :
    Gen.PyXor.XorEncodedFile_new (encFile fh) (.int (nonceOff : Int)) = (C09.mk' fh nonceOff).map encXor :=
  gen_new_proof fh nonceOff

/-- the source default `nonce_offset=0` -/
theorem gen_new_default (fh : PyFile) : Gen.PyXor.XorEncodedFile_new_default1 (encFile fh) = (C09.mk' fh 0).map encXor :=
  gen_new fh 0

theorem gen_tell (x : C09.XorFile) : Gen.PyXor.XorEncodedFile_tell (encXor x) = .ok (encRes (.int (C09.tell x)) x) :=
  gen_tell_proof x

/-- `seek(offset, whence)` for every int `offset` and every `whence ≥ 0`, incl. both `ValueError` branches -/
theorem gen_seek (x : C09.XorFile) (off : Int) (whence : Nat) :
    Gen.PyXor.XorEncodedFile_seek (encXor x) (.int off) (.int (whence : Int))
      = (C09.seek x off whence).map (fun r => encRes (.int (r.1 : Int)) r.2) :=
  gen_seek_proof x off whence

/-- a negative `whence` (outside the model's `Nat`) is the `else` branch as well: ValueError, nothing moves -/
theorem gen_seek_negative_whence (x : C09.XorFile) (off w : Int) (hw : w < 0) :
    Gen.PyXor.XorEncodedFile_seek (encXor x) (.int off) (.int w) = .error .valueError := by
  have h0 : (w == 0) = false := by simp only [beq_eq_false_iff_ne, ne_eq]; omega
  have h1 : (w == 1) = false := by simp only [beq_eq_false_iff_ne, ne_eq]; omega
  have h2 : (w == 2) = false := by simp only [beq_eq_false_iff_ne, ne_eq]; omega
  simp only [Gen.PyXor.XorEncodedFile_seek, getAttr_off, add_int, PyRt.ok_bind, eq_int, h0, h1, h2, Bool.false_eq_true, if_false, fmt,
    throw_err]
  simp

/-- the source default `whence=io.SEEK_SET` -/
theorem gen_seek_default (x : C09.XorFile) (off : Int) :
    Gen.PyXor.XorEncodedFile_seek_default1 (encXor x) (.int off) = (C09.seek x off 0).map (fun r => encRes (.int (r.1 : Int)) r.2) :=
  gen_seek x off 0

theorem gen_read_nonce (x : C09.XorFile) :
    Gen.PyXor.XorEncodedFile_read_nonce (encXor x) = (C09.readNonce x).map (fun r => encRes (.bytes r.1) r.2) :=
  gen_read_nonce_proof x

/-- `read(n)` for `n` `None` or any int, and every fuel of at least `len(raw file) + 1` -/
theorem gen_read (x : C09.XorFile) (n : Option Int) (fuel : Nat) (hf : x.fh.data.length + 1 ≤ fuel) :
    Gen.PyXor.XorEncodedFile_read fuel (encXor x) (encOptInt n) = (C09.read x n).map (fun r => encRes (.bytes r.1) r.2) :=
  gen_read_proof x n fuel hf

/-- the source default `n=-1` -/
theorem gen_read_default (x : C09.XorFile) (fuel : Nat) (hf : x.fh.data.length + 1 ≤ fuel) :
    Gen.PyXor.XorEncodedFile_read_default1 fuel (encXor x) = (C09.read x (some (-1))).map (fun r => encRes (.bytes r.1) r.2) :=
  gen_read x (some (-1)) fuel hf

/-! ### operation histories through the translated methods -/

/-- a history of `seek` / `read` / `tell` executed through the TRANSLATED methods (`C09Gen.runG`) gives the outputs and the final
object of the model's `run` -/
theorem gen_run (x : C09.XorFile) (ops : List C09.Op) (fuel : Nat) (hf : x.fh.data.length + 1 ≤ fuel) :
    runG fuel (encXor x) ops = (C09.run x ops).map (fun r => (r.1.map encOut, encXor r.2)) :=
  runG_eq ops x fuel hf

/-- the same for the trace the driver prints (a raising operation leaves the object unchanged) -/
theorem gen_run_trace (x : C09.XorFile) (ops : List C09.Op) (fuel : Nat) (hf : x.fh.data.length + 1 ≤ fuel) :
    runTraceG fuel (encXor x) ops = (C09.runTrace x ops).map (fun r => r.map encOut) :=
  runTraceG_eq ops x fuel hf

/-! ### the refinement theorems, restated for the translated methods -/

/-- **`read_refines` for the translated `read`**: from every logical position `p ≥ 0`, for every `n`, the source text of `read`
returns exactly the plaintext slice an ordinary file would return and moves only the cursor, by the number of bytes returned -/
theorem gen_read_refines {stub nonce size enc : Bytes} {x : C09.XorFile} (hL : C09.Layout stub nonce size enc x)
    (p : Nat) (hpos : x.fh.pos = stub.length + 8 + p) (n : Option Int) (fuel : Nat) (hf : x.fh.data.length + 1 ≤ fuel) :
    ∃ out,
      Gen.PyXor.XorEncodedFile_read fuel (encXor x) (encOptInt n)
        = .ok (encRes (.bytes out) (x.withPos (stub.length + 8 + p + out.length))) ∧
      out = (({ data := C09.rollDecode nonce enc, pos := p } : PyFile).read (n.getD (-1))).1 := by
  obtain ⟨out, x', h1, _, h3, _, h5, _⟩ := C09.read_refines hL p hpos n
  refine ⟨out, ?_, h3⟩
  rw [gen_read x n fuel hf, h1, h5]
  rfl

/-- **`history_refines_all_seeks` for the translated methods**: for EVERY history — seeks with any integer offset and any
`whence`, reads with any `n`, `tell` — from every logical position `p ≥ 0`, the source text of the three methods (over a BytesIO or
an OS file) does exactly what `io.BytesIO` over the decoded bytes does: the same exception at the same operation, or the same
outputs (`seek` returning the raw offset) and the abstracting final state -/
theorem gen_history_refines_all_seeks (stub nonce size enc : Bytes) (x : C09.XorFile) (hL : C09.Layout stub nonce size enc x)
    (p : Nat) (hpos : x.fh.pos = stub.length + 8 + p) (ops : List C09.Op) (fuel : Nat) (hf : x.fh.data.length + 1 ≤ fuel) :
    match C09.plainRun { data := C09.rollDecode nonce enc, pos := p, kind := .bytesIO } ops with
    | .ok (outs, pf') =>
      runG fuel (encXor x) ops
        = .ok ((outs.map (C09.Out.shift (stub.length + 8))).map encOut, encXor (x.withPos (stub.length + 8 + pf'.pos)))
    | .error e => runG fuel (encXor x) ops = .error e := by
  have h := C09.history_refines_all_seeks stub nonce size enc x hL p hpos ops
  rw [gen_run x ops fuel hf]
  cases hp : C09.plainRun { data := C09.rollDecode nonce enc, pos := p, kind := .bytesIO } ops with
  | error e => rw [hp] at h; simp only at h ⊢; rw [h]; rfl
  | ok r =>
    obtain ⟨outs, pf'⟩ := r
    rw [hp] at h
    simp only at h ⊢
    rw [h]; rfl

/-- the same from the translated constructor call on the raw file, for the trace the correspondence runs compare -/
theorem gen_history_refines_all_seeks_from_open (stub nonce size enc : Bytes) (hn : nonce.length = 4) (hs : size.length = 4)
    (f : PyFile) (hd : f.data = stub ++ nonce ++ size ++ enc) (ops : List C09.Op) (fuel : Nat) (hf : f.data.length + 1 ≤ fuel) :
    ∃ x, Gen.PyXor.XorEncodedFile_new (encFile f) (.int (stub.length : Int)) = .ok (encXor x) ∧
      runTraceG fuel (encXor x) ops =
        ((C09.plainTrace { data := C09.rollDecode nonce enc, pos := 0, kind := .bytesIO } ops).map
          (C09.shiftOut (stub.length + 8))).map (fun r => r.map encOut) := by
  obtain ⟨x, hx, hL, hpos, _, _⟩ := C09.open_layout stub nonce size enc hn hs f hd
  refine ⟨x, ?_, ?_⟩
  · rw [gen_new, hx]; rfl
  · have hdx : x.fh.data = f.data := by rw [hL.data, hd]
    rw [gen_run_trace x ops fuel (by rw [hdx]; exact hf), C09.trace_refines_all_seeks hL 0 hpos ops]

/-! ### Non-vacuity: the translated definitions evaluated on concrete inputs -/

/-- stub `90`, nonce `01 02 03 04`, size dword, 6 encoded bytes -/
def exRaw : Bytes := [0x90] ++ [1, 2, 3, 4] ++ [9, 9, 9, 9] ++ [0x11, 0x22, 0x33, 0x44, 0x55, 0x66]

example : Gen.PyXor.XorEncodedFile_new (mkFile exRaw 0 0) (.int 1)
    = .ok (.inst Gen.PyXor.XorEncodedFile [mkFile exRaw 9 0, .int 1, .bytes [1, 2, 3, 4], .bytes [9, 9, 9, 9]]) := by decide +kernel

/-- open, `read(3)` (decodes one 4-byte chunk and seeks back one byte), `tell()` = 3 -/
example : (do
    let s ← Gen.PyXor.XorEncodedFile_new (mkFile exRaw 0 1) (.int 1)
    let r ← unpackRes (Gen.PyXor.XorEncodedFile_read 16 s (.int 3))
    let t ← unpackRes (Gen.PyXor.XorEncodedFile_tell r.2)
    pure (r.1, t.1) : Py (V × V)) = .ok (.bytes [0x10, 0x20, 0x30], .int 3) := by decide +kernel

/-- `read()` to the end from logical position 4: the nonce is the previous encoded dword -/
example : (do
    let s ← Gen.PyXor.XorEncodedFile_new (mkFile exRaw 0 0) (.int 1)
    let s1 ← unpackRes (Gen.PyXor.XorEncodedFile_seek s (.int 4) (.int 0))
    let r ← unpackRes (Gen.PyXor.XorEncodedFile_read 16 s1.2 .none)
    pure (s1.1, r.1) : Py (V × V)) = .ok (.int 13, .bytes [0x55 ^^^ 0x11, 0x66 ^^^ 0x22]) := by decide +kernel

/-- `seek(-1)` raises ValueError; `seek(-100, SEEK_CUR)` clamps at logical 0 (raw 9); `whence = 7` raises ValueError -/
example : (Gen.PyXor.XorEncodedFile_new (mkFile exRaw 0 0) (.int 1)).bind (fun s => Gen.PyXor.XorEncodedFile_seek s (.int (-1)) (.int 0))
    = .error .valueError := by decide +kernel
example : (do
    let s ← Gen.PyXor.XorEncodedFile_new (mkFile exRaw 0 1) (.int 1)
    let r ← unpackRes (Gen.PyXor.XorEncodedFile_seek s (.int (-100)) (.int 1))
    pure r.1 : Py V) = .ok (.int 9) := by decide +kernel
example : (Gen.PyXor.XorEncodedFile_new (mkFile exRaw 0 0) (.int 1)).bind (fun s => Gen.PyXor.XorEncodedFile_seek s (.int 0) (.int 7))
    = .error .valueError := by decide +kernel

/-- `read_nonce()` at raw position 2 of an OS file: the relative seek raises OSError, the handler runs (no exception comes out);
below logical position 4 the initial nonce is spliced in -/
example : (do
    let r ← unpackRes (Gen.PyXor.XorEncodedFile_read_nonce
      (.inst Gen.PyXor.XorEncodedFile [mkFile exRaw 2 1, .int 40, .bytes [1, 2, 3, 4], .bytes [9, 9, 9, 9]]))
    pure r.1 : Py V) = .ok (.bytes [1, 2, 3, 4]) := by decide +kernel

/-- `iter_nonce_offsets`: the size dword at offset 1 decodes to 6 = len(raw) - 1 - 8 -/
example : Gen.PyXor.iter_nonce_offsets (mkFile ([0x90] ++ [1, 2, 3, 4] ++ [7, 2, 3, 4] ++ [0x11, 0x22, 0x33, 0x44, 0x55, 0x66]) 0 0) .none (.int 1024)
    = .ok (.tuple [.list [.int 1], mkFile ([0x90] ++ [1, 2, 3, 4] ++ [7, 2, 3, 4] ++ [0x11, 0x22, 0x33, 0x44, 0x55, 0x66]) 15 0]) := by
  decide +kernel

-- wrong argument kinds
example : Gen.PyXor.iter_nonce_offsets .none .none (.int 4) = .error .attributeError := by decide +kernel
example : Gen.PyXor.iter_nonce_offsets (mkFile [1, 2] 0 0) (.int 3) (lit "4") = .error .typeError := by decide +kernel
example : Gen.PyXor.XorEncodedFile_new (mkFile exRaw 0 0) (.int (-1)) = .error .valueError := by decide +kernel
example : Gen.PyXor.XorEncodedFile_new (mkFile exRaw 0 1) (.int (-1)) = .error .osError := by decide +kernel
example : Gen.PyXor.XorEncodedFile_tell .none = .error .attributeError := by decide +kernel

end C09Gen

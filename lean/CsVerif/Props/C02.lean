import CsVerif.Lemmas.C02
/-! C02 — settings are decoded exactly and all views agree: property theorems.

Vocabulary (Model/C02.lean): `iterSettings d` = `BeaconConfig(d).settings_tuple`, `serialize` = the big-endian TLV
encoder (spec), `settingsMapG prettyF ss it pretty parse` = `settings_map(index_type, pretty, parse)` as an ordered
item list where `prettyF i = some fn` iff `SETTING_TO_PRETTYFUNC` has an entry for `BeaconSetting(i)` (the content of
the functions is a parameter and may raise), `settingsMap content` = the same with the dispatch of the generated key set.
(Lemmas/C02.lean): `Yielded`, `NoMixedIdentity`, `Key.toName`, `Key.toConst`, `rekey`, `noPretty`, `maskVals`, `pushKey`. -/
namespace C02
open Gen.Beacon

/-! ### generated obligations: what the model hard-codes about the source -/

/-- `struct Setting` is three big-endian uint16 fields followed by `char value[length]` -/
theorem struct_layout :
    settingStruct = [("index", "BeaconSetting"), ("type", "SettingsType"), ("length", "uint16"), ("value", "char[length]")] ∧
    settingStructBigEndian = true ∧ settingIndexBytes = 2 ∧ settingTypeBytes = 2 ∧ settingLengthBytes = 2 := by
  decide

/-- the Cobalt Strike numbering the property text refers to -/
theorem enum_numbering :
    settingUserAgent = 9 ∧ settingWatermarkHash = 36 ∧ deprecatedInjectOptions = 36 ∧
    typeNone = 0 ∧ typeShort = 1 ∧ typeInt = 2 ∧ typePtr = 3 ∧ settingsTypes.map Prod.fst = [0, 1, 2, 3] := by
  decide

/-- the byte-string name tables used by the model list the same values as the string tables -/
theorem name_tables_aligned :
    settingNameBytes.map Prod.fst = settingNames.map Prod.fst ∧
    deprecatedNameBytes.map Prod.fst = deprecatedNames.map Prod.fst ∧
    (∀ k ∈ prettyKeys, (settingNameBytes.lookup k).isSome) := by
  decide +kernel

/-! ### decoding -/

/-- The loop never runs out of fuel (no divergence, also not in the User-Agent scan) and never raises:
`iterSettings` is total and its error arm is dead. -/
theorem iterSettingsE_eq (d : Bytes) : iterSettingsE d = .ok (iterSettings d) := by
  rw [iterSettings_parseSpec]; exact iterSettingsE_parseSpec d

/-- Compositional form of the round trip: a serialized well-formed list is decoded to itself and decoding
continues on whatever follows. -/
theorem parse_serialize_append (ss : List Setting) (h : WellFormedList ss) (tail : Bytes) :
    iterSettings (serialize ss ++ tail) = ss ++ iterSettings tail := by
  simp only [iterSettings_parseSpec]; exact parseSpec_serialize_append ss h tail

/-- **parse ∘ serialize = id** for every well-formed list: with a `00 00` terminator followed by arbitrary bytes,
and at end of data. -/
theorem parse_serialize (ss : List Setting) (h : WellFormedList ss) (tail : Bytes) :
    iterSettings (serialize ss ++ [0, 0] ++ tail) = ss ∧ iterSettings (serialize ss) = ss := by
  constructor
  · rw [List.append_assoc, parse_serialize_append ss h, iterSettings_parseSpec]
    simp [parseSpec_terminator]
  · have := parse_serialize_append ss h []
    rw [List.append_nil] at this
    rw [this, iterSettings_parseSpec, parseSpec_short [] (by simp)]
    simp

/-- A record cut anywhere before its end (header or value) is dropped, the records before it are kept. -/
theorem truncated_drops_partial (ss : List Setting) (h : WellFormedList ss) (s : Setting) (hs : s.Encodable)
    (p : Bytes) (hp : p <+: serializeOne s) (hlt : p.length < (serializeOne s).length) :
    iterSettings (serialize ss ++ p) = ss := by
  rw [parse_serialize_append ss h, iterSettings_parseSpec, parseSpec_partial s hs p hp hlt]
  simp

/-- Truncating a serialized list at any byte offset keeps exactly the records that are complete. -/
theorem truncated_at_any_offset (ss : List Setting) (h : WellFormedList ss) (n : Nat) :
    ∃ k, iterSettings ((serialize ss).take n) = ss.take k ∧ (serialize (ss.take k)).length ≤ n := by
  induction ss generalizing n with
  | nil => exact ⟨0, by simp [serialize, iterSettings_parseSpec, parseSpec_short], by simp [serialize]⟩
  | cons s ss ih =>
    have hs : s.WellFormed := h s (by simp)
    have hss : WellFormedList ss := fun x hx => h x (by simp [hx])
    by_cases hn : n < (serializeOne s).length
    · refine ⟨0, ?_, by simp [serialize]⟩
      have : (serialize (s :: ss)).take n = (serializeOne s).take n := by
        simp only [serialize, List.flatMap_cons]
        rw [List.take_append_of_le_length (by omega)]
      rw [this]
      have := truncated_drops_partial [] (by intro x hx; simp at hx) s hs.1 ((serializeOne s).take n)
        (List.take_prefix _ _) (by simp; omega)
      simpa [serialize] using this
    · obtain ⟨k, hk, hlen⟩ := ih hss (n - (serializeOne s).length)
      refine ⟨k + 1, ?_, ?_⟩
      · have : (serialize (s :: ss)).take n =
            serialize [s] ++ (serialize ss).take (n - (serializeOne s).length) := by
          simp only [serialize, List.flatMap_cons, List.flatMap_nil, List.append_nil]
          rw [List.take_append]
          rw [List.take_of_length_le (by omega)]
        rw [this, parse_serialize_append [s] (by intro x hx; simp at hx; subst hx; exact hs), hk]
        simp
      · simp only [List.take_succ_cons, serialize, List.flatMap_cons, List.length_append] at hlen ⊢
        omega

/-- **User-Agent continuation, NUL found**: a User-Agent record of length 0x80 whose value does not end in NUL
takes the following bytes up to (not including) the next NUL into its value; `length` stays 0x80 and decoding
resumes *at* that NUL. -/
theorem useragent_continuation (pre : List Setting) (hpre : WellFormedList pre) (ua : Setting)
    (hua : ua.Encodable) (hov : ua.uaOverlong) (ext rest : Bytes) (hext : ∀ b ∈ ext, b ≠ 0) :
    iterSettings (serialize pre ++ (serializeOne ua ++ (ext ++ 0 :: rest))) =
      pre ++ { ua with value := ua.value ++ ext, deprecated := false } :: iterSettings (0 :: rest) := by
  rw [parse_serialize_append pre hpre]
  simp only [iterSettings_parseSpec]
  rw [parseSpec_ua ua hua hov]
  obtain ⟨h1, h2⟩ := takeWhile_nonzero_append ext rest hext
  rw [h1, h2]

/-- **User-Agent continuation, end of data**: without a NUL the value takes everything up to the end of the data
and decoding stops (the scan terminates). -/
theorem useragent_continuation_eof (pre : List Setting) (hpre : WellFormedList pre) (ua : Setting)
    (hua : ua.Encodable) (hov : ua.uaOverlong) (ext : Bytes) (hext : ∀ b ∈ ext, b ≠ 0) :
    iterSettings (serialize pre ++ (serializeOne ua ++ ext)) =
      pre ++ [{ ua with value := ua.value ++ ext, deprecated := false }] := by
  rw [parse_serialize_append pre hpre]
  simp only [iterSettings_parseSpec]
  rw [parseSpec_ua ua hua hov]
  obtain ⟨h1, h2⟩ := takeWhile_nonzero_all ext hext
  rw [h1, h2, parseSpec_short [] (by simp)]

/-- the over-long condition is exactly "length field 0x80 and last value byte non-NUL" for a 128-byte value -/
theorem uaOverlong_iff (s : Setting) (hl : s.value.length = s.length) :
    s.uaOverlong ↔ s.index = settingUserAgent ∧ s.length = 0x80 ∧ s.value.getLast? ≠ some 0 ∧ s.value ≠ [] := by
  unfold Setting.uaOverlong rstripNul
  constructor
  · rintro ⟨h1, h2, h3⟩
    refine ⟨h1, h2, ?_, ?_⟩
    · intro hlast
      rw [List.getLast?_eq_head?_reverse] at hlast
      cases hr : s.value.reverse with
      | nil => simp [hr] at hlast
      | cons b bs =>
        rw [hr] at hlast h3
        simp only [List.head?_cons, Option.some.injEq] at hlast
        subst hlast
        simp only [List.dropWhile_cons, beq_self_eq_true, ↓reduceIte, List.length_reverse] at h3
        have h4 : (List.dropWhile (· == (0 : UInt8)) bs).length ≤ bs.length :=
          (List.dropWhile_sublist _).length_le
        have h5 : s.value.reverse.length = bs.length + 1 := by rw [hr]; simp
        simp only [List.length_reverse] at h5
        omega
    · intro he; rw [he] at hl; simp at hl; omega
  · rintro ⟨h1, h2, h3, h4⟩
    refine ⟨h1, h2, ?_⟩
    rw [List.getLast?_eq_head?_reverse] at h3
    cases hr : s.value.reverse with
    | nil => exact absurd (List.reverse_eq_nil_iff.mp hr) h4
    | cons b bs =>
      rw [hr] at h3
      have hb : (b == 0) = false := by
        simp only [List.head?_cons, ne_eq, Option.some.injEq] at h3
        simpa using h3
      simp only [List.dropWhile_cons, hb, List.length_reverse]
      have h5 : s.value.reverse.length = bs.length + 1 := by rw [hr]; simp
      simp only [List.length_reverse] at h5
      simp
      omega

/-- **Soundness of decoding**: for *arbitrary* bytes, what was decoded re-serializes to a prefix of the data
(records are in on-disk order with index, type, length and value bytes exactly as they are in the block), and
decoding stopped either at a `00 00` index or where no complete record follows. -/
theorem parse_sound (d : Bytes) :
    ∃ rest, d = serialize (iterSettings d) ++ rest ∧ (rest.take 2 = [0, 0] ∨ decodeOne rest = none) := by
  rw [iterSettings_parseSpec]; exact parseSpec_sound d.length d (Nat.le_refl _)

/-- Every yielded setting has a non-zero 16-bit index, 16-bit type and length, at least `length` value bytes
(more only for a continued User-Agent), and its enum identity is `DeprecatedBeaconSetting` iff index 36 with TYPE_SHORT. -/
theorem yielded_fields (d : Bytes) : ∀ s ∈ iterSettings d, Yielded s := by
  rw [iterSettings_parseSpec]; exact parseSpec_yielded d

/-! ### integers -/

/-- TYPE_SHORT / TYPE_INT values are exposed as unsigned 16 / 32 bit integers (whatever the value length is:
`u16be` reads at most the first two bytes), everything else as the raw bytes. -/
theorem short_int_unsigned (pretty parse : Bool) (s : Setting) :
    ((pretty || parse) = true → s.type = typeShort →
        convert pretty parse s = .int (u16be s.value) ∧ u16be s.value < 2 ^ 16) ∧
    ((pretty || parse) = true → s.type = typeInt →
        convert pretty parse s = .int (u32be s.value) ∧ u32be s.value < 2 ^ 32) ∧
    ((pretty || parse) = false ∨ (s.type ≠ typeShort ∧ s.type ≠ typeInt) →
        convert pretty parse s = .bytes s.value) := by
  have hne : typeInt ≠ typeShort := by decide
  refine ⟨fun hp ht => ⟨?_, u16be_lt _⟩, fun hp ht => ⟨?_, u32be_lt _⟩, fun h => ?_⟩
  · have : (parse || pretty) = true := by rw [Bool.or_comm]; exact hp
    simp [convert, this, ht]
  · have : (parse || pretty) = true := by rw [Bool.or_comm]; exact hp
    have h2 : ¬ s.type = typeShort := by rw [ht]; exact hne
    simp [convert, this, ht, hne]
  · rcases h with h | ⟨h1, h2⟩
    · have : (parse || pretty) = false := by rw [Bool.or_comm]; exact h
      simp [convert, this]
    · simp [convert, h1, h2]

/-- the conversions are big-endian: exact values for 2- and 4-byte values -/
theorem u16be_u32be_exact (a b c d : UInt8) :
    u16be [a, b] = a.toNat * 256 + b.toNat ∧
    u32be [a, b, c, d] = ((a.toNat * 256 + b.toNat) * 256 + c.toNat) * 256 + d.toNat := by
  simp [u16be, u32be, fromBE]

/-- `max_setting_enum` raises ValueError exactly on an empty configuration, otherwise it is the maximum. -/
theorem max_setting_enum (ss : List Setting) :
    (maxSettingEnum ss = .error .valueError ↔ ss = []) ∧
    (∀ m, maxSettingEnum ss = .ok m → m ∈ settingEnums ss ∧ ∀ x ∈ settingEnums ss, x ≤ m) := by
  unfold maxSettingEnum settingEnums
  cases ss with
  | nil => simp
  | cons s ss =>
    simp only [List.map_cons, reduceCtorEq, Except.ok.injEq, List.mem_cons, forall_eq_or_imp]
    refine ⟨by simp, ?_⟩
    intro m hm
    subst hm
    obtain ⟨h1, h2⟩ := foldl_max_ge (ss.map (·.index)) s.index
    refine ⟨?_, h1, h2⟩
    rcases foldl_max_mem (ss.map (·.index)) s.index with h | h
    · left; exact h
    · right; exact h

/-! ### names -/

/-- The name key is injective in the enum identity (class, value): two settings share a name key iff they share
the enum key. -/
theorem nameKey_inj (d1 d2 : Bool) (v1 v2 : Nat) : nameKey d1 v1 = nameKey d2 v2 ↔ (d1 = d2 ∧ v1 = v2) :=
  ⟨nameKey_injective, fun ⟨h1, h2⟩ => by rw [h1, h2]⟩

/-- **Unknown indices keep a synthetic name** `BeaconSetting_<decimal value>`, distinct from every other name
(by `nameKey_inj`). -/
theorem unknown_index_name (v : Nat) (h : settingNameBytes.lookup v = none) :
    nameKey false v = ascii "BeaconSetting_" ++ decimal v := by
  have hp : unknownPrefixBytes = ascii "BeaconSetting_" := by decide +kernel
  simp [nameKey, enumName, h, hp]

/-- known indices are named by what cstruct resolves `BeaconSetting(v).name` to -/
theorem known_index_name (v : Nat) (n : Bytes) (h : settingNameBytes.lookup v = some n) : nameKey false v = n := by
  simp [nameKey, enumName, h]

/-- the four aliased values resolve to the newer names -/
theorem alias_names :
    nameKey false 16 = ascii "SETTING_BOF_ALLOCATOR" ∧ nameKey false 17 = ascii "SETTING_SYSCALL_METHOD" ∧
    nameKey false 48 = ascii "SETTING_PROCINJ_BOF_REUSE_MEM" ∧ nameKey false 36 = ascii "SETTING_WATERMARKHASH" ∧
    nameKey true 36 = ascii "SETTING_INJECT_OPTIONS" := by
  decide +kernel

/-- **Index 36 is named by its type** in every decoded configuration. -/
theorem index36_named_by_type (d : Bytes) (s : Setting) (hs : s ∈ iterSettings d) (h36 : s.index = 36) :
    (s.type = 1 → keyOf .name s = .name (ascii "SETTING_INJECT_OPTIONS") ∧ keyOf .enum s = .enum true 36) ∧
    (s.type ≠ 1 → keyOf .name s = .name (ascii "SETTING_WATERMARKHASH") ∧ keyOf .enum s = .enum false 36) := by
  have hy := (yielded_fields d s hs).2.2.2.2.2.2
  have hw : settingWatermarkHash = 36 := by decide
  have ht : typeShort = 1 := by decide
  rw [h36, hw, ht] at hy
  constructor
  · intro h1
    rw [h1] at hy
    simp only [decide_true, Bool.and_self] at hy
    simp only [keyOf, hy, h36, alias_names.2.2.2.2]
    exact ⟨trivial, trivial⟩
  · intro h1
    have : decide (s.type = 1) = false := by simpa using h1
    rw [this] at hy
    simp only [Bool.and_false] at hy
    simp only [keyOf, hy, h36, alias_names.2.2.2.1]
    exact ⟨trivial, trivial⟩

/-! ### views -/

/-- The name-keyed mapping is the enum-keyed mapping with every key replaced by its name — for every list, every
argument combination, and also when a pretty function raises (same exception). -/
theorem views_agree_name (prettyF : Nat → Option (Val → Py Val)) (ss : List Setting) (pretty parse : Bool) :
    settingsMapG prettyF ss .name pretty parse =
      (settingsMapG prettyF ss .enum pretty parse).map (rekey Key.toName) :=
  settingsMapG_name prettyF ss pretty parse

/-- The const-keyed mapping is the enum-keyed mapping with every key replaced by its integer value, provided no
index occurs under both enum identities (the name↔index map is injective on the list). -/
theorem views_agree_const (prettyF : Nat → Option (Val → Py Val)) (ss : List Setting) (pretty parse : Bool)
    (h : NoMixedIdentity ss) :
    settingsMapG prettyF ss .const pretty parse =
      (settingsMapG prettyF ss .enum pretty parse).map (rekey Key.toConst) :=
  settingsMapG_const prettyF ss pretty parse h

/-- Raw mappings never raise. -/
theorem raw_never_raises (prettyF : Nat → Option (Val → Py Val)) (ss : List Setting) (it : IndexType) (parse : Bool) :
    ∃ m, settingsMapG prettyF ss it false parse = .ok m :=
  ⟨_, settingsMapG_raw prettyF ss it parse⟩

/-- With `pretty=True` the `parse` argument is irrelevant. -/
theorem pretty_ignores_parse (prettyF : Nat → Option (Val → Py Val)) (ss : List Setting) (it : IndexType)
    (parse : Bool) : settingsMapG prettyF ss it true parse = settingsMapG prettyF ss it true true :=
  settingsMapG_pretty_parse prettyF ss it parse

/-- **raw = pretty where there is no pretty function**: a pretty mapping that does not raise has the same length
and the same keys in the same order as the raw (parsed) mapping, and equal values under every key whose setting
has no pretty function (`noPretty`: deprecated identity, or index outside the key set of SETTING_TO_PRETTYFUNC). -/
theorem raw_eq_pretty (prettyF : Nat → Option (Val → Py Val)) (ss : List Setting) (it : IndexType)
    (parse : Bool) (mp : List (Key × Val)) (h : settingsMapG prettyF ss it true parse = .ok mp) :
    ∃ mr, settingsMapG prettyF ss it false true = .ok mr ∧
      mp.map Prod.fst = mr.map Prod.fst ∧
      maskVals (noPretty prettyF) mp = maskVals (noPretty prettyF) mr := by
  obtain ⟨mr, h1, h2⟩ := settingsMapG_mask prettyF ss it parse mp h
  refine ⟨mr, h1, ?_, h2⟩
  have := congrArg (List.map Prod.fst) h2
  simpa [maskVals, List.map_map, Function.comp_def] using this

/-- The same for the name-keyed mappings (`settings` against `raw_settings`), whose keys do not expose the index:
both are the re-keyed enum mappings, and those agree off the pretty keys. -/
theorem raw_eq_pretty_name (prettyF : Nat → Option (Val → Py Val)) (ss : List Setting) (parse : Bool)
    (mp : List (Key × Val)) (h : settingsMapG prettyF ss .name true parse = .ok mp) :
    ∃ mpe mre, settingsMapG prettyF ss .enum true parse = .ok mpe ∧ settingsMapG prettyF ss .enum false true = .ok mre ∧
      mp = rekey Key.toName mpe ∧ settingsMapG prettyF ss .name false true = .ok (rekey Key.toName mre) ∧
      maskVals (noPretty prettyF) mpe = maskVals (noPretty prettyF) mre := by
  rw [views_agree_name] at h
  cases he : settingsMapG prettyF ss .enum true parse with
  | error e => rw [he] at h; cases h
  | ok mpe =>
    rw [he] at h
    obtain ⟨mre, h1, _, h3⟩ := raw_eq_pretty prettyF ss .enum parse mpe he
    refine ⟨mpe, mre, rfl, h1, ?_, ?_, h3⟩
    · simp only [Except.map, Except.ok.injEq] at h; exact h.symm
    · rw [views_agree_name, h1]; rfl

/-- With the real dispatch, exactly the indices in the generated key set of SETTING_TO_PRETTYFUNC go through a
pretty function (and only under the `BeaconSetting` identity). -/
theorem dispatch_noPretty (content : Nat → Val → Py Val) (d : Bool) (v : Nat) :
    noPretty (dispatch content) (.enum d v) = (d || !prettyKeys.contains v) ∧
    noPretty (dispatch content) (.const v) = !prettyKeys.contains v := by
  unfold noPretty dispatch
  by_cases hm : v ∈ prettyKeys <;> simp [hm]

/-- Whether and with which exception `settings_map` raises does not depend on the index type. -/
theorem raises_alike (prettyF : Nat → Option (Val → Py Val)) (ss : List Setting) (it it' : IndexType)
    (pretty parse : Bool) (e : PyExc) :
    settingsMapG prettyF ss it pretty parse = .error e ↔ settingsMapG prettyF ss it' pretty parse = .error e :=
  buildDict_error_indep _ _ _ e ss [] []

/-- **All views agree** (the four cached views and `settings_map`): with the dispatch of the real table and any
content of the pretty functions, for a list without mixed identities, the name- and const-keyed mappings are
re-keyings of the enum-keyed one (same length, order, values). -/
theorem views_agree (content : Nat → Val → Py Val) (ss : List Setting) (h : NoMixedIdentity ss) :
    rawSettings content ss = (settingsMap content ss .enum false true).map (rekey Key.toName) ∧
    rawSettingsByIndex content ss = (settingsMap content ss .enum false true).map (rekey Key.toConst) ∧
    settings content ss = (settingsMap content ss .enum true true).map (rekey Key.toName) ∧
    settingsByIndex content ss = (settingsMap content ss .enum true true).map (rekey Key.toConst) :=
  ⟨settingsMapG_name _ ss false true, settingsMapG_const _ ss false true h,
   settingsMapG_name _ ss true true, settingsMapG_const _ ss true true h⟩

/-- Decoder output has no mixed identities unless index 36 occurs both with TYPE_SHORT and with another type. -/
theorem noMixed_of_decoded (d : Bytes)
    (h : ∀ s ∈ iterSettings d, ∀ t ∈ iterSettings d, s.index = 36 → t.index = 36 → (s.type = 1 ↔ t.type = 1)) :
    NoMixedIdentity (iterSettings d) := by
  intro s hs t ht hidx
  have ys := (yielded_fields d s hs).2.2.2.2.2.2
  have yt := (yielded_fields d t ht).2.2.2.2.2.2
  have hw : settingWatermarkHash = 36 := by decide
  have hsh : typeShort = 1 := by decide
  rw [ys, yt, hw, hsh, ← hidx]
  by_cases h36 : s.index = 36
  · have := h s hs t ht h36 (hidx ▸ h36)
    by_cases h1 : s.type = 1
    · simp [h36, h1, this.mp h1]
    · have h2 : ¬ t.type = 1 := fun x => h1 (this.mpr x)
      simp [h1, h2]
  · simp [h36]

/-! ### duplicates -/

/-- **Duplicates follow dict semantics**, for every index type alike: when no value raises (`w` = the stored values),
the keys are the distinct keys in order of *first* occurrence (`pushKey`: an existing key keeps its place), without
repetition, and the value under a key is that of the *last* setting with this key. -/
theorem duplicates_dict_semantics (prettyF : Nat → Option (Val → Py Val)) (ss : List Setting) (it : IndexType)
    (pretty parse : Bool) (w : Setting → Val) (hw : ∀ s ∈ ss, valueOf prettyF pretty parse s = .ok (w s)) :
    ∃ m, settingsMapG prettyF ss it pretty parse = .ok m ∧
      m.map Prod.fst = (ss.map (keyOf it)).foldl pushKey [] ∧
      (m.map Prod.fst).Nodup ∧
      (∀ k, k ∈ m.map Prod.fst ↔ k ∈ ss.map (keyOf it)) ∧
      (∀ k, m.lookup k = (ss.reverse.find? (fun s => keyOf it s = k)).map w) := by
  refine ⟨_, buildDict_ok (keyOf it) _ w ss [] hw, ?_⟩
  have hk := foldl_dictSet_keys (keyOf it) w ss []
  simp only [List.map_nil] at hk
  refine ⟨hk, ?_, ?_, ?_⟩
  · rw [hk]; exact foldl_pushKey_nodup _ [] List.nodup_nil
  · intro k; rw [hk, mem_foldl_pushKey]; simp
  · intro k
    rw [foldl_dictSet_lookup]
    cases ss.reverse.find? (fun s => keyOf it s = k) <;> simp

/-- the raw instance: values are the (parsed) raw values -/
theorem duplicates_raw (prettyF : Nat → Option (Val → Py Val)) (ss : List Setting) (it : IndexType) (parse : Bool) :
    ∃ m, settingsMapG prettyF ss it false parse = .ok m ∧
      m.map Prod.fst = (ss.map (keyOf it)).foldl pushKey [] ∧
      (∀ k, m.lookup k = (ss.reverse.find? (fun s => keyOf it s = k)).map (convert false parse)) := by
  obtain ⟨m, h1, h2, _, _, h5⟩ := duplicates_dict_semantics prettyF ss it false parse (convert false parse)
    (fun s _ => valueOf_raw prettyF parse s)
  exact ⟨m, h1, h2, h5⟩

/-- positions are stable: the keys after a prefix of the settings are a prefix of the final keys -/
theorem keys_first_occurrence (ks1 ks2 : List Key) :
    ks1.foldl pushKey [] <+: (ks1 ++ ks2).foldl pushKey [] := by
  rw [List.foldl_append]; exact foldl_pushKey_prefix ks2 _

/-! ### one object, many accesses -/

/-- **History independence**: on one `BeaconConfig` object (model with the four cache attributes, starting empty),
the answer of every access in any sequence of accesses — the four cached properties, `settings_map` with any
arguments, `setting_enums`, `max_setting_enum`, `settings_tuple` — equals the answer of that single access on a
fresh object; in particular `settings_map` never depends on what a property cached before. -/
theorem views_history_independent (content : Nat → Val → Py Val) (ss : List Setting) (ops : List Op) :
    (runHistory content ss {} ops).1 = ops.map (answer content ss) :=
  (runHistory_valid content ss ops {} (Cache.valid_empty content ss)).1

/-- the same from any cache state reachable by accesses, and the cache only ever holds fresh-computation results -/
theorem cache_stays_valid (content : Nat → Val → Py Val) (ss : List Setting) (ops ops' : List Op) :
    (runHistory content ss (runHistory content ss {} ops).2 ops').1 = ops'.map (answer content ss) :=
  (runHistory_valid content ss ops' _ (runHistory_valid content ss ops {} (Cache.valid_empty content ss)).2).1

/-- a cached property is filled exactly by a successful access to it (a raising pretty function leaves `None`) -/
theorem cache_filled_iff (content : Nat → Val → Py Val) (ss : List Setting) :
    (access content ss {} .settings).2.settings = (settingsMap content ss .name true true).toOption ∧
    (access content ss {} .rawSettings).2.rawSettings = (settingsMap content ss .name false true).toOption := by
  constructor <;> (simp only [access, cachedView]; split <;> simp_all [Except.toOption])

/-! ### the hypotheses are satisfiable / concrete instances -/

/-- a configuration with a SHORT, a deprecated 36, an INT, an empty PTR and an unknown index -/
def sample : List Setting :=
  [⟨1, 1, 2, [0, 8], false⟩, ⟨36, 1, 2, [0, 1], true⟩, ⟨3, 2, 4, [0, 0, 234, 96], false⟩,
   ⟨9, 3, 0, [], false⟩, ⟨75, 3, 1, [7], false⟩, ⟨1, 1, 2, [1, 187], false⟩]

example : WellFormedList sample := by decide
example : NoMixedIdentity sample := by decide
example : ¬ NoMixedIdentity [⟨36, 1, 2, [0, 1], true⟩, ⟨36, 3, 1, [65], false⟩] := by decide
example : serialize sample =
    [0, 1, 0, 1, 0, 2, 0, 8, 0, 36, 0, 1, 0, 2, 0, 1, 0, 3, 0, 2, 0, 4, 0, 0, 234, 96,
     0, 9, 0, 3, 0, 0, 0, 75, 0, 3, 0, 1, 7, 0, 1, 0, 1, 0, 2, 1, 187] := by decide
example : iterSettings (serialize sample ++ [0, 0] ++ [1, 2, 3]) = sample := (parse_serialize sample (by decide) _).1
example : iterSettings ((serialize sample).take 30) = sample.take 3 := by
  have := truncated_drops_partial (sample.take 3) (by decide) ⟨9, 3, 0, [], false⟩ (by decide) [0, 9, 0, 3]
    (by decide) (by decide)
  exact this

/-- an over-long User-Agent: 128 bytes `A` -/
def sampleUA : Setting := ⟨9, 3, 128, List.replicate 128 65, false⟩
theorem sampleUA_ok : sampleUA.Encodable ∧ sampleUA.uaOverlong := by decide +kernel
example : iterSettings (serializeOne sampleUA ++ ([66, 67] ++ 0 :: [0, 1, 2])) =
    [{ sampleUA with value := sampleUA.value ++ [66, 67] }] := by
  have := useragent_continuation [] (by decide) sampleUA sampleUA_ok.1 sampleUA_ok.2 [66, 67] [0, 1, 2] (by decide)
  simp only [serialize, List.flatMap_nil, List.nil_append] at this
  rw [this, iterSettings_parseSpec, parseSpec_terminator]
  rfl

/-- dict semantics on the sample: key 1 keeps its first position and has the last value (443) -/
example : settingsMap (fun i v => .ok (.opaque i v)) sample .const true true =
    .ok [(.const 1, .int 443), (.const 36, .int 1), (.const 3, .int 60000),
         (.const 9, .opaque 9 (.bytes [])), (.const 75, .bytes [7])] := by decide
example : (runHistory (fun i v => .ok (.opaque i v)) sample {} [.rawSettings, .settingsMap .name false false]).1 =
    [answer (fun i v => .ok (.opaque i v)) sample .rawSettings,
     answer (fun i v => .ok (.opaque i v)) sample (.settingsMap .name false false)] :=
  views_history_independent _ _ _
example : nameKey false 75 = ascii "BeaconSetting_75" := by decide +kernel
example : maxSettingEnum sample = .ok 75 ∧ maxSettingEnum [] = .error .valueError := by decide

end C02

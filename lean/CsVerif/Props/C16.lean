import CsVerif.Lemmas.C16
/-! C16 property theorems: raw HTTP messages are parsed into exactly their parts. -/
namespace C16

/-- Percent-decoding inverts percent-encoding, for every byte string. -/
theorem unquote_quote (s : Bytes) : unquote (quote s) = s := unquote_quote' s

/-- …also through the `+` → space step of `parse_qsl` (`quote` never emits `+`). -/
theorem unquote_plus_quote (s : Bytes) : unquote (plusToSpace (quote s)) = s := by
  rw [plusToSpace_quote, unquote_quote']

/-- The body of every parsed message is everything after the FIRST `CRLFCRLF`, byte for byte
(whatever it contains), and empty when the data has no `CRLFCRLF`. -/
theorem body_preserved (data : Bytes) (m : Msg) (h : parseRawHttp data = .ok m) :
    (∀ pre post, data = pre ++ CRLFCRLF ++ post →
        (∀ pre' post', data = pre' ++ CRLFCRLF ++ post' → pre.length ≤ pre'.length) → m.body = post) ∧
    ((∀ pre post, data ≠ pre ++ CRLFCRLF ++ post) → m.body = []) := by
  have hb : m.body = (partition CRLFCRLF data).2 := by
    unfold parseRawHttp at h
    simp only at h
    split at h
    · split at h
      · split at h
        · cases h
        · injection h with h; subst h; rfl
      · cases h
    · split at h
      · split at h
        · cases h
        · injection h with h; subst h; rfl
      · cases h
  obtain ⟨s1, s2⟩ := partition_spec CRLFCRLF data (by simp [CRLFCRLF])
  constructor
  · intro pre post hd hmin
    rw [hb, s1 pre post hd hmin]
  · intro hno
    rw [hb, s2 hno]

/-- What "whitespace-separated tokens" means: every element of `split()` is non-empty and free of
ASCII whitespace (and `splitWs_three` in Lemmas: three such tokens joined by single spaces split
back into themselves). -/
theorem split_tokens (s : Bytes) : ∀ t ∈ splitWs s, isToken t = true := by
  intro t ht
  have := splitWsGo_tokens s [] (by simp) t ht
  simp only [isToken, Bool.and_eq_true, noWs_iff]
  exact ⟨by simpa using this.1, this.2⟩

/-- A first line (`firstLine`: the data before the first CRLFCRLF, cut at its first CRLF — see
`partition_spec`) that does not consist of exactly three whitespace-separated tokens is rejected
with ValueError (and with nothing else). -/
theorem malformed_rejected (data : Bytes) (h : (splitWs (firstLine data)).length ≠ 3) :
    parseRawHttp data = .error .valueError := by
  have h' : (startTokens data).length ≠ 3 := by
    unfold startTokens; rw [splitWs_rstrip]; exact h
  unfold parseRawHttp
  simp only
  split
  · split
    · rename_i heq; rw [heq] at h'; simp at h'
    · rfl
  · split
    · rename_i heq; rw [heq] at h'; simp at h'
    · rfl

/-- No exception other than ValueError can come out, for any input. -/
theorem only_valueError (data : Bytes) (e : PyExc) (h : parseRawHttp data = .error e) :
    e = .valueError := by
  unfold parseRawHttp at h
  simp only at h
  split at h
  · split at h
    · split at h
      · rename_i e' he; injection h with h; rw [← h]; exact pyIntOfBytes_error he
      · cases h
    · injection h with h; exact h.symm
  · split at h
    · split at h
      · rename_i e' he; injection h with h; rw [← h]; exact urlsplit_error he
      · cases h
    · injection h with h; exact h.symm

/-- `dict(pairs)`: keys are unique, ordered by first occurrence, and the LAST value of a key wins. -/
theorem dict_semantics (ps : List (Bytes × Bytes)) :
    ((dictOfList ps).map Prod.fst).Nodup ∧
    (dictOfList ps).map Prod.fst = firstKeys (ps.map Prod.fst) ∧
    ∀ k, (dictOfList ps).lookup k = ps.reverse.lookup k := by
  refine ⟨foldl_dictSet_nodup_keys [] ps (by simp), ?_, ?_⟩
  · have := foldl_dictSet_keys [] ps
    have e : (firstKeys (ps.map Prod.fst)).filter (fun _ => true) = firstKeys (ps.map Prod.fst) :=
      List.filter_eq_self.2 (fun _ _ => rfl)
    simpa [dictOfList, e] using this
  · intro k
    have := foldl_dictSet_lookup [] ps k
    simpa [dictOfList, Option.or_none] using this

/-- The headers of every parsed message are the `Key: value` partitions of the non-empty lines
between the first line and the first `CRLFCRLF`, with dict semantics. -/
theorem headers_dict_semantics (data : Bytes) (m : Msg) (h : parseRawHttp data = .ok m) :
    let ps := headerPairs (splitCRLF (partition CRLF (partition CRLFCRLF data).1).2)
    (m.headers.map Prod.fst).Nodup ∧
    m.headers.map Prod.fst = firstKeys (ps.map Prod.fst) ∧
    ∀ k, m.headers.lookup k = ps.reverse.lookup k := by
  have hb : m.headers = dictOfList (headerPairs (splitCRLF (partition CRLF (partition CRLFCRLF data).1).2)) := by
    unfold parseRawHttp at h
    simp only at h
    split at h
    · split at h
      · split at h
        · cases h
        · injection h with h; subst h; rfl
      · cases h
    · split at h
      · split at h
        · cases h
        · injection h with h; subst h; rfl
      · cases h
  simp only [hb]
  exact dict_semantics _

/-- Responses: for every version token starting with `HTTP/` (any case), every status given as
(at most 4300) ASCII digits, every single-token reason, every well-formed header list and every
body, parsing the rendered message returns exactly those parts. -/
theorem response_roundtrip (version digits reason : Bytes) (headers : List (Bytes × Bytes)) (body : Bytes)
    (h : WellFormedResp version digits reason headers) :
    parseRawHttp (renderResponse version digits reason headers body) =
      .ok (.response (decimalValue digits) reason headers body) := by
  obtain ⟨hv, hhttp, ⟨hdne, hdall, hdlen⟩, hr, hw⟩ := h
  have hdtok : isToken digits = true := by
    simp only [isToken, Bool.and_eq_true, noWs_iff]
    refine ⟨by simpa using hdne, fun b hb => (isDigit_facts b (List.all_eq_true.1 hdall b hb)).2.2.2⟩
  have hstart := startLine_noCR version digits reason hv hdtok hr
  have hp := partition_message _ headers body hstart hw.each
  have hf := partition_firstLine _ headers hstart
  have e1 : firstLine (renderResponse version digits reason headers body) = version ++ 32 :: digits ++ 32 :: reason := by
    simp only [firstLine, renderResponse, hp, hf]
  have e2 : startTokens (renderResponse version digits reason headers body) = [version, digits, reason] := by
    unfold startTokens
    rw [e1, splitWs_rstrip, List.append_assoc]
    exact splitWs_three _ _ _ hv hdtok hr
  have e3 : startsWithHTTP (version ++ 32 :: digits ++ 32 :: reason) = true := by
    rw [List.append_assoc]; exact startsWithHTTP_append_of _ _ hhttp
  unfold parseRawHttp
  simp only [e1, e2, e3, if_true, pyIntOfBytes_digits digits hdne hdall hdlen]
  simp only [renderResponse, hp, hf, parseHeaders_rendered headers hw]

/-- Every status code `n < 10 ^ 4300`, written in decimal, comes back as the integer `n`. -/
theorem response_roundtrip_nat (version reason : Bytes) (headers : List (Bytes × Bytes)) (body : Bytes)
    (n : Nat) (hn : n < 10 ^ maxStrDigits) (hv : isToken version = true)
    (hh : startsWithHTTP version = true) (hr : isToken reason = true) (hw : WellFormedHeaders headers) :
    parseRawHttp (renderResponse version (natDigits n) reason headers body) =
      .ok (.response n reason headers body) := by
  have hlen : (natDigits n).length ≤ maxStrDigits := natDigits_length' maxStrDigits n (by decide) hn
  have := response_roundtrip version (natDigits n) reason headers body
    ⟨hv, hh, ⟨natDigits_ne_nil n, natDigits_all n, hlen⟩, hr, hw⟩
  rw [decimalValue_natDigits] at this
  exact this

/-- Requests: for every method token not starting with `HTTP/` (any case), every path that starts
with `/`, does not start with `//` and consists of ASCII non-whitespace bytes other than `?` `#`,
every parameter list with distinct keys and non-empty values over ARBITRARY bytes (percent-encoded
on the wire), every well-formed header list and every body, parsing the rendered wire form returns
exactly method, path, percent-decoded parameters, headers and body. -/
theorem request_roundtrip (version method path : Bytes) (params headers : List (Bytes × Bytes))
    (body : Bytes) (h : WellFormedReq version method path params headers) :
    parseRawHttp (renderRequest version method path params headers body) =
      .ok (.request method path params headers body) := by
  rw [parseRawHttp_rendered_request version method path params headers body h,
    parseQsl_rendered params h.paramVals, dictOfList_nodup params h.paramKeys]

/-- regression witness of the defect repaired by 5b05344: `GET /?x=%FF HTTP/1.1` -/
example : parseRawHttp ([71, 69, 84, 32, 47, 63, 120, 61, 37, 70, 70, 32, 72, 84, 84, 80, 47, 49, 46, 49] ++ CRLFCRLF) =
    .ok (.request [71, 69, 84] [47] [([120], [255])] [] []) := by decide +kernel

/-- `POST /a;b:c@[d]/%41//e?k%2B%20%25%26%3D=v%2B%25%3D%26%23%3F&=%00%7F&%FF%80=%C3%A9%FF HTTP/1.1` with headers
`Host: a: b` and `X: \n\xff` satisfies the hypotheses (non-trivial path, parameters, headers). -/
example : WellFormedReq [72, 84, 84, 80, 47, 49, 46, 49] [80, 79, 83, 84] [47, 97, 59, 98, 58, 99, 64, 91, 100, 93, 47, 37, 52, 49, 47, 47, 101]
    [([107, 43, 32, 37, 38, 61], [118, 43, 37, 61, 38, 35, 63]), ([], [0, 127]), ([255, 128], [195, 169, 255])]
    [([72, 111, 115, 116], [97, 58, 32, 98]), ([88], [10, 255])] := by
  refine ⟨by decide, by decide, by decide, by decide, by decide, by decide, ⟨by decide, by decide⟩⟩

/-- `http/1.0 0404 \xffO` + `Set-Cookie: a=b` satisfies the response hypotheses. -/
example : WellFormedResp [104, 116, 116, 112, 47, 49, 46, 48] [48, 52, 48, 52] [255, 79]
    [([83, 101, 116, 45, 67, 111, 111, 107, 105, 101], [97, 61, 98])] := by
  refine ⟨by decide, by decide, ⟨by decide, by decide, by decide⟩, by decide, ⟨by decide, by decide⟩⟩

/-- `HTTP/1.1 404 Not Found` has four tokens: rejected. -/
example : (splitWs (firstLine ([72, 84, 84, 80, 47, 49, 46, 49, 32, 52, 48, 52, 32, 78, 111, 116, 32, 70, 111, 117, 110, 100] ++ CRLFCRLF))).length ≠ 3 := by decide

/-- a body containing CRLFCRLF and NULs after the first CRLFCRLF is returned unchanged -/
example : parseRawHttp ([71, 69, 84, 32, 47, 32, 72, 84, 84, 80, 47, 49, 46, 49] ++ CRLFCRLF ++ [0, 13, 10, 13, 10, 0]) =
    .ok (.request [71, 69, 84] [47] [] [] [0, 13, 10, 13, 10, 0]) := by decide +kernel

end C16

import CsVerif.Lemmas.C08
/-! C08 property theorems: untrusted input never crashes or hangs the parsers.

For every entry point that accepts untrusted bytes, every input and both kinds of file object (`io.BytesIO`, OS file):
the model returns its documented result or `ValueError` — never EOFError / OSError / IndexError / OverflowError /
`timeoutDiverge`.  Termination itself is the fact that Lean accepted every model function (see the header of
`Model/C08.lean` for the two guarded loops and the theorems that discharge their guards).

`OkOrValueError r` = "returns, or raises the documented ValueError"; `NeverRaises r` = "returns" (the PE helpers and the
ArtifactKit scanner document no exception at all). -/
namespace C08

def OkOrValueError {α : Type} (r : Py α) : Prop := (∃ a, r = .ok a) ∨ r = .error .valueError

def NeverRaises {α : Type} (r : Py α) : Prop := ∃ a, r = .ok a

theorem NeverRaises.okOrValueError {α : Type} {r : Py α} (h : NeverRaises r) : OkOrValueError r := Or.inl h

theorem okOrValueError_of_error {α : Type} (r : Py α) (h : ∀ e, r = .error e → e = .valueError) : OkOrValueError r := by
  cases hr : r with
  | ok a => exact Or.inl ⟨a, rfl⟩
  | error e => rw [h e hr]; exact Or.inr rfl

/-! ### `only_value_error_<entry>` -/

/-- `parse_raw_http(data)`: a request, a response, or ValueError (C16 `only_valueError`) -/
theorem only_value_error_parseRawHttp (data : Bytes) : OkOrValueError (parseRawHttp data) :=
  okOrValueError_of_error _ (fun e h => C16.only_valueError data e h)

/-- `list(iter_artifactkit_payloads(fobj))` never raises (C15 `artifact_exact`: the only exception of the scanner is a
negative `start_offset`, which the entry point does not pass) -/
theorem only_value_error_iterArtifactkitPayloads (f : PyFile) : NeverRaises (iterArtifactkitPayloads f) := by
  obtain ⟨f', h, _⟩ := C15.artifact_exact f (some 0) (by intro s hs; cases hs; omega) none
  unfold iterArtifactkitPayloads
  rw [h]
  exact ⟨_, rfl⟩

theorem only_value_error_peFindMzOffset (f : PyFile) : NeverRaises (peFindMzOffset f) := ⟨_, rfl⟩

theorem only_value_error_peFindArchitecture (f : PyFile) : NeverRaises (peFindArchitecture f) := ⟨_, rfl⟩

theorem only_value_error_peFindMagicMz (f : PyFile) : NeverRaises (peFindMagicMz f) := ⟨_, rfl⟩

/-- `find_compile_stamps`: the seeks `fh.seek(mz.e_lfanew + mz_offset)` and
`fh.seek(export_rva - section.VirtualAddress + section.PointerToRawData + mz_offset)` are never negative (so neither
ValueError on BytesIO nor OSError on a real file), every EOFError is caught -/
theorem only_value_error_peFindCompileStamps (f : PyFile) : NeverRaises (peFindCompileStamps f) :=
  findCompileStamps_ok f (some 0) MAXRANGE

/-- `find_magic_pe` has no `try`: the EOFError of its struct read is unreachable because `find_mz_offset` has just read
the same 64 bytes -/
theorem only_value_error_peFindMagicPe (f : PyFile) : NeverRaises (peFindMagicPe f) :=
  findMagicPe_ok f (some 0) MAXRANGE

/-- the PE helpers for EVERY `start_offset` (explicit or `None` = current position) and every `maxrange`, not only the
defaults the entry points above use -/
theorem only_value_error_pe_anyStart (f : PyFile) (start : Option Nat) (maxrange : Nat) :
    NeverRaises (C18.findCompileStamps f start maxrange).1 ∧ NeverRaises (C18.findMagicPe f start maxrange).1 ∧
    NeverRaises (C18.findStagePrependAppend f start maxrange).1 :=
  ⟨findCompileStamps_ok f start maxrange, findMagicPe_ok f start maxrange, findStagePrependAppend_ok f start maxrange⟩

/-- `find_stage_prepend_append` on a file object whose `seek` accepts every non-negative offset (the `PyFile` model;
io.BytesIO up to 2^63): `fh.seek(mz_offset + SizeOfHeaders + Σ SizeOfRawData)` is a sum of unsigned fields, far beyond
the end of the data is allowed (the read returns `b""`).  For file objects with a largest offset see `…_full` below. -/
theorem only_value_error_peFindStagePrependAppend_unlimited (f : PyFile) : NeverRaises (peFindStagePrependAppend f) :=
  findStagePrependAppend_ok f (some 0) MAXRANGE

/-- **Full statement** (holds since fix ce8ae1d): for every largest offset `L` the file object's `seek` accepts
(OS file: the file system's limit, EINVAL → OSError above it, e.g. `2^44 - 4096` on ext4 with 4 KiB blocks; io.BytesIO:
`2^63 - 1`, OverflowError above it), every content, position and file kind, `find_stage_prepend_append` returns.
No lower bound on `L` is needed: whatever the final `fh.seek(mz_offset + size)` raises is caught. -/
theorem only_value_error_peFindStagePrependAppend_full (L : Nat) (f : PyFile) :
    NeverRaises (peFindStagePrependAppendL L f) :=
  findStagePrependAppendL_ok L f

/-- … and for ANY behaviour of the file object's final `seek` that stays inside the `except` clause
`(OSError, OverflowError, ValueError)` (e.g. a negative-offset rejection, were it reachable) -/
theorem only_value_error_peFindStagePrependAppend_anySeek (sk : PyFile → Int → Py (Nat × PyFile)) (f : PyFile)
    (hsk : ∀ g t e, sk g t = .error e → seekCaught e = true) :
    NeverRaises (peFindStagePrependAppendG true sk f) :=
  findStagePrependAppendG_ok sk f hsk

/-- the limit is not observable in the result: as long as the file itself fits below `L`, the limited model returns
exactly what the unlimited (C18) model returns — a rejected seek and an accepted seek beyond the end of the data both
give `(prepend, None)` -/
theorem peFindStagePrependAppend_limit_irrelevant (L : Nat) (f : PyFile) (hL : f.data.length ≤ L) :
    peFindStagePrependAppendL L f = peFindStagePrependAppend f :=
  findStagePrependAppendL_eq L f hL

/-! #### history: the code before fix ce8ae1d (bare `fh.seek(mz_offset + size)`) -/

/-- the statement for the OLD code — refuted below -/
def only_value_error_peFindStagePrependAppend_old : Prop :=
  ∀ (L : Nat) (f : PyFile), 2 ^ 34 ≤ L → NeverRaises (peFindStagePrependAppendLOld L f)

/-- a 512-byte image: DOS header (`e_lfanew = 64`), `PE\0\0`, i386 file header with 5 sections, zeroed optional header,
5 section headers with `SizeOfRawData = 0xFFFFFFFF` -/
def ppaWitness : Bytes :=
  [0x4d, 0x5a] ++ List.replicate 58 0 ++ [64, 0, 0, 0] ++ [0x50, 0x45, 0, 0] ++
  [0x4c, 0x01, 5, 0] ++ List.replicate 12 0 ++ [224, 0, 0x02, 0x21] ++ List.replicate 224 0 ++
  (List.replicate 5 (List.replicate 16 0 ++ [0xff, 0xff, 0xff, 0xff] ++ List.replicate 20 0)).flatten

/-- the witness: on an OS file whose file system ends at 16 GiB the final `fh.seek(mz_offset + size)` is rejected; the
old code let `OSError` escape, the current code returns `(None, None)` (as it does on io.BytesIO).  The real library on
the sandbox's ext4 needed 4096 sections for the same effect (finding `C08-ppa-seek-beyond-fs-limit`, repaired). -/
theorem ppaWitness_old_raises_new_returns :
    peFindStagePrependAppendLOld (2 ^ 34) ⟨ppaWitness, 0, .osFile⟩ = .error .osError ∧
    peFindStagePrependAppendL (2 ^ 34) ⟨ppaWitness, 0, .osFile⟩ = .ok (none, none) ∧
    peFindStagePrependAppend ⟨ppaWitness, 0, .bytesIO⟩ = .ok (none, none) := by decide +kernel

theorem only_value_error_peFindStagePrependAppend_refutes_old : ¬ only_value_error_peFindStagePrependAppend_old := by
  intro h
  obtain ⟨r, hr⟩ := h (2 ^ 34) ⟨ppaWitness, 0, .osFile⟩ (Nat.le_refl _)
  rw [ppaWitness_old_raises_new_returns.1] at hr
  cases hr

/-- the refined model with an unlimited seek is the C18 model, with or without the `try` (so the copy in
`Model/C08.lean` cannot drift) -/
theorem prependAppendAtG_is_C18 (guarded : Bool) (f : PyFile) (o : Nat) :
    prependAppendAtG guarded PyFile.seekSet f o = C18.prependAppendAt f o :=
  prependAppendAtG_seekSet guarded f o

/-- `XorEncodedFile.from_file`: a view, or the documented ValueError -/
theorem only_value_error_xorEncodedFromFile (B : Nat) (f : PyFile) : OkOrValueError (xorEncodedFromFile B f) :=
  okOrValueError_of_error _ (xorEncodedFromFile_error B f)

/-- the Guardrails fallback inside `from_file` (marker scan over the whole file, guard-settings loop, key recovery):
the first record with a recovered configuration, or the documented ValueError — for every content and file kind
(negative seek from a marker in the first 6138 bytes and EOFError of an unterminated guard configuration are dead) -/
theorem only_value_error_guardrailsFallback (B : Nat) (f : PyFile) : OkOrValueError (C17.fromFileFallback f B) :=
  okOrValueError_of_error _ (fun e h => C17.fallback_errors_only_valueError f B e h)

/-- `BeaconConfig.from_file(fobj, xor_keys, all_xor_keys)` for every content, file kind, initial position, key list and
both values of `all_xor_keys`: a `BeaconConfig`, or the documented ValueError -/
theorem only_value_error_fromFile (B : Nat) (hB : 1 ≤ B) (f : PyFile) (ks : List Bytes) (allKeys : Bool) :
    OkOrValueError (fromFile B f ks allKeys) :=
  okOrValueError_of_error _ (fromFile_error B hB f ks allKeys)

theorem only_value_error_fromBytes (B : Nat) (hB : 1 ≤ B) (data : Bytes) (ks : List Bytes) (allKeys : Bool) :
    OkOrValueError (fromBytes B data ks allKeys) :=
  only_value_error_fromFile B hB _ ks allKeys

theorem only_value_error_fromPath (B : Nat) (hB : 1 ≤ B) (data : Bytes) (ks : List Bytes) (allKeys : Bool) :
    OkOrValueError (fromPath B data ks allKeys) :=
  only_value_error_fromFile B hB _ ks allKeys

/-- in particular no guarded loop ever reports divergence -/
theorem never_diverges_fromFile (B : Nat) (hB : 1 ≤ B) (f : PyFile) (ks : List Bytes) (allKeys : Bool) :
    fromFile B f ks allKeys ≠ .error .timeoutDiverge := by
  intro h
  have := fromFile_error B hB f ks allKeys _ h
  cases this

/-! ### `not_found_values`: the documented "nothing found" results -/

/-- no offset below `maxrange` carries a DOS header with `0 < e_lfanew < maxrange` and an x86/x64 file header: every
PE helper returns its documented not-found value (`None`, `(None, None)`) -/
theorem not_found_values_pe (f : PyFile) (h : C18.NoEarlierCandidate f.data 0 MAXRANGE MAXRANGE) :
    peFindMzOffset f = .ok none ∧ peFindArchitecture f = .ok none ∧ peFindCompileStamps f = .ok (none, none) ∧
    peFindMagicMz f = .ok none ∧ peFindMagicPe f = .ok none ∧ peFindStagePrependAppend f = .ok (none, none) ∧
    (∀ L, peFindStagePrependAppendL L f = .ok (none, none)) := by
  have hmz := C18.mz_offset_none f 0 MAXRANGE h
  have harch := findArchitecture_none f 0 MAXRANGE h
  rcases hr : C18.findMzOffset f (some 0) MAXRANGE with ⟨r, f1⟩
  rw [hr] at hmz
  simp only at hmz
  subst hmz
  refine ⟨?_, ?_, ?_, ?_, ?_, ?_, ?_⟩
  · simp only [peFindMzOffset, hr]
  · simp only [peFindArchitecture, harch]
  · simp only [peFindCompileStamps, C18.findCompileStamps, hr]
  · simp only [peFindMagicMz, C18.findMagicMz, hr]
  · simp only [peFindMagicPe, C18.findMagicPe, hr]
  · simp only [peFindStagePrependAppend, C18.findStagePrependAppend, hr]
  · intro L; unfold peFindStagePrependAppendL peFindStagePrependAppendG; rw [hr]

/-- the ArtifactKit scanner on a file without a matching header yields nothing (an empty iterator, no exception) -/
theorem not_found_values_artifactkit (f : PyFile) (h : C15.artifactOffsets f.data 0 none = []) :
    iterArtifactkitPayloads f = .ok [] := by
  obtain ⟨f', h1, _⟩ := C15.artifact_exact f (some 0) (by intro s hs; cases hs; omega) none
  unfold iterArtifactkitPayloads
  rw [h1]
  simp only [C15.startPos, Int.toNat_zero, C15.artifactHits, h, List.map_nil]

/-- a view returned by the detector has its nonce and size dwords inside the data; in particular data of at most
8 bytes is never taken for an XorEncoded stage: `ValueError` -/
theorem not_found_values_xorEncoded (B : Nat) (f : PyFile) :
    (∀ c, xorEncodedFromFile B f = .ok c → c + 8 ≤ f.data.length) ∧
    (f.data.length ≤ 8 → xorEncodedFromFile B f = .error .valueError) := by
  obtain ⟨dx, fFail, hdet, _, _, hb⟩ := detectRun_ok B f
  have hb' : ∀ xf, dx = some xf → xf.nonceOff + 8 < f.data.length := by
    intro xf hxf
    subst hxf
    exact detectRun_some_lt B f _ _ hdet
  unfold xorEncodedFromFile
  rw [hdet]
  cases dx with
  | none => exact ⟨fun c hc => (by cases hc), fun _ => rfl⟩
  | some xf =>
    refine ⟨?_, ?_⟩
    · intro c hc
      simp only at hc
      injection hc with hc
      subst hc
      exact hb xf rfl
    · intro hl
      have := hb' xf rfl
      omega

/-- `from_file` when the block search yields nothing and the Guardrails fallback recovers nothing: exactly the
documented `ValueError("No valid Beacon configuration found")`.  (`hc`: no `CONFIG_HEADER ⊕ key` occurrence under a
tried key in the decoded view or in the file itself — C01's candidate list; `hg`: no scanned Guardrails record has a
key candidate with a matching checksum — C17's `NoMatch`.) -/
theorem not_found_values_fromFile (B : Nat) (hB : 1 ≤ B) (f : PyFile) (ks : List Bytes)
    (dx : Option C09.XorFile) (fFail : PyFile) (hdet : C01.detectRun B f = .ok (dx, fFail))
    (hc : C01.candidates (C01.views f.data (dx.map (·.nonceOff))) (C01.effKeys ks) = [])
    (hg : ∀ ms, C17.iterGuardrailConfigs (fhFor f (dx.map (·.nonceOff))) = .ok ms → ∀ m ∈ ms, C17.NoMatch B m) :
    fromFile B f ks false = .error .valueError := by
  obtain ⟨dx', fFail', hdet', _, _, hb⟩ := detectRun_ok B f
  rw [hdet] at hdet'
  injection hdet' with hdet'
  obtain ⟨rfl, rfl⟩ := Prod.mk.inj hdet'
  have hdetOk : ∀ c, dx.map (·.nonceOff) = some c → c + 8 ≤ f.data.length := by
    intro c hc'
    cases dx with
    | none => cases hc'
    | some xf =>
      simp only [Option.map_some, Option.some.injEq] at hc'
      subst hc'
      exact hb xf rfl
  obtain ⟨p1, p2⟩ := C01.pass_spec B hB f (C01.effKeys ks) (dx.map (·.nonceOff)) hdetOk
  rw [hc] at p1
  have hnil : (C01.pass B f (C01.effKeys ks) true (dx.map (·.nonceOff))).1 = [] := by
    cases hp : (C01.pass B f (C01.effKeys ks) true (dx.map (·.nonceOff))).1 with
    | nil => rfl
    | cons y ys => rw [hp] at p1; simp at p1
  have hnone := p2 hnil
  have hs : search B f ks false (dx.map (·.nonceOff)) fFail.pos = .ok none := by
    unfold search
    simp only [hnil, hnone]
    rfl
  unfold fromFile
  rw [hdet]
  simp only [hs]
  rw [C17.no_match_valueError _ B hg]

/-- **not_found_values** (DESIGN §C08): the documented "nothing found" result of every scanning entry point
(`from_file`: `not_found_values_fromFile`; `parse_raw_http` has no such value, see C16 `malformed_rejected`) -/
theorem not_found_values (B : Nat) (f : PyFile) :
    (C18.NoEarlierCandidate f.data 0 MAXRANGE MAXRANGE →
      peFindMzOffset f = .ok none ∧ peFindArchitecture f = .ok none ∧ peFindCompileStamps f = .ok (none, none) ∧
      peFindMagicMz f = .ok none ∧ peFindMagicPe f = .ok none ∧ peFindStagePrependAppend f = .ok (none, none) ∧
      (∀ L, peFindStagePrependAppendL L f = .ok (none, none))) ∧
    (C15.artifactOffsets f.data 0 none = [] → iterArtifactkitPayloads f = .ok []) ∧
    (f.data.length ≤ 8 → xorEncodedFromFile B f = .error .valueError) :=
  ⟨not_found_values_pe f, not_found_values_artifactkit f, (not_found_values_xorEncoded B f).2⟩

/-! ### no unbounded looping: sizes of what the scanning loops can produce

Every loop of the composed models is either a structural recursion over `List.range maxrange` (the 1024-step scans of
`find_mz_offset`, `find_architecture`, `iter_nonce_offsets`), over a list computed before (candidates, keys, sections,
settings of a fixed-size area), or a recursion on the measure `|data| - position` that Lean checked to decrease with
every iteration (`iter_find_needle`, the ArtifactKit scan, the Guardrails marker scan, `XorEncodedFile.read`, the
4-gram counter): at most `|data| + 1` iterations each.  The theorems below state the consequences that are visible in
the results.  Wall-clock time is not a Lean notion (DESIGN §C08: partial). -/

/-- the Guardrails marker scan reports at most one record per byte offset -/
theorem guard_scan_bound (f : PyFile) (xorkey : Bytes) (ms : List C17.Meta)
    (h : C17.iterGuardrailConfigs f xorkey = .ok ms) : ms.length ≤ f.data.length := by
  rw [C17.iterGuardrailConfigs_eq] at h
  injection h with h
  rw [← h]
  exact Nat.le_trans (List.length_filterMap_le _ _) (by simp)

/-- the ArtifactKit scan reports at most one payload per byte offset -/
theorem artifact_scan_bound (f : PyFile) (hits : List C15.Hit) (h : iterArtifactkitPayloads f = .ok hits) :
    hits.length ≤ f.data.length := by
  obtain ⟨f', h1, _⟩ := C15.artifact_exact f (some 0) (by intro s hs; cases hs; omega) none
  unfold iterArtifactkitPayloads at h
  rw [h1] at h
  simp only at h
  injection h with h
  rw [← h]
  simp only [C15.artifactHits, List.length_map, C15.artifactOffsets]
  exact Nat.le_trans (List.length_filter_le _ _) (by simp)

/-- the XorEncoded detector tries at most one nonce-offset candidate per `ff ff ff` marker hit and per size-consistent
offset, and there are at most `maxrange` of the latter; each candidate costs one bounded (`maxrange`-step) MZ search.
(This is the measured worst case of the real library: ~1000 markers in the first KiB ⇒ ~10^6 struct reads, ≈ 20 s per
`XorEncodedFile.from_file` call, independent of the file size.) -/
theorem detector_candidates_bound (f : PyFile) (maxrange : Nat) (hits l : List Nat) (f1 : PyFile)
    (h : C09.iterNonceOffsets f none maxrange = .ok (l, f1)) :
    (C09.candidates hits l).length ≤ hits.length + maxrange := by
  have h1 := candidates_length hits l
  have h2 : l.length ≤ maxrange := by
    simp only [C09.iterNonceOffsets, PyFile.seekEnd] at h
    rw [C09.seekRel_ok f f.data.length 0 f.data.length (by omega)] at h
    exact nonceLoop_length _ _ _ _ _ _ h
  omega

/-- **step bound of the XorEncoded detector** (`XorEncodedFile.from_file`, run up to three times per `from_file`): the
candidate loop tries at most `|data| + 1024` nonce offsets — one per `ff ff ff` occurrence reported by the marker scan
(at most one per byte of the file) and one per size-consistent offset below `maxrange = 1024` — and each candidate costs
one `find_mz_offset` on the view, a structural recursion over `range(1024)` (`C09.mzLoop`, counter `k = maxrange`) with
two bounded struct reads per step.  Hence at most `(|data| + 1024) · 1024` loop iterations per detector run. -/
theorem detector_step_bound (B : Nat) (hB : 1 ≤ B) (f : PyFile) (offs : List Nat) (f1 : PyFile) (hits : List Int) (f2 : PyFile)
    (h1 : C09.iterNonceOffsets f none 1024 = .ok (offs, f1))
    (h2 : C15.iterFindNeedle B f1 [0xff, 0xff, 0xff] (some 0) 1024 = .ok (hits, f2)) :
    (C09.candidates (hits.map Int.toNat) offs).length ≤ f.data.length + 1024 := by
  have hc := detector_candidates_bound f 1024 (hits.map Int.toNat) offs f1 h1
  obtain ⟨l', f1', h1', hd1, _⟩ := C09.iterNonceOffsets_ok f 1024
  rw [h1] at h1'
  injection h1' with h1'
  have hf1 : f1 = f1' := (Prod.mk.inj h1').2
  subst hf1
  have hsub := C15.needle_limit_sublist B hB f1 [0xff, 0xff, 0xff] (by decide) (some 0) 1024 hits f2 h2
  have hlen := hsub.length_le
  simp only [List.length_map] at hlen hc
  have hocc : ((C15.occ f1.data [0xff, 0xff, 0xff]).filter (fun i => C15.startPos f1 (some 0) ≤ i)).length ≤ f1.data.length := by
    refine Nat.le_trans (List.length_filter_le _ _) ?_
    unfold C15.occ
    refine Nat.le_trans (List.length_filter_le _ _) ?_
    simp
  have hl : f1.data.length = f.data.length := by rw [hd1]
  omega

/-- settings decoding consumes at least 6 bytes per setting: at most `|block| / 6` settings (C02 `parse_sound` gives the
exact characterisation; here only the count) -/
theorem settings_terminate (block : Bytes) : ∃ ss, C02.iterSettingsE block = .ok ss :=
  ⟨_, C02.iterSettingsE_eq block⟩

/-! ### the XorEncoded view handed to the PE helpers and to the Guardrails scan

`from_file` passes the *view* to `pe.find_compile_stamps`, `pe.find_architecture` and
`iter_guardrail_configs_with_beacon`; the model runs them on `viewFile`.  This is C09's refinement theorem, restated
for the object `from_file` holds: every history of `seek` / `read` / `tell` whose seeks land at logical positions ≥ 0
(the three clients only perform absolute seeks to non-negative offsets: their PyFile models have an explicit error
branch for a negative one, proved dead above) gives on the view exactly the outputs it gives on `viewFile`. -/
theorem view_refines (f : PyFile) (c : Nat) (hc : c + 8 ≤ f.data.length) (ops : List C09.Op)
    (hops : C09.seeksNonneg (f.data.length - (c + 8)) 0 ops = true) :
    ∃ x outs pf' x', C01.openView f c = .ok x ∧
      C09.plainRun (viewFile f c) ops = .ok (outs, pf') ∧
      C09.run x ops = .ok (outs.map (C09.Out.shift (c + 8)), x') := by
  obtain ⟨x, hx, hA⟩ := C01.openView_spec f c hc
  have hlen : (f.data.drop (c + 8)).length = f.data.length - (c + 8) := by simp
  have htake : (f.data.take c).length = c := by simp; omega
  obtain ⟨outs, pf', h1, h2, _⟩ := C09.history_refines hA.layout 0 hA.pos f.kind ops (by rw [hlen]; exact hops)
  rw [htake] at h2
  exact ⟨x, outs, pf', _, hx, h1, h2⟩

/-! ### the hypotheses are satisfiable / concrete instances (evaluated by the kernel) -/

/-- a raw block under key 0x2e behind one byte of filler -/
def exRaw : Bytes := [0x41] ++ C20.xor [0, 1, 0, 1, 0, 2, 0, 8, 0, 0] [0x2e]

set_option maxRecDepth 100000 in
example : (fromBytes 8192 exRaw [] false).toOption.map
    (fun x => (x.guardrails, x.xorkey, x.xorencoded, x.settings.length)) = some (false, [0x2e], false, 1) ∧
    (fromBytes 8192 exRaw [] false).toOption.map (fun x => (x.compileStamp, x.exportStamp, x.arch)) = some (none, none, none) := by
  decide +kernel

-- PE-embedded (C18's sample image with a prepended stub): the artifacts are attached
set_option maxRecDepth 100000 in
example : (fromPath 8192 (C18.samplePrepend ++ C18.sampleImage ++ exRaw) [] false).toOption.map
    (fun x => (x.xorkey, x.compileStamp, x.exportStamp, x.arch))
    = some ([0x2e], some 0x5F94C216, some 0x603E2D9D, some .x86) := by decide +kernel

set_option maxRecDepth 100000 in
example : fromBytes 8192 [] [] false = .error .valueError ∧ fromPath 8192 [0x4d, 0x5a, 0xff, 0xff, 0xff] [] true = .error .valueError := by
  decide +kernel

set_option maxRecDepth 100000 in
example : C18.NoEarlierCandidate (PyFile.ofBytes [0x4d, 0x5a]).data 0 MAXRANGE MAXRANGE := by decide +kernel

example : C15.artifactOffsets (PyFile.ofBytes [16, 0, 0]).data 0 none = [] := by decide +kernel

example : parseRawHttp [0x47] = .error .valueError := by decide +kernel

/-- a history with non-negative seeks on the view of C01's sample stage -/
example : C09.seeksNonneg (C01.exStage.length - (1 + 8)) 0 [.seek 3 0, .read (some 4), .tell, .seek 0 2, .read none] = true := by
  decide

end C08

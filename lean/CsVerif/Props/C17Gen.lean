import CsVerif.Lemmas.C17Gen
import CsVerif.Lemmas.C17GenU
import CsVerif.Props.C17
/-!
C17 — the tie between the source text and the model, by translation.

`Gen/PyGuard.lean` is produced on every run by `tools/py2lean.py` (typed translator) from the *source* of
`guardrails.payload_checksum`; `Gen/PyGuardU.lean` by `tools/py2leanu.py` (untyped translator, plug-in `tools/gen/py_guardu.py`) from
the source of the three generator functions `iter_guardrail_configs_with_beacon`, `find_xor_key_candidates` and
`iter_guardrail_configs`.  In the untyped translation every Python value is a `PyU.V`, every Python operation one total function of
`Model/PyU.lean` (+ `PyU_T15.lean` file objects, `PyU_T02.lean` cstruct structures / `try`, `PyU_T17.lean`); a generator function is
the list of its yields; a function with a file parameter also returns the file object afterwards; each loop is a separate definition
run by `PyU.whileFuel` / `forList` / `forListElse` (`for … else`).

  * `gen_payload_checksum`: the typed translation computes `C17.payloadChecksum`.
  * `gen_iter_guardrail_configs_with_beacon`: the translated selection loop — with `iter_guardrail_configs(fh)` and
    `find_xor_key_candidates(io.BytesIO(…))` EXTERNAL (any functions that answer a list of metadata records / of candidate keys),
    `payload_checksum` and `utils.xor` the typed translations — computes exactly `C17Gen.withBeaconOneC` (= `C17.withBeaconOne` with
    the candidate keys as a parameter: unmask with 0x2e, first candidate whose `payload_checksum(unguarded) + 1 == checksum` wins,
    otherwise metadata only) for every record.  `gen_only_if_checksum` is the central property for the translated definition:
    whatever the two external functions answer, no configuration is reported unless its checksum matches.
  * `gen_find_xor_key_candidates`: for every file object, every `io.DEFAULT_BUFFER_SIZE ≥ 0` and every fuel above the file length
    the translated definition computes `C17.findXorKeyCandidates`.
  * `gen_iter_guardrail_configs`: for every file object (BytesIO or OS file, any position), every `bytes` mask key and every fuel
    from `C17Gen.scanFuel` on, the translated scan computes `C17.iterGuardrailConfigs`; `gen_scan_reports_iff` /
    `gen_marker_found` restate the scan theorems for it.
  * `gen_pipeline`: the translated selection loop over the other two translated definitions (the composition the driver runs in
    the `g-wb` stream) computes `C17.iterGuardrailConfigsWithBeacon`; `gen_only_if_checksum_pipeline`.
So every theorem of `Props/C17.lean` about these functions is a theorem about the function text as it stands now, and an edit that
changes the meaning of one of them breaks the proof here.  Helper lemmas: `Lemmas/C17Gen.lean`, `Lemmas/C17GenU.lean`.
-/
namespace C17Gen
open PyU

theorem gen_payload_checksum (d : Bytes) :
    Gen.PyGuard.payload_checksum d = .ok ((C17.payloadChecksum d : Nat) : Int) := payload_checksum_eq' d

example : Gen.PyGuard.payload_checksum [1, 2, 3, 255] = .ok 269 := by decide

/-! ### the selection loop: `iter_guardrail_configs_with_beacon` -/

/-- The definition translated from the source of `iter_guardrail_configs_with_beacon`, for ANY external functions: when
`iter_guardrail_configs(fh)` answers the records `ms` (and leaves the file as `fh'`) and `find_xor_key_candidates(io.BytesIO(g))`
answers the keys `cands g`, the translated generator yields exactly the model's selection `withBeaconOneC cands` of every
record, in order, and returns the file as the scan left it. -/
theorem gen_iter_guardrail_configs_with_beacon (xi xc : V → Py V) (fh fh' : V) (ms : List C17.Meta) (cands : Bytes → List Bytes)
    (hi : xi fh = .ok (.tuple [.list (ms.map encMeta), fh']))
    (hc : ∀ g : Bytes, xc (.bytesIO g 0) = .ok (.list ((cands g).map V.bytes))) :
    Gen.PyGuardU.iter_guardrail_configs_with_beacon xi xc fh
      = .ok (.tuple [.list ((ms.map (withBeaconOneC cands)).map encMeta), fh']) :=
  gen_iter_guardrail_configs_with_beacon_proof xi xc fh fh' ms cands hi hc

/-- an exception of the external scan is the exception of the translated generator -/
theorem gen_iter_guardrail_configs_with_beacon_error (xi xc : V → Py V) (fh : V) (e : PyExc) (hi : xi fh = .error e) :
    Gen.PyGuardU.iter_guardrail_configs_with_beacon xi xc fh = .error e := by
  simp only [Gen.PyGuardU.iter_guardrail_configs_with_beacon, hi]
  rfl

/-- the model's selection function is the instance "candidates = `find_xor_key_candidates`" -/
theorem withBeaconOne_is_instance (bufSize : Nat) :
    C17.withBeaconOne bufSize = withBeaconOneC (fun g => C17.findXorKeyCandidates g bufSize) := withBeaconOne_eq bufSize

theorem withBeaconOneC_checksum (cands : Bytes → List Bytes) (m : C17.Meta) : (withBeaconOneC cands m).checksum = m.checksum := by
  unfold withBeaconOneC; simp only []; split <;> rfl

theorem withBeaconOneC_masked (cands : Bytes → List Bytes) (m : C17.Meta) :
    (withBeaconOneC cands m).maskedBeaconConfig = m.maskedBeaconConfig := by
  unfold withBeaconOneC; simp only []; split <;> rfl

/-- what the selection can do to one record that carries no configuration yet -/
theorem withBeaconOneC_config {cands : Bytes → List Bytes} {m : C17.Meta} {u : Bytes} (h0 : m.unmaskedBeaconConfig = none)
    (h : (withBeaconOneC cands m).unmaskedBeaconConfig = some u) :
    C17.payloadChecksum u + 1 = m.checksum ∧
      ∃ k, (withBeaconOneC cands m).payloadXorKey = some k ∧
        k ∈ cands (C20.xor m.maskedBeaconConfig Gen.Guardrails.beaconXorKey) ∧
        u = C20.xor (C20.xor m.maskedBeaconConfig Gen.Guardrails.beaconXorKey) k := by
  unfold withBeaconOneC at h ⊢
  simp only [] at h ⊢
  split at h
  · rename_i k u' hs
    simp only [Option.some.injEq] at h
    subst h
    obtain ⟨a, b, c⟩ := C17.selectKey_some hs
    exact ⟨c.symm, k, rfl, a, b⟩
  · rw [h0] at h; cases h

/-- **only_if_checksum for the translated definition** (unconditional in the two external functions): whatever records the
scan answers (without a configuration, as the scan builds them) and whatever candidate keys are offered, every record the
translated generator yields with an unmasked configuration `u` has `payload_checksum(u) + 1 == checksum`, and `u` is the masked
area unmasked with 0x2e and the reported key, which is one of the offered candidates. -/
theorem gen_only_if_checksum (xi xc : V → Py V) (fh fh' : V) (ms : List C17.Meta) (cands : Bytes → List Bytes)
    (hi : xi fh = .ok (.tuple [.list (ms.map encMeta), fh']))
    (hc : ∀ g : Bytes, xc (.bytesIO g 0) = .ok (.list ((cands g).map V.bytes)))
    (hnone : ∀ m ∈ ms, m.unmaskedBeaconConfig = none) :
    ∃ out : List C17.Meta,
      Gen.PyGuardU.iter_guardrail_configs_with_beacon xi xc fh = .ok (.tuple [.list (out.map encMeta), fh']) ∧
      out.length = ms.length ∧
      ∀ m ∈ out, ∀ u, m.unmaskedBeaconConfig = some u →
        C17.payloadChecksum u + 1 = m.checksum ∧
          ∃ k, m.payloadXorKey = some k ∧ k ∈ cands (C20.xor m.maskedBeaconConfig Gen.Guardrails.beaconXorKey) ∧
            u = C20.xor (C20.xor m.maskedBeaconConfig Gen.Guardrails.beaconXorKey) k := by
  refine ⟨ms.map (withBeaconOneC cands), gen_iter_guardrail_configs_with_beacon xi xc fh fh' ms cands hi hc, by simp, ?_⟩
  intro m hm u hu
  simp only [List.mem_map] at hm
  obtain ⟨m0, hm0, rfl⟩ := hm
  rw [withBeaconOneC_checksum, withBeaconOneC_masked]
  exact withBeaconOneC_config (hnone m0 hm0) hu

/-! ### the candidate keys: `find_xor_key_candidates` -/

/-- The definition translated from the source of `find_xor_key_candidates`, for every file object (BytesIO or OS file, any
position), `io.DEFAULT_BUFFER_SIZE = bufSize` and every fuel above the length of the file: the keys of the model, and the file
at its end (at 0 when the buffer size is 0: every read is empty). -/
theorem gen_find_xor_key_candidates (bufSize : Nat) (f : PyFile) (fuel : Nat) (hf : f.data.length < fuel) :
    Gen.PyGuardU.find_xor_key_candidates (.int (bufSize : Int)) fuel (encFile f)
      = .ok (encCands (C17.findXorKeyCandidates f.data bufSize) (candEnd bufSize f)) :=
  gen_find_xor_key_candidates_proof bufSize f fuel hf

/-- the form the driver runs (`g-cands`) -/
theorem gen_findXorKeyCandidatesG (bufSize : Nat) (f : PyFile) :
    findXorKeyCandidatesG bufSize f = .ok (encCands (C17.findXorKeyCandidates f.data bufSize) (candEnd bufSize f)) :=
  gen_find_xor_key_candidates bufSize f (candFuel f) (by unfold candFuel; omega)

/-- `key_is_candidate` for the translated definition: when the environmental key's aligned n-gram strictly dominates, the
translated generator yields it -/
theorem gen_key_is_candidate (bufSize : Nat) (guarded K : Bytes) (h2 : 2 ≤ K.length) (h256 : K.length ≤ 256)
    (hdom : C17.StrictlyMostCommon K (C17.gramsOf bufSize K.length guarded)) (kind : FileKind) (pos : Nat) :
    ∃ ks, findXorKeyCandidatesG bufSize { data := guarded, pos := pos, kind := kind } = .ok (encCands ks (candEnd bufSize { data := guarded, pos := pos, kind := kind }))
      ∧ K ∈ ks :=
  ⟨_, gen_findXorKeyCandidatesG bufSize _, (C17.key_is_candidate bufSize guarded K h2 h256 hdom).2⟩

/-! ### the marker scan: `iter_guardrail_configs` -/

/-- The definition translated from the source of `iter_guardrail_configs`, for every file object (BytesIO or OS file, any
position), every `bytes` mask key and every fuel from `|file| + settingsFuel + 2` on (both `while True:` loops run on the same
fuel): the records of the model, and the file at its end. -/
theorem gen_iter_guardrail_configs (f : PyFile) (xorkey : Bytes) (fuel : Nat) (hf : f.data.length + settingsFuel + 2 ≤ fuel) :
    Gen.PyGuardU.iter_guardrail_configs fuel (encFile f) (.bytes xorkey)
      = (C17.iterGuardrailConfigs f xorkey).map (fun ms => encMetas ms (atEnd f)) :=
  gen_iter_guardrail_configs_proof f xorkey fuel hf

/-- the form the driver runs (`g-scan`) -/
theorem gen_iterGuardrailConfigsG (f : PyFile) (xorkey : Bytes) :
    iterGuardrailConfigsG f xorkey = (C17.iterGuardrailConfigs f xorkey).map (fun ms => encMetas ms (atEnd f)) :=
  gen_iter_guardrail_configs f xorkey (scanFuel f) (Nat.le_refl _)

/-- the translated scan never raises -/
theorem gen_scan_total (f : PyFile) (xorkey : Bytes) :
    ∃ ms, iterGuardrailConfigsG f xorkey = .ok (encMetas ms (atEnd f)) := by
  obtain ⟨ms, h⟩ := C17.iterGuardrailConfigs_total f xorkey
  exact ⟨ms, by rw [gen_iterGuardrailConfigsG, h]; rfl⟩

/-- **scan_reports_iff for the translated definition**: the translated scan yields the encodings of records `ms` such that a
record is among them iff it is the record built at an offset where the marker relation holds and a 6144-byte area fits in front -/
theorem gen_scan_reports_iff (f : PyFile) (xorkey : Bytes) :
    ∃ ms, iterGuardrailConfigsG f xorkey = .ok (encMetas ms (atEnd f)) ∧
      ∀ m, m ∈ ms ↔ ∃ off, off < f.data.length ∧ C17.markerAt f.data (C17.maskedStarts xorkey) 6 off ∧
        Gen.Guardrails.BEACON_CONFIG_PATCH_SIZE ≤ off + 6 ∧
        m = C17.metaAt f.data xorkey (off + 6) (off + 6 - Gen.Guardrails.BEACON_CONFIG_PATCH_SIZE) := by
  obtain ⟨ms, hms⟩ := C17.iterGuardrailConfigs_total f xorkey
  exact ⟨ms, by rw [gen_iterGuardrailConfigsG, hms]; rfl, C17.scan_reports_iff f xorkey ms hms⟩

/-- **marker_found for the translated definition**: a protected area at any offset (guard configuration starting with one of
the four known settings) is among the yields of the translated scan, and no other record is yielded for that offset -/
theorem gen_marker_found (pre mb gc key post : Bytes)
    (hmb : mb.length = Gen.Guardrails.BEACON_CONFIG_PATCH_SIZE) (hgc : gc.length = Gen.Guardrails.GUARD_PATCH_SIZE)
    (hstart : gc.take 6 ∈ Gen.Guardrails.GUARD_CONFIG_STARTS) :
    ∃ ms, iterGuardrailConfigsG (PyFile.ofBytes (pre ++ mb ++ C17.maskGuard gc key mb ++ post)) key
        = .ok (encMetas ms (atEnd (PyFile.ofBytes (pre ++ mb ++ C17.maskGuard gc key mb ++ post)))) ∧
      C17.areaMeta pre mb gc key ∈ ms ∧
      ∀ m ∈ ms, m.guardConfigOffset = pre.length + Gen.Guardrails.BEACON_CONFIG_PATCH_SIZE → m = C17.areaMeta pre mb gc key := by
  obtain ⟨ms, h1, h2, h3⟩ := C17.marker_found pre mb gc key post hmb hgc hstart
  exact ⟨ms, by rw [gen_iterGuardrailConfigsG, h1]; rfl, h2, h3⟩

/-! ### the three translated definitions together -/

theorem iterX_enc (f : PyFile) :
    iterX (encFile f) = (C17.iterGuardrailConfigs f).map (fun ms => encMetas ms (atEnd f)) := by
  have h := gen_iter_guardrail_configs f Gen.Guardrails.defaultGuardXorKey (f.data.length + settingsFuel + 2) (Nat.le_refl _)
  simp only [iterX, asFile_enc, Gen.PyGuardU.iter_guardrail_configs_default1]
  exact h

theorem candX_enc (bufSize : Nat) (g : Bytes) :
    candX bufSize (.bytesIO g 0) = .ok (.list ((C17.findXorKeyCandidates g bufSize).map V.bytes)) := by
  have h := gen_find_xor_key_candidates bufSize { data := g, pos := 0, kind := .bytesIO } (g.length + 2) (by simp)
  have he : PyU.mkFile g 0 0 = encFile { data := g, pos := 0, kind := .bytesIO } := rfl
  simp only [candX, he, h, encCands]

/-- The translated `iter_guardrail_configs_with_beacon` over the translated `iter_guardrail_configs` and
`find_xor_key_candidates` (what the `g-wb` stream runs) computes the model's `iterGuardrailConfigsWithBeacon`, for every file
object and every `io.DEFAULT_BUFFER_SIZE`. -/
theorem gen_pipeline (bufSize : Nat) (f : PyFile) :
    iterGuardrailConfigsWithBeaconG bufSize f
      = (C17.iterGuardrailConfigsWithBeacon f bufSize).map (fun ms => encMetas ms (atEnd f)) := by
  obtain ⟨ms, hms⟩ := C17.iterGuardrailConfigs_total f Gen.Guardrails.defaultGuardXorKey
  have hi : iterX (encFile f) = .ok (.tuple [.list (ms.map encMeta), encFile (atEnd f)]) := by
    rw [iterX_enc]
    have : C17.iterGuardrailConfigs f = .ok ms := hms
    rw [this]; rfl
  have := gen_iter_guardrail_configs_with_beacon iterX (candX bufSize) (encFile f) (encFile (atEnd f)) ms
    (fun g => C17.findXorKeyCandidates g bufSize) hi (candX_enc bufSize)
  unfold iterGuardrailConfigsWithBeaconG
  rw [this]
  unfold C17.iterGuardrailConfigsWithBeacon
  have : C17.iterGuardrailConfigs f = .ok ms := hms
  rw [this, withBeaconOne_is_instance]
  rfl

/-- **only_if_checksum for the three translated definitions together**: every record the composed translated generator yields
with an unmasked configuration `u` has `payload_checksum(u) + 1 == checksum`; `u` is the masked area unmasked with 0x2e and the
reported key, one of the candidates -/
theorem gen_only_if_checksum_pipeline (bufSize : Nat) (f : PyFile) :
    ∃ ms : List C17.Meta, iterGuardrailConfigsWithBeaconG bufSize f = .ok (encMetas ms (atEnd f)) ∧
      ∀ m ∈ ms, ∀ u, m.unmaskedBeaconConfig = some u →
        C17.payloadChecksum u + 1 = m.checksum ∧
          ∃ k, m.payloadXorKey = some k ∧
            k ∈ C17.findXorKeyCandidates (C20.xor m.maskedBeaconConfig Gen.Guardrails.beaconXorKey) bufSize ∧
            u = C20.xor (C20.xor m.maskedBeaconConfig Gen.Guardrails.beaconXorKey) k := by
  obtain ⟨ms0, h0⟩ := C17.iterGuardrailConfigs_total f Gen.Guardrails.defaultGuardXorKey
  have hwb : C17.iterGuardrailConfigsWithBeacon f bufSize = .ok (ms0.map (C17.withBeaconOne bufSize)) := by
    unfold C17.iterGuardrailConfigsWithBeacon
    have : C17.iterGuardrailConfigs f = .ok ms0 := h0
    rw [this]
  refine ⟨_, by rw [gen_pipeline, hwb]; rfl, ?_⟩
  intro m hm u hu
  exact C17.only_if_checksum f bufSize _ hwb m hm u hu

/-! ### Non-vacuity: the translated definitions evaluated on concrete inputs -/

/-- a record as the scan builds it: 3 masked bytes, stored checksum `c` -/
def exMeta (c : Nat) : C17.Meta :=
  { beaconConfigOffset := 0, guardConfigOffset := 6144, maskedBeaconConfig := [0x2f, 0x2c, 0x2d], maskedGuardConfig := [],
    beaconXorKey := [0x2e], guardrailXorKey := [0x8a], unmaskedGuardConfig := [], checksum := c, payloadXorKey := none,
    unmaskedBeaconConfig := none, settings := [] }

-- guarded = 01 02 03; candidates 09 09 (checksum 8+22+30+1 = 61: no) and 01 01 (00 03 02: 0+6+6+1 = 13: yes): the second key wins
example : Gen.PyGuardU.iter_guardrail_configs_with_beacon (fun fh => .ok (.tuple [.list [encMeta (exMeta 13)], fh]))
    (fun _ => .ok (.list [.bytes [9, 9], .bytes [1, 1]])) (PyU.mkFile [] 0 0)
    = .ok (.tuple [.list [encMeta { exMeta 13 with payloadXorKey := some [1, 1], unmaskedBeaconConfig := some [0, 3, 2] }], PyU.mkFile [] 0 0]) := by
  decide +kernel
-- no candidate matches (`for … else`): metadata only
example : Gen.PyGuardU.iter_guardrail_configs_with_beacon (fun fh => .ok (.tuple [.list [encMeta (exMeta 14)], fh]))
    (fun _ => .ok (.list [.bytes [9, 9], .bytes [1, 1]])) (PyU.mkFile [] 0 0)
    = .ok (.tuple [.list [encMeta (exMeta 14)], PyU.mkFile [] 0 0]) := by
  decide +kernel
-- a record whose `checksum` is `None` never matches; a candidate that is a `str` is a TypeError of `xor`
example : Gen.PyGuardU.iter_guardrail_configs_with_beacon
    (fun fh => .ok (.tuple [.list [.inst Gen.PyGuardU.GuardrailMetadata [.int 0, .int 0, .bytes [1], .bytes [], .none, .none, .none, .none, .none, .none, .none]], fh]))
    (fun _ => .ok (.list [.bytes [9]])) (PyU.mkFile [] 0 0)
    = .ok (.tuple [.list [.inst Gen.PyGuardU.GuardrailMetadata [.int 0, .int 0, .bytes [1], .bytes [], .bytes [46], .none, .none, .none, .none, .none, .none]], PyU.mkFile [] 0 0]) := by
  decide +kernel
example : Gen.PyGuardU.iter_guardrail_configs_with_beacon (fun fh => .ok (.tuple [.list [encMeta (exMeta 13)], fh]))
    (fun _ => .ok (.list [PyU.lit "ab"])) (PyU.mkFile [] 0 0) = .error .typeError := by
  decide +kernel
-- the scan on a 13-byte file: no 6144-byte area fits, nothing is yielded, the file ends at 13; `None` as the key is a TypeError
example : Gen.PyGuardU.iter_guardrail_configs 400 (PyU.mkFile [1, 2, 3, 4, 5, 6, 7, 8, 9, 10, 11, 12, 13] 5 1) (.bytes [0x8a])
    = .ok (.tuple [.list [], PyU.mkFile [1, 2, 3, 4, 5, 6, 7, 8, 9, 10, 11, 12, 13] 13 1]) := by
  decide +kernel
example : Gen.PyGuardU.iter_guardrail_configs 400 (PyU.mkFile [1, 2, 3] 0 0) .none = .error .typeError := by decide +kernel
example : Gen.PyGuardU.iter_guardrail_configs 400 .none (.bytes [0x8a]) = .error .attributeError := by decide +kernel
-- the candidate keys of b"\x01\x02\x01\x02": evaluated by the kernel on both sides (the first four: 0102 | 010201 020000 (a tie) | 01020102)
example : Gen.PyGuardU.find_xor_key_candidates (.int 8192) 6 (PyU.mkFile [1, 2, 1, 2] 3 0)
    = .ok (encCands (C17.findXorKeyCandidates [1, 2, 1, 2] 8192) { data := [1, 2, 1, 2], pos := 4, kind := .bytesIO }) := by
  decide +kernel
example : (C17.findXorKeyCandidates [1, 2, 1, 2] 8192).take 4 = [[1, 2], [1, 2, 1], [2, 0, 0], [1, 2, 1, 2]] := by decide +kernel
-- `io.DEFAULT_BUFFER_SIZE = None` reads everything at once; a `str` is a TypeError of `read`
example : Gen.PyGuardU.find_xor_key_candidates .none 6 (PyU.mkFile [1, 2, 1, 2] 0 0)
    = Gen.PyGuardU.find_xor_key_candidates (.int 8192) 6 (PyU.mkFile [1, 2, 1, 2] 0 0) := by decide +kernel
example : Gen.PyGuardU.find_xor_key_candidates (PyU.lit "8") 6 (PyU.mkFile [1, 2, 1, 2] 0 0) = .error .typeError := by decide +kernel
-- with too little fuel the translated loop reports the fuel pseudo-exception
example : Gen.PyGuardU.iter_guardrail_configs 5 (PyU.mkFile [1, 2, 3, 4, 5, 6, 7, 8, 9, 10, 11, 12, 13] 0 0) (.bytes [0x8a])
    = .error .timeoutDiverge := by
  decide +kernel

end C17Gen

import CsVerif.Lemmas.C17Gen
/-!
C17 — the tie between the source text and the model, by translation.

`Gen/PyGuard.lean` is produced on every run by `tools/py2lean.py` from the *source* of `guardrails.payload_checksum`.
The theorem states that the translated definition computes, for every byte string, what the hand-written model
`C17.payloadChecksum` (on which `only_if_checksum`, `payloadChecksum_bounds`, … are stated) computes.
-/
namespace C17Gen

theorem gen_payload_checksum (d : Bytes) :
    Gen.PyGuard.payload_checksum d = .ok ((C17.payloadChecksum d : Nat) : Int) := payload_checksum_eq' d

example : Gen.PyGuard.payload_checksum [1, 2, 3, 255] = .ok 269 := by decide

end C17Gen

import CsVerif.Lemmas.C04
/-! C04 property theorems: HTTP data transforms follow the Malleable C2 wire format and are invertible.

Vocabulary (Model/C04.lean): `encStep`/`decStep` = the seven encoders / decoders of `transform` / `recover`;
`encChain`/`decChain` = runs of them; `mkTransform` = the constructor; `Ref.*` = the independent reference
(structured programs `Ref.Program`, `Ref.compile` = the step list the profile compiler emits, `Ref.encode`,
`Ref.decode`); `Ref.valid` = valid program; `Ref.normalise p d` = what recover must return. -/
namespace C04
open Ref

/-! ### constructor -/

/-- tsteps / rsteps ordering for every `steps`, `reverse`, `build`: recover undoes transform last-to-first. -/
theorem rsteps_eq_reverse_tsteps (steps : List Step) (rev : Bool) (build : Option (Option Field)) :
    (mkTransform steps rev build).rsteps = (mkTransform steps rev build).tsteps.reverse :=
  mk_rsteps steps rev build

/-- server side (`reverse=True, build="output"` on a `parse_recover_binary` list): transform runs
`BUILD output`, the statements in profile order, `print`. -/
theorem server_tsteps (es : List Enc) :
    (mkTransform (serverSteps es) true (some (some .output))).tsteps
      = Step.build (some .output) :: (es.map fun e => Step.enc (intForm e)) ++ [Step.term .print] := by
  rw [mk_server]; simp [compile, Block.toSteps, List.map_map, Function.comp_def]

/-! ### step_inverse: decoder ∘ encoder = id for each of the seven encoders, on all byte strings -/

/-- append: `(data + arg)[: len - n] == data` for every bytes or int argument (negative ints included). -/
theorem append_inverse (a : Arg) (x : Bytes) : decStep (.append a) (x ++ a.toBytes) = .ok x := by
  cases a with
  | bytes b => exact dec_of_enc1 (.append (.bytes b)) x _ rfl (Or.inl ⟨fun _ => 0, rfl⟩)
  | int n =>
    by_cases hn : 0 ≤ n
    · exact dec_of_enc1 (.append (.int n)) x _ (by simpa [encOk] using hn) (Or.inl ⟨fun _ => 0, rfl⟩)
    · have h0 : n.toNat = 0 := by omega
      simp only [decStep, Arg.toBytes, Arg.len, h0, List.replicate_zero, List.append_nil, pySliceTo]
      rw [if_pos (by omega), List.take_of_length_le (by omega)]

/-- prepend: `(arg + data)[n:] == data` (int arguments must be non-negative). -/
theorem prepend_inverse (a : Arg) (h : encOk (.prepend a) = true) (x : Bytes) :
    decStep (.prepend a) (a.toBytes ++ x) = .ok x :=
  dec_of_enc1 (.prepend a) x _ h (Or.inl ⟨fun _ => 0, rfl⟩)

/-- base64: `b64decode(b64encode(d) + b"==") == d` for every `d`. -/
theorem base64_inverse (x : Bytes) : decStep .base64 (b64encode x) = .ok x := by
  simp [decStep, b64_roundtrip, liftPy]

/-- base64url: `urlsafe_b64decode(urlsafe_b64encode(d) + b"==") == d` for every `d`. -/
theorem base64url_inverse (x : Bytes) : decStep .base64url (urlsafeB64encode x) = .ok x := by
  simp [decStep, b64url_roundtrip, liftPy]

/-- netbios: `netbios_decode(netbios_encode(d).lower().upper()) == d` -/
theorem netbios_inverse (x e : Bytes) (h : C20.netbiosEncode x 0x41 = .ok e) :
    decStep .netbios (lower e) = .ok x := by
  rw [nbEncode_eq] at h; injection h with h; subst h
  simp [decStep, lower_nbEnc, (upper_nbEnc x).2, nbDecode_nbEnc, liftPy]

/-- netbiosu: `netbios_decode(netbios_encode(d).upper()) == d` -/
theorem netbiosu_inverse (x e : Bytes) (h : C20.netbiosEncode x 0x41 = .ok e) :
    decStep .netbiosu (upper e) = .ok x := by
  rw [nbEncode_eq] at h; injection h with h; subst h
  simp [decStep, (upper_nbEnc x).1, nbDecode_nbEnc, liftPy]

/-- mask: `xor((m + xor(d, m))[4:], (m + xor(d, m))[:4]) == d` for every 32-bit `m` (zero included). -/
theorem mask_inverse (m : UInt32) (x : Bytes) :
    decStep .mask (p32be m ++ C20.xor x (p32be m)) = .ok x := by
  obtain ⟨h1, h2⟩ := take_drop4 (p32be m) (C20.xor x (p32be m)) (p32be_length m)
  simp only [decStep, h1, h2, C20.xor_involutive]

/-- every encoder step succeeds -/
theorem step_total (e : Enc) (r : Rand) (x : Bytes) : ∃ v r', encStep e r x = .ok (v, r') := by
  obtain ⟨v, r', h, _⟩ := encStep_spec e r x; exact ⟨v, r', h⟩

/-- `step_inverse`, uniform statement: whatever an encoder step of `transform` produces, the matching
decoder step of `recover` returns the input (all seven encoders, all byte strings, all mask values). -/
theorem step_inverse (e : Enc) (hok : encOk e = true) (r : Rand) (x v : Bytes) (r' : Rand)
    (h : encStep e r x = .ok (v, r')) : decStep e v = .ok x := by
  obtain ⟨v', r'', h', hE⟩ := encStep_spec e r x
  rw [h] at h'; injection h' with h'; injection h' with hv _; subst hv
  exact dec_of_enc1 e x v hok hE

/-! ### chain_inverse: any order and repetition of the encoders -/

theorem chain_total (es : List Enc) (r : Rand) (x : Bytes) : ∃ v r', encChain es r x = .ok (v, r') := by
  obtain ⟨v, r', h, _⟩ := encChain_spec es r x; exact ⟨v, r', h⟩

theorem chain_inverse (es : List Enc) (hok : ∀ e ∈ es, encOk e = true) (r : Rand) (x v : Bytes) (r' : Rand)
    (h : encChain es r x = .ok (v, r')) : decChain es.reverse v = .ok x := by
  obtain ⟨v', r'', h', hN⟩ := encChain_spec es r x
  rw [h] at h'; injection h' with h'; injection h' with hv _; subst hv
  exact decChain_of_encN es hok x v hN

/-! ### recover_transform -/

theorem transform_ok (p : Program) (hv : valid p = true) (c2 : C2Data) (rand : Rand) (req : Option Req)
    (hu : usesUri p = true → (req.getD emptyReq).uri = []) :
    ∃ r, transform (mkTransform (compile p) false none) rand c2 req = .ok r ∧ Placed c2 (.request r) p := by
  obtain ⟨s', h1, hP⟩ := transform_placed c2 (req.getD emptyReq) p hv (TSt.init (req.getD emptyReq) rand) hu
  refine ⟨s'.toReq (req.getD emptyReq), ?_, hP⟩
  simp only [transform, mk_client, h1, Except.map]

/-- The full statement: every valid program, payload, mask stream and initial request. -/
def recover_transform_full : Prop :=
  ∀ (p : Program), valid p = true → ∀ (c2 : C2Data) (rand : Rand) (req : Option Req),
    (transform (mkTransform (compile p) false none) rand c2 req).bind
        (fun r => recover (mkTransform (compile p) false none) (.request r))
      = .ok (normalise p c2)

/-- Proved part: as `recover_transform_full`, with the initial URI empty when the program uses uri-append.
Missing for the full statement: uri-append with a non-empty initial URI (known finding
`C04-uri-append-initial-uri`, see `recover_transform_full_fails`). -/
theorem recover_transform_partial (p : Program) (hv : valid p = true) (c2 : C2Data) (rand : Rand)
    (req : Option Req) (hu : usesUri p = true → (req.getD emptyReq).uri = []) :
    (transform (mkTransform (compile p) false none) rand c2 req).bind
        (fun r => recover (mkTransform (compile p) false none) (.request r))
      = .ok (normalise p c2) := by
  obtain ⟨r, h1, hP⟩ := transform_ok p hv c2 rand req hu
  rw [h1]
  simp only [Except.bind, recover, mk_rsteps, mk_client]
  exact recover_of_placed p hv c2 _ hP

/-- The full statement is false for the code as it is: `[BUILD metadata, uri_append]`, `request.uri = b"/x"`,
`metadata = b"AB"` recovers `b"/xAB"`. -/
theorem recover_transform_full_fails : ¬ recover_transform_full := by
  intro h
  have := h [.block ⟨.metadata, [], .uriAppend⟩] (by decide) ⟨none, some [65, 66], none⟩ (fun _ => 0)
    (some ⟨[], [47, 120], [], [], []⟩)
  revert this
  decide

/-- server side (`HttpDataTransform(parse_recover_binary(..), reverse=True, build="output")`):
recovering the response body produced by `transform` returns the output. -/
theorem recover_transform_server (es : List Enc) (hok : ∀ e ∈ es, encOk e = true) (c2 : C2Data) (rand : Rand)
    (req : Option Req) :
    (transform (mkTransform (serverSteps es) true (some (some .output))) rand c2 req).bind
        (fun r => recover (mkTransform (serverSteps es) true (some (some .output))) (.response r.headers r.body))
      = .ok ⟨some ((c2.output).getD []), none, none⟩ := by
  have hv : valid [.block ⟨.output, es.map intForm, .print⟩] = true := by
    simp only [valid, places, List.map_nil, List.contains_nil, Bool.not_false, Bool.and_true, List.all_eq_true,
      List.mem_map]
    rintro e ⟨e', he', rfl⟩
    have := hok e' he'
    cases e' with
    | append a => cases a <;> simp_all [intForm, encOk, Arg.len]
    | prepend a => cases a <;> simp_all [intForm, encOk, Arg.len]
    | _ => rfl
  obtain ⟨s', h1, hP⟩ := transform_placed c2 (req.getD emptyReq) _ hv (TSt.init (req.getD emptyReq) rand)
    (fun h => by simp [usesUri, places, Item.place] at h)
  simp only [transform, mk_rsteps, mk_server, h1, Except.map, Except.bind, recover]
  have hP' : Placed c2 (.response (s'.toReq (req.getD emptyReq)).headers (s'.toReq (req.getD emptyReq)).body)
      [.block ⟨.output, es.map intForm, .print⟩] := by
    intro b hb
    simp only [List.mem_singleton] at hb
    injection hb with hb; subst hb
    obtain ⟨v, hl, hN⟩ := hP _ (List.mem_singleton.mpr rfl)
    exact ⟨v, hl, hN⟩
  exact recover_of_placed _ hv c2 _ hP'

/-! ### cross decoding against the independent reference -/

/-- library-encoded messages decode with the reference decoder -/
theorem ref_decodes_model (p : Program) (hv : valid p = true) (c2 : C2Data) (rand : Rand)
    (req : Option Req) (hu : usesUri p = true → (req.getD emptyReq).uri = []) :
    (transform (mkTransform (compile p) false none) rand c2 req).map
        (fun r => Ref.decode p (.request r) ⟨none, none, none⟩)
      = .ok (some (normalise p c2)) := by
  obtain ⟨r, h1, hP⟩ := transform_ok p hv c2 rand req hu
  rw [h1]
  simp only [Except.map, refdecode_of_placed p hv c2 _ hP]

/-- reference-encoded messages (base64url unpadded, as Cobalt Strike emits it) are recovered by the library -/
theorem model_decodes_ref (p : Program) (hv : valid p = true) (c2 : C2Data) (rand : Rand) (req : Req)
    (hu : usesUri p = true → req.uri = []) :
    recover (mkTransform (compile p) false none) (.request (Ref.encode p rand c2 req))
      = .ok (normalise p c2) := by
  simp only [recover, mk_rsteps, mk_client]
  exact recover_of_placed p hv c2 _ (refencode_placed c2 p hv rand req hu)

/-- server side: a reference-encoded `output { es…; print; }` body (actual prepend/append strings) is recovered
by the library from the length-only `parse_recover_binary` program. -/
theorem model_decodes_ref_server (es : List Enc) (hok : ∀ e ∈ es, encOk e = true) (c2 : C2Data) (rand : Rand)
    (req : Req) :
    let r := Ref.encode [.block ⟨.output, es, .print⟩] rand c2 req
    recover (mkTransform (serverSteps es) true (some (some .output))) (.response r.headers r.body)
      = .ok ⟨some ((c2.output).getD []), none, none⟩ := by
  intro r
  have hv : valid [.block ⟨.output, es, .print⟩] = true := by
    simpa [valid, places] using hok
  have hP := refencode_placed c2 _ hv rand req (fun h => by simp [usesUri, places, Item.place] at h)
  obtain ⟨v, hl, hN⟩ := hP ⟨.output, es, .print⟩ (List.mem_singleton.mpr rfl)
  have hd : decChain (es.map intForm).reverse v = .ok (payload c2 .output) := by
    rw [← List.map_reverse, decChain_intForm]
    exact decChain_of_encN es hok _ _ hN
  obtain ⟨rs', h1, hf⟩ := recover_placed (.response r.headers r.body) (payload c2)
    [.block ⟨.output, es.map intForm, .print⟩]
    (fun b hb => by
      simp only [List.mem_singleton] at hb
      injection hb with hb; subst hb
      exact ⟨v, hl, hd⟩) ⟨[], none, none, none⟩
  simp only [recover, mk_rsteps, mk_server, h1, Except.map]
  congr 1
  apply c2_ext
  intro f
  rw [toC2_get, hf f]
  cases f <;> rfl

/-- server side: the reference decoder (length-only view of prepend/append) decodes what the library emits -/
theorem ref_decodes_model_server (es : List Enc) (hok : ∀ e ∈ es, encOk e = true) (c2 : C2Data) (rand : Rand)
    (req : Option Req) :
    (transform (mkTransform (serverSteps es) true (some (some .output))) rand c2 req).map
        (fun r => Ref.decode [.block ⟨.output, es.map intForm, .print⟩] (.response r.headers r.body) ⟨none, none, none⟩)
      = .ok (some ⟨some ((c2.output).getD []), none, none⟩) := by
  have hv : valid [.block ⟨.output, es.map intForm, .print⟩] = true := by
    simp only [valid, places, List.map_nil, List.contains_nil, Bool.not_false, Bool.and_true, List.all_eq_true,
      List.mem_map]
    rintro e ⟨e', he', rfl⟩
    have := hok e' he'
    cases e' with
    | append a => cases a <;> simp_all [intForm, encOk, Arg.len]
    | prepend a => cases a <;> simp_all [intForm, encOk, Arg.len]
    | _ => rfl
  obtain ⟨s', h1, hP⟩ := transform_placed c2 (req.getD emptyReq) _ hv (TSt.init (req.getD emptyReq) rand)
    (fun h => by simp [usesUri, places, Item.place] at h)
  simp only [transform, mk_server, h1, Except.map]
  have hP' : Placed c2 (.response (s'.toReq (req.getD emptyReq)).headers (s'.toReq (req.getD emptyReq)).body)
      [.block ⟨.output, es.map intForm, .print⟩] := by
    intro b hb
    simp only [List.mem_singleton] at hb
    injection hb with hb; subst hb
    obtain ⟨v, hl, hN⟩ := hP _ (List.mem_singleton.mpr rfl)
    exact ⟨v, hl, hN⟩
  rw [refdecode_of_placed _ hv c2 _ hP']
  rfl

/-- the reference is consistent with itself (the specification is satisfiable) -/
theorem ref_decodes_ref (p : Program) (hv : valid p = true) (c2 : C2Data) (rand : Rand) (req : Req)
    (hu : usesUri p = true → req.uri = []) :
    Ref.decode p (.request (Ref.encode p rand c2 req)) ⟨none, none, none⟩ = some (normalise p c2) :=
  refdecode_of_placed p hv c2 _ (refencode_placed c2 p hv rand req hu)

/-! ### Non-vacuity: concrete programs meeting the hypotheses, concrete wire bytes -/

/-- `metadata { mask; base64url; prepend "S="; header "Cookie"; } id { netbios; parameter "id"; }
    header "Accept" "*/*"; output { base64; print; }` -/
def exampleProgram : Program :=
  [.block ⟨.metadata, [.mask, .base64url, .prepend (.bytes [83, 61])], .header [67, 111, 111, 107, 105, 101]⟩,
   .deco (.header [65, 99, 99, 101, 112, 116] [42, 47, 42]),
   .block ⟨.id, [.netbios], .parameter [105, 100]⟩,
   .block ⟨.output, [.base64], .print⟩]

example : valid exampleProgram = true := by decide
example : usesUri exampleProgram = false := by decide
example : valid [.block ⟨.metadata, [.append (.int 3), .netbiosu], .uriAppend⟩] = true := by decide
-- two blocks with the same termination are not valid
example : valid [.block ⟨.metadata, [], .print⟩, .block ⟨.id, [], .print⟩] = false := by decide
-- `"AB"` → base64 `"QUI="`, base64url as the library emits it `"QUI="`, reference (Cobalt Strike) `"QUI"`
example : b64encode [65, 66] = [81, 85, 73, 61] := by decide
example : urlsafeB64encode [251, 255] = [45, 95, 56, 61] := by decide
example : Ref.b64urlenc [251, 255] = [45, 95, 56] := by decide
example : decStep .base64url [45, 95, 56] = .ok [251, 255] := by decide
-- lenient decoder: non-alphabet bytes are discarded, data after the padding is ignored, wrong length raises
example : b64decode [81, 10, 85, 73, 61, 81] = .ok [65, 66] := by decide
example : b64decode [81] = .error .valueError := by decide
example : transform (mkTransform (compile [.block ⟨.metadata, [.netbios, .prepend (.bytes [61])], .header [104]⟩]) false none)
    (fun _ => 0) ⟨none, some [171], none⟩ none = .ok ⟨[], [], [], [([104], [61, 107, 108])], []⟩ := by decide
example : recover (mkTransform [.term .print, .enc (.append (.int 2)), .enc .mask] true (some (some .output)))
    (.response [] [1, 2, 3, 4, 64, 64, 88, 88]) = .ok ⟨some [65, 66], none, none⟩ := by decide

end C04

import CsVerif.Gen.PyC2U
import CsVerif.Props.C16
import CsVerif.Lemmas.C16Gen
/-!
C16 — the tie between the source text and the model, by (untyped) translation.

`Gen/PyC2U.lean` is produced on every run by `tools/py2leanu.py` from the *source* of `c2.parse_raw_http`: every Python value
is a `PyU.V`, every Python operation one total function of `lean/CsVerif/Model/PyU.lean`; the `for` loop over the header lines
and the dict comprehension over the parameters are separate definitions run by `PyU.forList`; the NamedTuple classes
`HttpRequest` / `HttpResponse` are class descriptors read from the classes.  `urllib.parse.urlsplit` and
`urllib.parse.parse_qsl(…, encoding=…)` are EXTERNAL: parameters of the translated definition, instantiated here with the
sub-models of `Model/C16.lean` (`C16Gen.urlsplitX`, `C16Gen.parseQslX`, in `Model/C16Gen.lean`).

`gen_parse_raw_http` states that the translated definition computes, for every `bytes` argument, exactly the encoding
(`C16Gen.encMsg`) of what the hand-written model `C16.parseRawHttp` computes — including both `ValueError` branches
(`len(parts) != 3`), `UnicodeDecodeError` / `int()` failures of the status token and the `ValueError`s of `urlsplit`.  So every
theorem of `Props/C16.lean` is a theorem about the function text as it stands now (the corollaries below restate the central
ones for the translated definition), and an edit of `parse_raw_http` that changes its meaning breaks the proof here.
Helper lemmas: `Lemmas/C16Gen.lean`.
-/
namespace C16Gen
open PyU

/-- the definition translated from the source of `parse_raw_http`, with `urlsplit` / `parse_qsl` instantiated by the C16
sub-models, equals the encoding of the hand-written model, for every `bytes` argument -/
theorem gen_parse_raw_http (data : Bytes) :
    Gen.PyC2U.parse_raw_http urlsplitX parseQslX (.bytes data) = (C16.parseRawHttp data).map encMsg :=
  gen_parse_raw_http_proof data

/-! ### the property theorems, restated for the translated definition -/

/-- the only exception the source text can raise on `bytes` is `ValueError` -/
theorem gen_only_valueError (data : Bytes) (e : PyExc)
    (h : Gen.PyC2U.parse_raw_http urlsplitX parseQslX (.bytes data) = .error e) : e = .valueError := by
  rw [gen_parse_raw_http] at h
  cases hm : C16.parseRawHttp data with
  | ok m => rw [hm] at h; cases h
  | error e' =>
    rw [hm] at h
    have : e' = e := by injection h
    subst this
    exact C16.only_valueError data e' hm

/-- a first line that does not consist of exactly three whitespace-separated tokens is rejected -/
theorem gen_malformed_rejected (data : Bytes) (h : (C16.splitWs (C16.firstLine data)).length ≠ 3) :
    Gen.PyC2U.parse_raw_http urlsplitX parseQslX (.bytes data) = .error .valueError := by
  rw [gen_parse_raw_http, C16.malformed_rejected data h]; rfl

/-- a rendered well-formed request is parsed back to its parts -/
theorem gen_request_roundtrip (version method path : Bytes) (params headers : List (Bytes × Bytes)) (body : Bytes)
    (h : C16.WellFormedReq version method path params headers) :
    Gen.PyC2U.parse_raw_http urlsplitX parseQslX (.bytes (C16.renderRequest version method path params headers body))
      = .ok (encMsg (.request method path params headers body)) := by
  rw [gen_parse_raw_http, C16.request_roundtrip version method path params headers body h]; rfl

/-- a rendered well-formed response is parsed back to its parts -/
theorem gen_response_roundtrip (version digits reason : Bytes) (headers : List (Bytes × Bytes)) (body : Bytes)
    (h : C16.WellFormedResp version digits reason headers) :
    Gen.PyC2U.parse_raw_http urlsplitX parseQslX (.bytes (C16.renderResponse version digits reason headers body))
      = .ok (encMsg (.response (C16.decimalValue digits) reason headers body)) := by
  rw [gen_parse_raw_http, C16.response_roundtrip version digits reason headers body h]; rfl

/-! ### Non-vacuity: the translated definition evaluated on concrete inputs -/

-- b"GET /a?x=%41 HTTP/1.1\r\nK: v\r\n\r\nB"
example : Gen.PyC2U.parse_raw_http urlsplitX parseQslX
    (.bytes [71, 69, 84, 32, 47, 97, 63, 120, 61, 37, 52, 49, 32, 72, 84, 84, 80, 47, 49, 46, 49, 13, 10, 75, 58, 32, 118, 13, 10, 13, 10, 66])
    = .ok (.inst Gen.PyC2U.HttpRequest [.bytes [71, 69, 84], .bytes [47, 97], .dict [.bytes [120]] [.bytes [65]],
        .dict [.bytes [75]] [.bytes [118]], .bytes [66]]) := by decide +kernel
-- b"HTTP/1.1 200 OK\r\n\r\n"
example : Gen.PyC2U.parse_raw_http urlsplitX parseQslX
    (.bytes [72, 84, 84, 80, 47, 49, 46, 49, 32, 50, 48, 48, 32, 79, 75, 13, 10, 13, 10])
    = .ok (.inst Gen.PyC2U.HttpResponse [.int 200, .dict [] [], .bytes [79, 75], .bytes [], .none]) := by decide +kernel
-- b"GET /"
example : Gen.PyC2U.parse_raw_http urlsplitX parseQslX (.bytes [71, 69, 84, 32, 47]) = .error .valueError := by decide +kernel
-- b"HTTP/1.1 2x0 OK"
example : Gen.PyC2U.parse_raw_http urlsplitX parseQslX (.bytes [72, 84, 84, 80, 47, 49, 46, 49, 32, 50, 120, 48, 32, 79, 75])
    = .error .valueError := by decide +kernel
-- `None.partition` / `int.partition`: AttributeError
example : Gen.PyC2U.parse_raw_http urlsplitX parseQslX .none = .error .attributeError := by decide +kernel
-- a `str` argument: `"…".partition(b"\r\n\r\n")` is a TypeError
example : Gen.PyC2U.parse_raw_http urlsplitX parseQslX (lit "GET / HTTP/1.1") = .error .typeError := by decide +kernel

end C16Gen

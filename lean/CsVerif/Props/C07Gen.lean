import CsVerif.Gen.PyC2H
import CsVerif.Props.C07
import CsVerif.Lemmas.C07Gen
/-!
C07 — the tie between the source text and the model, by (untyped) translation: class `C2Http`.

`Gen/PyC2H.lean` is produced on every run by `tools/py2leanu.py` (plug-in `tools/gen/py_c2h.py`) from the *source* of
`C2Http.__init__` and `C2Http.get_transform_for_http`: every Python value is a `PyU.V`, every Python operation one total function
of the run-time library (`Model/PyU.lean`, `PyU_T02.lean`, `PyU_T07.lean`); `self` is an instance record (`Gen.PyC2H.C2Http`, the
attributes in the order `__init__` assigns them).  Calls of `parse_raw_http` and `HttpDataTransform(…)` are calls of the
definitions translated from the same file by the plug-ins of C16 / C04 (`Gen/PyC2U.lean`, `Gen/PyC2T.lean`).

`gen_get_transform_for_http` states that the translated method computes, for every configuration, every instance whose routing
attributes (`get_verb`, `get_uris`, `submit_verb`, `submit_uri`) are those of the configuration — whatever the three transform
objects and the other attributes are — and every input (raw bytes, a request object, a response object), exactly the model's
decision: parse raw bytes, a response gets `transform_response`, a request `transform_get` iff verb and ANY get-URI prefix match,
else `transform_submit` iff verb and submit-URI prefix match, else ValueError; objects of any other kind: ValueError.  So
`routing_decision` and its companions are theorems about the function text as it stands now, and an edit that changes the
decision (order of the tests, `==` / `startswith`, which transform is returned) breaks the proof here.
`gen_c2http_init` does the same for the constructor (`mkDecoder`: every exception in the order of the code, and every attribute
of the instance it builds, which is an instance the routing theorem speaks about).
`C2Http.iter_recover_http` is translated too (a generator that changes `self`: the definition answers `(packets yielded, self
afterwards)`; `transform.recover`, `decrypt_metadata`, `parse_raw_http`, `self.get_transform_for_http` are the translated
definitions, `derive_aes_hmac_keys` / `decrypt_packet` the typed translations lifted, `iter_encrypted_packets` and the two cstruct
packet parses external) and runs against the real method on every session of the correspondence (`g-sess`); its equivalence
with `C07.iterRecoverHttp` is `gen_iter_recover_http` below.
Helper lemmas: `Lemmas/C07Gen.lean`.
-/
namespace C07Gen
open PyU (V)
open C07
open C04 (Req Http)

/-- **`get_transform_for_http`**: the definition translated from the source (with `urlsplit` / `parse_qsl` of the translated
`parse_raw_http` instantiated by the C16 sub-models) returns the transform object the model's routing decision selects, or raises
what the model raises — for raw bytes and for message objects (`status`, `reason`, `request` of a response arbitrary) -/
theorem gen_get_transform_for_http (cfg : HttpCfg) (tg ts tr : V) (o : Rest) (status reason request : V) (inp : Input) :
    Gen.PyC2H.get_transform_for_http C16Gen.urlsplitX C16Gen.parseQslX (encSelf cfg tg ts tr o) (encInput status reason request inp)
      = (routeInput cfg inp).map (pick tg ts tr) := by
  cases inp with
  | raw d => exact gen_raw cfg tg ts tr o d
  | msg h => exact gen_msg _ _ cfg tg ts tr o status reason request h

/-- on message objects the external functions are never called -/
theorem gen_get_transform_for_http_msg (us : V → Py V) (pq : V → V → Py V) (cfg : HttpCfg) (tg ts tr : V) (o : Rest)
    (status reason request : V) (h : Http) :
    Gen.PyC2H.get_transform_for_http us pq (encSelf cfg tg ts tr o) (C04Gen.encHttp status reason request h)
      = (routeInput cfg (.msg h)).map (pick tg ts tr) :=
  gen_msg us pq cfg tg ts tr o status reason request h

/-- an argument that is neither `bytes` nor an `HttpRequest` / `HttpResponse` object: ValueError (any `self`) -/
theorem gen_get_transform_for_http_other (us : V → Py V) (pq : V → V → Py V) (self http : V)
    (h : PyU.isInstance http [PyU.Ty.bytes, PyU.Ty.cls Gen.PyC2U.HttpRequest, PyU.Ty.cls Gen.PyC2U.HttpResponse] = false) :
    Gen.PyC2H.get_transform_for_http us pq self http = .error .valueError :=
  gen_other us pq self http h

/-- the hand-written `getTransformForHttp` is the same decision followed by the choice of the model's transform -/
theorem gen_model_routing (cfg : HttpCfg) (inp : Input) :
    getTransformForHttp cfg inp = ofPy ((routeInput cfg inp).map (transformOf cfg)) :=
  model_routeInput cfg inp

/-! ### the property theorems, restated for the translated definition -/

/-- **`routing_decision` for the source text.** -/
theorem gen_routing_decision (us : V → Py V) (pq : V → V → Py V) (cfg : HttpCfg) (tg ts tr : V) (o : Rest) (status reason request : V) :
    (∀ hs b, Gen.PyC2H.get_transform_for_http us pq (encSelf cfg tg ts tr o) (C04Gen.encHttp status reason request (.response hs b))
      = .ok tr) ∧
    (∀ r : Req, (r.method = cfg.getVerb ∧ ∃ u ∈ cfg.getUris, u <+: r.uri) →
      Gen.PyC2H.get_transform_for_http us pq (encSelf cfg tg ts tr o) (C04Gen.encReq r) = .ok tg) ∧
    (∀ r : Req, ¬ (r.method = cfg.getVerb ∧ ∃ u ∈ cfg.getUris, u <+: r.uri) →
      (r.method = cfg.submitVerb ∧ cfg.submitUri <+: r.uri) →
      Gen.PyC2H.get_transform_for_http us pq (encSelf cfg tg ts tr o) (C04Gen.encReq r) = .ok ts) ∧
    (∀ r : Req, ¬ (r.method = cfg.getVerb ∧ ∃ u ∈ cfg.getUris, u <+: r.uri) →
      ¬ (r.method = cfg.submitVerb ∧ cfg.submitUri <+: r.uri) →
      Gen.PyC2H.get_transform_for_http us pq (encSelf cfg tg ts tr o) (C04Gen.encReq r) = .error .valueError) := by
  have key : ∀ (h : Http) (x : X C04.Transform), getTransformForHttp cfg (.msg h) = x →
      Gen.PyC2H.get_transform_for_http us pq (encSelf cfg tg ts tr o) (C04Gen.encHttp status reason request h) =
        (routeInput cfg (.msg h)).map (pick tg ts tr) ∧ ofPy ((routeInput cfg (.msg h)).map (transformOf cfg)) = x := by
    intro h x hx
    exact ⟨gen_msg us pq cfg tg ts tr o status reason request h, by rw [← gen_model_routing, hx]⟩
  obtain ⟨d1, d2, d3, d4⟩ := routing_decision cfg
  refine ⟨?_, ?_, ?_, ?_⟩
  · intro hs b
    rw [gen_msg]; rfl
  · intro r hr
    obtain ⟨e1, e2⟩ := key (.request r) _ (d2 r hr)
    rw [show C04Gen.encReq r = C04Gen.encHttp status reason request (.request r) from rfl, e1]
    cases hrt : routeInput cfg (.msg (.request r)) with
    | error e => rw [hrt] at e2; cases e2
    | ok rt =>
      rw [hrt] at e2
      cases rt with
      | get => rfl
      | submit =>
        -- the model says "get transform": the routing decision cannot be `submit`
        exfalso
        simp only [routeInput, routeHttp] at hrt
        have hg : routeRequest cfg r.method r.uri = some .get := routeRequest_get hr.1 ((startsWithAny_iff _ _).2 hr.2)
        rw [hg] at hrt; cases hrt
      | response =>
        exfalso
        simp only [routeInput, routeHttp] at hrt
        have hg : routeRequest cfg r.method r.uri = some .get := routeRequest_get hr.1 ((startsWithAny_iff _ _).2 hr.2)
        rw [hg] at hrt; cases hrt
  · intro r hg hs
    have hrt : routeRequest cfg r.method r.uri = some .submit :=
      routeRequest_submit hs.1 (List.isPrefixOf_iff_prefix.2 hs.2) (fun h => hg ⟨h.1, (startsWithAny_iff _ _).1 h.2⟩)
    rw [show C04Gen.encReq r = C04Gen.encHttp status reason request (.request r) from rfl, gen_msg]
    simp only [routeInput, routeHttp, hrt]; rfl
  · intro r hg hs
    have hrt : routeRequest cfg r.method r.uri = none := by
      unfold routeRequest
      rw [if_neg, if_neg]
      · intro h
        simp only [Bool.and_eq_true, beq_iff_eq, List.isPrefixOf_iff_prefix] at h
        exact hs h
      · intro h
        simp only [Bool.and_eq_true, beq_iff_eq] at h
        exact hg ⟨h.1, (startsWithAny_iff _ _).1 h.2⟩
    rw [show C04Gen.encReq r = C04Gen.encHttp status reason request (.request r) from rfl, gen_msg]
    simp only [routeInput, routeHttp, hrt]; rfl

/-- "routed solely by verb and URI prefix", for the source text: two request objects with the same method and URI get the same
answer, whatever their parameters, headers and bodies are -/
theorem gen_routing_ignores_rest (us : V → Py V) (pq : V → V → Py V) (cfg : HttpCfg) (tg ts tr : V) (o : Rest) (r r' : Req)
    (hm : r.method = r'.method) (hu : r.uri = r'.uri) :
    Gen.PyC2H.get_transform_for_http us pq (encSelf cfg tg ts tr o) (C04Gen.encReq r) =
      Gen.PyC2H.get_transform_for_http us pq (encSelf cfg tg ts tr o) (C04Gen.encReq r') := by
  rw [show C04Gen.encReq r = C04Gen.encHttp .none .none .none (.request r) from rfl,
    show C04Gen.encReq r' = C04Gen.encHttp .none .none .none (.request r') from rfl, gen_msg, gen_msg]
  simp only [routeInput, routeHttp, hm, hu]

/-- raw bytes that parse to a request matching neither route are rejected with ValueError by the source text -/
theorem gen_unrelated_rejected (cfg : HttpCfg) (tg ts tr : V) (o : Rest) (r : Req) (data : Bytes)
    (hp : C16.parseRawHttp data = .ok (.request r.method r.uri r.params r.headers r.body))
    (hg : ¬ (r.method = cfg.getVerb ∧ ∃ u ∈ cfg.getUris, u <+: r.uri))
    (hs : ¬ (r.method = cfg.submitVerb ∧ cfg.submitUri <+: r.uri)) :
    Gen.PyC2H.get_transform_for_http C16Gen.urlsplitX C16Gen.parseQslX (encSelf cfg tg ts tr o) (.bytes data) = .error .valueError := by
  have hrt : routeRequest cfg r.method r.uri = none := by
    unfold routeRequest
    rw [if_neg, if_neg]
    · intro h
      simp only [Bool.and_eq_true, beq_iff_eq, List.isPrefixOf_iff_prefix] at h
      exact hs h
    · intro h
      simp only [Bool.and_eq_true, beq_iff_eq] at h
      exact hg ⟨h.1, (startsWithAny_iff _ _).1 h.2⟩
  rw [gen_raw]
  simp only [routeInput, hp, msgToHttp, routeHttp, hrt]
  rfl

/-! ### the constructor -/

/-- **`C2Http.__init__`**: the constructor call translated from the source — `derive_aes_hmac_keys` instantiated by the typed
translation of that function, `RSA.import_key` by a function that answers the public key object (modulus `npub`) or raises
ValueError (`pubOk = false`) — equals the encoding of `mkDecoder`: the same exception in the same order (contradictory / missing
key material, key lengths, public key, `assert self.priv.n == self.pub.n`, trial beacons), and otherwise the instance whose
routing attributes are the UTF-8 encodings of the configured verbs / URIs, whose three transform objects are
`HttpDataTransform(steps)`, `HttpDataTransform(steps)` and `HttpDataTransform(steps, reverse=True, build="output")` of the three
configured step lists, with an empty metadata cache and `BeaconKeys(aes_key, hmac_key)` of the (given or derived) keys.
Domain: `bconfig` is a record of the reads the code performs — the six settings are there (`str` / `list` values), the strings
have an UTF-8 encoding (no lone surrogates); keys are `None` or `bytes`; a private key object has an attribute `n`. -/
theorem gen_c2http_init (c : C07.Crypto) (cfg : HttpCfg) (ak hk ar : Option Bytes) (privN : Option Int) (verify : Bool)
    (npub : Int) (pubOk trial : Bool) (settings pubkeyV : V) (su vp vg : PyRt.Str) (uris : List PyRt.Str) (postVs reqVs recVs : List V)
    (hsu : PyU.getItem settings (PyU.lit "SETTING_SUBMITURI") = .ok (.str su))
    (hvp : PyU.getItem settings (PyU.lit "SETTING_C2_VERB_POST") = .ok (.str vp))
    (hvg : PyU.getItem settings (PyU.lit "SETTING_C2_VERB_GET") = .ok (.str vg))
    (hpo : PyU.getItem settings (PyU.lit "SETTING_C2_POSTREQ") = .ok (.list postVs))
    (hrq : PyU.getItem settings (PyU.lit "SETTING_C2_REQUEST") = .ok (.list reqVs))
    (hrc : PyU.getItem settings (PyU.lit "SETTING_C2_RECOVER") = .ok (.list recVs))
    (esu : PyU.utf8Enc su = .ok cfg.submitUri) (evp : PyU.utf8Enc vp = .ok cfg.submitVerb) (evg : PyU.utf8Enc vg = .ok cfg.getVerb)
    (eur : encodeAll uris = .ok cfg.getUris) :
    Gen.PyC2H.c2http_init (deriveX c.asym.sha256) (importKeyX (if pubOk then some (encKey npub) else none))
        (encBConfig settings (.list (uris.map .str)) pubkeyV (.bool trial)) (C04Gen.encOB ak) (C04Gen.encOB hk) (C04Gen.encOB ar)
        (encPriv privN) (.bool verify)
      = encInitResult cfg (encBConfig settings (.list (uris.map .str)) pubkeyV (.bool trial)) verify npub privN postVs reqVs recVs
          (mkDecoder c cfg ⟨ak, hk, ar, privN.map (· == npub), verify⟩ pubOk trial) :=
  gen_c2http_init_proof c cfg ak hk ar privN verify npub pubOk trial settings pubkeyV su vp vg uris postVs reqVs recVs
    hsu hvp hvg hpo hrq hrc esu evp evg eur

/-- what the constructor builds is an instance the routing theorem speaks about: its transforms are the constructor calls of
`HttpDataTransform` on the configured step lists (`C04Gen.gen_http_data_transform_init`), and on step lists of the C04 domain
these denote the model's `transformGet` / `transformSubmit` / `transformResponse` -/
theorem gen_c2http_init_transforms (cfg : HttpCfg) (bconfig : V) (k1 k2 : Option Bytes) (verify : Bool) (npub : Int)
    (privN : Option Int) (postVs reqVs recVs : List V)
    (hg : C04Gen.stepsOf reqVs = some cfg.getProg) (hp : C04Gen.stepsOf postVs = some cfg.postProg)
    (hr : C04Gen.stepsOf recVs = some cfg.recoverProg) :
    ∃ (tg ts tr : V) (o : Rest), encC2Http cfg bconfig k1 k2 verify npub privN postVs reqVs recVs = encSelf cfg tg ts tr o ∧
      (∃ a b, tg = C04Gen.encT a b ∧ C04Gen.stepsOf a = some (transformGet cfg).tsteps ∧ C04Gen.stepsOf b = some (transformGet cfg).rsteps) ∧
      (∃ a b, ts = C04Gen.encT a b ∧ C04Gen.stepsOf a = some (transformSubmit cfg).tsteps ∧
        C04Gen.stepsOf b = some (transformSubmit cfg).rsteps) ∧
      (∃ a b, tr = C04Gen.encT a b ∧ C04Gen.stepsOf a = some (transformResponse cfg).tsteps ∧
        C04Gen.stepsOf b = some (transformResponse cfg).rsteps) := by
  refine ⟨_, _, _, _, rfl, ⟨_, _, rfl, ?_⟩, ⟨_, _, rfl, ?_⟩, ⟨_, _, rfl, ?_⟩⟩
  · exact C04Gen.stepsOf_mkLists reqVs cfg.getProg hg false .none
  · exact C04Gen.stepsOf_mkLists postVs cfg.postProg hp false .none
  · exact C04Gen.stepsOf_mkLists recVs cfg.recoverProg hr true (PyU.lit "output")

/-- **`constructor_rejects` for the source text**: contradictory key material, missing key material and trial beacons -/
theorem gen_constructor_rejects (c : C07.Crypto) (cfg : HttpCfg) (ak hk ar : Option Bytes) (privN : Option Int) (verify : Bool)
    (npub : Int) (pubOk trial : Bool) (settings pubkeyV : V) (su vp vg : PyRt.Str) (uris : List PyRt.Str) (postVs reqVs recVs : List V)
    (hsu : PyU.getItem settings (PyU.lit "SETTING_SUBMITURI") = .ok (.str su))
    (hvp : PyU.getItem settings (PyU.lit "SETTING_C2_VERB_POST") = .ok (.str vp))
    (hvg : PyU.getItem settings (PyU.lit "SETTING_C2_VERB_GET") = .ok (.str vg))
    (hpo : PyU.getItem settings (PyU.lit "SETTING_C2_POSTREQ") = .ok (.list postVs))
    (hrq : PyU.getItem settings (PyU.lit "SETTING_C2_REQUEST") = .ok (.list reqVs))
    (hrc : PyU.getItem settings (PyU.lit "SETTING_C2_RECOVER") = .ok (.list recVs))
    (esu : PyU.utf8Enc su = .ok cfg.submitUri) (evp : PyU.utf8Enc vp = .ok cfg.submitVerb) (evg : PyU.utf8Enc vg = .ok cfg.getVerb)
    (eur : encodeAll uris = .ok cfg.getUris) :
    let call := Gen.PyC2H.c2http_init (deriveX c.asym.sha256) (importKeyX (if pubOk then some (encKey npub) else none))
        (encBConfig settings (.list (uris.map .str)) pubkeyV (.bool trial)) (C04Gen.encOB ak) (C04Gen.encOB hk) (C04Gen.encOB ar)
        (encPriv privN) (.bool verify)
    (C07.truthy ar = true → C07.truthy ak = true → call = .error (.py .valueError)) ∧
    (C07.truthy ar = false → C07.truthy ak = false → privN = none → call = .error (.py .valueError)) ∧
    (trial = true → ∀ v, call ≠ .ok v) := by
  intro call
  have hcall : call = _ := gen_c2http_init c cfg ak hk ar privN verify npub pubOk trial settings pubkeyV su vp vg uris postVs reqVs
    recVs hsu hvp hvg hpo hrq hrc esu evp evg eur
  obtain ⟨r1, r2, r3⟩ := constructor_rejects c cfg ⟨ak, hk, ar, privN.map (· == npub), verify⟩ pubOk trial
  refine ⟨?_, ?_, ?_⟩
  · intro h1 h2
    rw [hcall, r1 h1 h2]; rfl
  · intro h1 h2 h3
    rw [hcall, r2 h1 h2 (by simp [h3])]; rfl
  · intro ht v hv
    rw [hcall] at hv
    cases hm : mkDecoder c cfg ⟨ak, hk, ar, privN.map (· == npub), verify⟩ pubOk trial with
    | error e => rw [hm] at hv; cases hv
    | ok d => exact r3 ht d hm


/-! ### `iter_recover_http` -/

/-- **`iter_recover_http`**: the generator translated from the source — all external functions instantiated as for the hand model
(`Model/C07Gen.lean`: `urlsplit` / `parse_qsl` and the base64 codecs by the C16 / C04 sub-models, `cipher.decrypt` by the model's RSA
primitive, `derive_aes_hmac_keys` / `decrypt_packet` by the typed translations of these functions, `iter_encrypted_packets` by the C05
framing models, `CallbackPacket(·)` / `TaskPacket(·)` by the two layouts of the C07 model) — run on the instance of a decoder object
`d` (`encDec`: routing attributes of `d.cfg`, three transform objects that denote the model's transforms, `verify_hmac`, the private
key object — `None` iff the decoder has none —, the metadata cache and `BeaconKeys` of `d`), on raw bytes or a message object, with
`keys=None` or a `BeaconKeys` argument, answers EXACTLY what the model says: when the model's generator ends normally, the list of
the packets it yields (metadata first, then one task / callback per encrypted packet, in order) together with the instance of the
decoder object afterwards (cache entry added, session keys derived when AES / HMAC key were missing); when it ends with an exception
— ValueError of an unrelated message, of `parse_raw_http`, of a failed RSA / HMAC / AES step, EOFError of a short packet,
KeyError / AssertionError of `recover` … — that exception.  (What was yielded BEFORE an exception and the state of the instance at
that point are not part of the translated answer: for these the tie is the correspondence only.)  In particular the keys used for
the packets of a message are the ones read before its metadata is processed (`keys = keys or self.beacon_keys` comes first). -/
theorem gen_iter_recover_http (c : Crypto) (d : Decoder) (tg ts tr : V) (o : Rest) (privV : V)
    (hpv : PyU.truthy privV = d.hasPriv) (ht : TransformsOk d.cfg tg ts tr) (ext : Option Keys) (status reason request : V)
    (inp : Input) :
    Gen.PyC2H.iter_recover_http C16Gen.urlsplitX C16Gen.parseQslX C04Gen.b64decodeX C04Gen.urlsafeB64decodeX (C06Gen.decX c.asym)
        (deriveX c.asym.sha256) iterPacketsX (decryptPacketStarX c.sym) callbackPacketX taskPacketX
        (encDec tg ts tr o privV d) (encInput status reason request inp) (encExt ext)
      = encOut tg ts tr o privV (iterRecoverHttp c d inp ext) :=
  gen_iter_recover_http_proof c d tg ts tr o privV hpv ht ext status reason request inp

/-- the instance `C2Http.__init__` builds is such an instance (for step lists of the C04 domain) -/
theorem gen_init_instance_ok (cfg : HttpCfg) (bconfig : V) (k1 k2 : Option Bytes) (verify : Bool) (npub : Int)
    (privN : Option Int) (postVs reqVs recVs : List V)
    (hg : C04Gen.stepsOf reqVs = some cfg.getProg) (hp : C04Gen.stepsOf postVs = some cfg.postProg)
    (hr : C04Gen.stepsOf recVs = some cfg.recoverProg) :
    ∃ (tg ts tr : V) (o : Rest), TransformsOk cfg tg ts tr ∧
      encC2Http cfg bconfig k1 k2 verify npub privN postVs reqVs recVs =
        encDec tg ts tr o (encPriv privN) ⟨cfg, ⟨k1, k2, Gen.C2Struct.defaultAesIv⟩, privN.isSome, verify, []⟩ ∧
      PyU.truthy (encPriv privN) = privN.isSome := by
  refine ⟨_, _, _, { bconfig := bconfig, aes_key := C04Gen.encOB k1, hmac_key := C04Gen.encOB k2, pub := encKey npub },
    ⟨⟨_, _, rfl, ?_⟩, ⟨_, _, rfl, ?_⟩, ⟨_, _, rfl, ?_⟩⟩, rfl, ?_⟩
  · exact (C04Gen.stepsOf_mkLists reqVs cfg.getProg hg false .none).2
  · exact (C04Gen.stepsOf_mkLists postVs cfg.postProg hp false .none).2
  · exact (C04Gen.stepsOf_mkLists recVs cfg.recoverProg hr true (PyU.lit "output")).2
  · cases privN <;> rfl

/-- when the model's generator ends normally, the translated one answers its packets and the instance afterwards … -/
theorem gen_iter_recover_http_ok (c : Crypto) (d : Decoder) (tg ts tr : V) (o : Rest) (privV : V)
    (hpv : PyU.truthy privV = d.hasPriv) (ht : TransformsOk d.cfg tg ts tr) (ext : Option Keys) (status reason request : V)
    (inp : Input) (hexc : (iterRecoverHttp c d inp ext).exc = none) :
    iterRecoverG c (encDec tg ts tr o privV d) (encInput status reason request inp) (encExt ext)
      = .ok (.tuple [.list ((iterRecoverHttp c d inp ext).items.map encItem), encDec tg ts tr o privV (iterRecoverHttp c d inp ext).dec]) := by
  have := gen_iter_recover_http c d tg ts tr o privV hpv ht ext status reason request inp
  simp only [encOut, hexc] at this
  exact this

/-- … and when it ends with an exception, that exception -/
theorem gen_iter_recover_http_exc (c : Crypto) (d : Decoder) (tg ts tr : V) (o : Rest) (privV : V)
    (hpv : PyU.truthy privV = d.hasPriv) (ht : TransformsOk d.cfg tg ts tr) (ext : Option Keys) (status reason request : V)
    (inp : Input) (e : Exc) (hexc : (iterRecoverHttp c d inp ext).exc = some e) :
    iterRecoverG c (encDec tg ts tr o privV d) (encInput status reason request inp) (encExt ext) = .error (encExcA e) := by
  have := gen_iter_recover_http c d tg ts tr o privV hpv ht ext status reason request inp
  simp only [encOut, hexc] at this
  exact this

/-- **`checkin_decodes` for the source text**: the client's check-in request — the object, or its wire bytes under C16's
hypotheses — decoded by the translated generator on the instance of a decoder object of the session invariant yields exactly the
metadata that was sent when the decoder has the RSA private key (nothing otherwise), and the instance afterwards is the instance of
a decoder object that keeps the invariant (session keys known if they were known or the private key is there) -/
theorem gen_checkin_decodes (c : Crypto) (L : CryptoLaws c) {cfg : HttpCfg} {pg pp : C04.Ref.Program} {es : List C04.Enc}
    (wf : WellFormedCfg cfg pg pp es) (cl : Client) (hcl : cl.cfg = cfg) (wc : WellFormedClient c cl)
    (dec : Decoder) (known : Bool) (inv : Inv c cl dec known) (rr : C06.Rand) (rand : C04.Rand)
    (tg ts tr : V) (o : Rest) (privV : V) (hpv : PyU.truthy privV = dec.hasPriv) (ht : TransformsOk dec.cfg tg ts tr)
    (status reason request : V) :
    ∃ r, getTaskRequest c cl rr rand = .ok (r, { cl with metadata := sentMetadata cl }) ∧
      ∀ inp, (inp = .msg (.request r) ∨ (MsgWireOk (.request r) ∧ inp = .raw (wireRequest r))) →
        ∃ dec', iterRecoverG c (encDec tg ts tr o privV dec) (encInput status reason request inp) .none =
            .ok (.tuple [.list (if dec.hasPriv then [C06Gen.encMeta (sentMetadata cl)] else []), encDec tg ts tr o privV dec']) ∧
          Inv c { cl with metadata := sentMetadata cl } dec' (known || dec.hasPriv) := by
  obtain ⟨r, h1, _, _, h4⟩ := checkin_decodes c L wf cl hcl wc dec known inv rr rand
  refine ⟨r, h1, ?_⟩
  intro inp hinp
  obtain ⟨i1, i2, i3⟩ := h4 inp hinp
  refine ⟨(iterRecoverHttp c dec inp).dec, ?_, i3⟩
  have := gen_iter_recover_http_ok c dec tg ts tr o privV hpv ht none status reason request inp i2
  rw [show encExt none = V.none from rfl] at this
  rw [this, i1]
  cases dec.hasPriv <;> rfl

/-- **`keys_read_before_metadata` for the source text**: a message carrying metadata AND output, seen by an instance that has only
the RSA private key, ends the translated generator with ValueError (the packets of this very message are refused: the keys were
read before the metadata was processed) -/
theorem gen_keys_read_before_metadata (c : Crypto) (dec : Decoder) (hpriv : dec.hasPriv = true)
    (hk : dec.keys.aesKey = none ∧ dec.keys.hmacKey = none) (hc : dec.cache = []) (http : Http)
    (blob out : Bytes) (id : Option Bytes) (hrec : recoverStage dec.cfg http = .ok ⟨some out, some blob, id⟩)
    (hne : blob ≠ []) (m : C06.Metadata) (hdec : C06.decryptMetadata c.asym blob = .ok m)
    (p : C05.Packet) (ps : List C05.Packet) (hfr : (frames (isRequest http) (some out)).1 = p :: ps)
    (tg ts tr : V) (o : Rest) (privV : V) (hpv : PyU.truthy privV = dec.hasPriv) (ht : TransformsOk dec.cfg tg ts tr)
    (status reason request : V) :
    iterRecoverG c (encDec tg ts tr o privV dec) (C04Gen.encHttp status reason request http) .none = .error (.py .valueError) := by
  obtain ⟨_, h2, _, _⟩ := keys_read_before_metadata c dec hpriv hk hc http blob out id hrec hne m hdec p ps hfr
  have := gen_iter_recover_http_exc c dec tg ts tr o privV hpv ht none status reason request (.msg http) (.py .valueError) h2
  exact this


/-- **`unrelated_rejected` for the source text of `iter_recover_http`**: a request object matching neither route — or raw bytes that
parse to one — ends the translated generator with ValueError before anything is decoded and before any primitive is called
(whatever the transform objects, the keys, the cache and ALL external functions are) -/
theorem gen_iter_recover_http_unrelated (b64 ub64 : V → Py V) (rsa : V → V → V → Py V) (der ipk : V → Py V)
    (dps : V → V → V → Py V) (cbp tkp : V → Py V) (cfg : HttpCfg) (tg ts tr : V) (o : Rest) (keys : V) (r : Req)
    (hg : ¬ (r.method = cfg.getVerb ∧ ∃ u ∈ cfg.getUris, u <+: r.uri))
    (hs : ¬ (r.method = cfg.submitVerb ∧ cfg.submitUri <+: r.uri)) :
    (∀ us pq, Gen.PyC2H.iter_recover_http us pq b64 ub64 rsa der ipk dps cbp tkp (encSelf cfg tg ts tr o) (C04Gen.encReq r) keys
      = .error (.py .valueError)) ∧
    (∀ data, C16.parseRawHttp data = .ok (.request r.method r.uri r.params r.headers r.body) →
      Gen.PyC2H.iter_recover_http C16Gen.urlsplitX C16Gen.parseQslX b64 ub64 rsa der ipk dps cbp tkp (encSelf cfg tg ts tr o)
        (.bytes data) keys = .error (.py .valueError)) := by
  have hrt : routeRequest cfg r.method r.uri = none := by
    unfold routeRequest
    rw [if_neg, if_neg]
    · intro h
      simp only [Bool.and_eq_true, beq_iff_eq, List.isPrefixOf_iff_prefix] at h
      exact hs h
    · intro h
      simp only [Bool.and_eq_true, beq_iff_eq] at h
      exact hg ⟨h.1, (startsWithAny_iff _ _).1 h.2⟩
  exact ⟨fun us pq => gen_iter_recover_http_unrelated_msg us pq b64 ub64 rsa der ipk dps cbp tkp cfg tg ts tr o keys r hrt,
    fun data hp => gen_iter_recover_http_unrelated_raw b64 ub64 rsa der ipk dps cbp tkp cfg tg ts tr o keys r data hp hrt⟩

/-! ### Non-vacuity: the translated definitions evaluated on concrete inputs -/

def sampleCfg : HttpCfg :=
  { getVerb := [71, 69, 84], getUris := [[47, 97], [47, 98, 99]], submitVerb := [80, 79, 83, 84], submitUri := [47, 115],
    getProg := [], postProg := [], recoverProg := [] }
def sampleSelf : V := encSelf sampleCfg (PyU.lit "get") (PyU.lit "submit") (PyU.lit "response") {}
def sampleReq (m u : Bytes) : V := C04Gen.encReq ⟨m, u, [], [], []⟩

-- GET /bcd → the get transform (second URI prefix); POST /s?x → submit; GET /s → ValueError; a response → response transform
example : getTransformG sampleSelf (sampleReq [71, 69, 84] [47, 98, 99, 100]) = .ok (PyU.lit "get") := by decide +kernel
example : getTransformG sampleSelf (sampleReq [80, 79, 83, 84] [47, 115, 63, 120]) = .ok (PyU.lit "submit") := by decide +kernel
example : getTransformG sampleSelf (sampleReq [71, 69, 84] [47, 115]) = .error .valueError := by decide +kernel
example : getTransformG sampleSelf (.inst Gen.PyC2U.HttpResponse [.int 200, .dict [] [], .bytes [79, 75], .bytes [], .none])
    = .ok (PyU.lit "response") := by decide +kernel
-- raw bytes b"GET /a HTTP/1.1\r\n\r\n" are parsed first (translated `parse_raw_http`)
example : getTransformG sampleSelf (.bytes [71, 69, 84, 32, 47, 97, 32, 72, 84, 84, 80, 47, 49, 46, 49, 13, 10, 13, 10])
    = .ok (PyU.lit "get") := by decide +kernel
-- `None`, an int, a `str`: ValueError
example : getTransformG sampleSelf .none = .error .valueError := by decide +kernel
example : getTransformG sampleSelf (.int 5) = .error .valueError := by decide +kernel

def sampleSettings : V :=
  .dict [PyU.lit "SETTING_SUBMITURI", PyU.lit "SETTING_C2_VERB_POST", PyU.lit "SETTING_C2_VERB_GET", PyU.lit "SETTING_C2_POSTREQ",
         PyU.lit "SETTING_C2_REQUEST", PyU.lit "SETTING_C2_RECOVER"]
        [PyU.lit "/s", PyU.lit "POST", PyU.lit "GET", .list [.tuple [PyU.lit "print", .bool true]],
         .list [.tuple [PyU.lit "base64", .bool true]], .list [.tuple [PyU.lit "print", .bool true]]]
def sampleBConfig (trial : Bool) : V := encBConfig sampleSettings (.list [PyU.lit "/a", PyU.lit "/bc"]) (.bytes [1]) (.bool trial)
def sampleInit (trial : Bool) (ak hk ar priv : V) : PyU.PyA V :=
  initG (fun x => x ++ x) (some (encKey 77)) (sampleBConfig trial) ak hk ar priv (.bool true)

-- a 16-byte AES key: an instance that routes `GET /bcd` to its get transform
example : (match sampleInit false (.bytes (List.replicate 16 1)) .none .none .none with
    | .ok self => getTransformG self (sampleReq [71, 69, 84] [47, 98, 99, 100])
    | .error _ => .error .typeError) =
      .ok (C04Gen.encT [.tuple [PyU.lit "base64", .bool true]] [.tuple [PyU.lit "base64", .bool true]]) := by decide +kernel
-- a 15-byte key, both aes_rand and aes_key, no key at all, a trial beacon, a private key of another modulus
example : sampleInit false (.bytes (List.replicate 15 1)) .none .none .none = .error (.py .valueError) := by decide +kernel
example : sampleInit false (.bytes (List.replicate 16 1)) .none (.bytes [1]) .none = .error (.py .valueError) := by decide +kernel
example : sampleInit false .none .none .none .none = .error (.py .valueError) := by decide +kernel
example : sampleInit true (.bytes (List.replicate 16 1)) .none .none .none = .error (.py .valueError) := by decide +kernel
example : sampleInit false .none .none .none (encKey 78) = .error .assertion := by decide +kernel
-- keys derived from 8 random bytes by the toy digest `x ++ x` (16 bytes): first half AES, second half empty → ValueError
example : sampleInit false .none .none (.bytes [1, 2, 3, 4, 5, 6, 7, 8]) .none = .error (.py .valueError) := by decide +kernel

def toyC : Crypto := ⟨C05.toyCrypto, C06.toyCrypto 128⟩

-- the translated generator on the instance the translated constructor built: a check-in without metadata yields nothing and
-- leaves the instance as it was; an unrelated request and a malformed raw message end it with ValueError
example : (match sampleInit false (.bytes (List.replicate 16 1)) .none .none .none with
    | .ok self => (iterRecoverG toyC self (sampleReq [71, 69, 84] [47, 97]) .none).map fun r => PyU.eq r (.tuple [.list [], self])
    | .error e => .error e) = .ok true := by decide +kernel
example : (match sampleInit false (.bytes (List.replicate 16 1)) .none .none .none with
    | .ok self => iterRecoverG toyC self (sampleReq [80, 85, 84] [47, 97]) .none
    | .error e => .error e) = .error (.py .valueError) := by decide +kernel
example : (match sampleInit false (.bytes (List.replicate 16 1)) .none .none .none with
    | .ok self => iterRecoverG toyC self (.bytes [71, 69, 84, 32, 47]) .none
    | .error e => .error e) = .error (.py .valueError) := by decide +kernel

end C07Gen

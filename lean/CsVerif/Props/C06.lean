import CsVerif.Lemmas.C06
/-!
C06 property theorems: Beacon metadata survives RSA transport; session keys derive from it.

RSA/PKCS#1 v1.5 and SHA-256 are parameters (`Crypto`); every theorem that needs a fact about them takes
`CryptoLaws c`.  `toy_laws` shows the laws are satisfiable.
-/
namespace C06
open Gen.C2Struct

/-! ### obligations on the generated tables (re-checked against c_c2.py / c2.py on every run) -/

/-- The structure definition is the one the model and the theorems below were written for. -/
theorem layout_generated :
    beaconMetadataFields =
      [⟨"magic", .uint, 4⟩, ⟨"size", .uint, 4⟩, ⟨"aes_rand", .chars, 16⟩, ⟨"ansi_cp", .uint, 2⟩,
       ⟨"oem_cp", .uint, 2⟩, ⟨"bid", .uint, 4⟩, ⟨"pid", .uint, 4⟩, ⟨"port", .uint, 2⟩, ⟨"flag", .uint, 1⟩,
       ⟨"ver_major", .uint, 1⟩, ⟨"ver_minor", .uint, 1⟩, ⟨"ver_build", .uint, 2⟩, ⟨"ptr_x64", .uint, 4⟩,
       ⟨"ptr_gmh", .uint, 4⟩, ⟨"ptr_gpa", .uint, 4⟩, ⟨"ip", .uint, 4⟩, ⟨"info", .dynChars, 0⟩] := by
  decide

/-- cstruct's offsets are the running sums of the widths: no holes, so the only padding `dumps()` can
insert is the NUL fill after a too-short `aes_rand` (modelled by `padTo`). -/
theorem offsets_consecutive :
    beaconMetadataOffsets =
      (List.range beaconMetadataFields.length).map
        (fun i => ((beaconMetadataFields.take i).map (·.width)).sum) := by
  decide

/-- big-endian, `info` length is `size - 51`, and 51 is the static part minus `magic` and `size`. -/
theorem endian_and_info_expr :
    bigEndian = true ∧ infoLenField = "size" ∧ infoLenSub = 51 ∧ headerLen = infoLenSub + W "magic" + W "size" := by
  decide

/-- `InWidth` spelled out: every integer field at its full width. -/
theorem inWidth_explicit (m : Metadata) :
    InWidth m ↔
      m.magic < 2 ^ 32 ∧ m.size < 2 ^ 32 ∧ m.ansi_cp < 2 ^ 16 ∧ m.oem_cp < 2 ^ 16 ∧
      m.bid < 2 ^ 32 ∧ m.pid < 2 ^ 32 ∧ m.port < 2 ^ 16 ∧ m.flag < 2 ^ 8 ∧ m.ver_major < 2 ^ 8 ∧
      m.ver_minor < 2 ^ 8 ∧ m.ver_build < 2 ^ 16 ∧ m.ptr_x64 < 2 ^ 32 ∧ m.ptr_gmh < 2 ^ 32 ∧
      m.ptr_gpa < 2 ^ 32 ∧ m.ip < 2 ^ 32 :=
  inWidth_iff m

/-! ### the byte layout -/

/-- `dumps()` succeeds exactly when every integer field fits; otherwise `struct.error`. -/
theorem dumps_ok_iff (m : Metadata) :
    (∃ d, dumpsMetadata m = .ok d) ↔ InWidth m := by
  unfold dumpsMetadata
  split <;> simp_all

theorem dumps_overflow (m : Metadata) (h : ¬ InWidth m) : dumpsMetadata m = .error .structError :=
  dumps_err m h

/-- `len(metadata)`: 59 bytes of fixed fields plus the info string (for a 16-byte `aes_rand`). -/
theorem dumps_length (m : Metadata) (d : Bytes) (haes : m.aes_rand.length = 16)
    (h : dumpsMetadata m = .ok d) : d.length = 59 + m.info.length := by
  unfold dumpsMetadata at h
  split at h
  · injection h with h; subst h; exact rawDumps_length16 m haes
  · cases h

/-- Parsing what was dumped gives the same metadata back, field for field, for all in-width field
values and every info string, when `size` is consistent; trailing bytes are ignored. -/
theorem parse_dumps (m : Metadata) (t : Bytes) (hw : InWidth m) (haes : m.aes_rand.length = 16)
    (hsize : m.size = 51 + m.info.length) :
    ∃ d, dumpsMetadata m = .ok d ∧ parseMetadata d = .ok m ∧ parseMetadata (d ++ t) = .ok m := by
  refine ⟨rawDumps m, dumps_ok m hw, ?_, ?_⟩
  · have := parse_rawDumps_append m [] hw (by rw [W_aes_rand]; exact haes) (by rw [infoLenSub_eq]; exact hsize)
    rwa [List.append_nil] at this
  · exact parse_rawDumps_append m t hw (by rw [W_aes_rand]; exact haes) (by rw [infoLenSub_eq]; exact hsize)

/-- The reader raises nothing but `EOFError`, and does so whenever the 59-byte header is incomplete or
fewer than `size - 51` info bytes follow it. -/
theorem parse_only_eof (b : Bytes) (e : PyExc) (h : parseMetadata b = .error e) : e = .eofError :=
  parse_error_eof b e h

theorem parse_short_header (b : Bytes) (h : b.length < 59) : parseMetadata b = .error .eofError :=
  parse_short b h

theorem parse_short_info (b : Bytes) (h0 : 59 ≤ b.length) (h : b.length - 59 < sizeField b - 51) :
    parseMetadata b = .error .eofError :=
  parse_truncated b h0 h

/-- What a successful parse returns: `size < 51` reads an empty info (cstruct's `max(0, size - 51)`). -/
theorem parse_ok_shape (b : Bytes) (m : Metadata) (h : parseMetadata b = .ok m) :
    59 ≤ b.length ∧ m.magic = magicField b ∧ m.size = sizeField b ∧ m.aes_rand = (b.drop 8).take 16 ∧
    m.info = (b.drop 59).take (m.size - 51) ∧ m.info.length = m.size - 51 := by
  obtain ⟨h1, h2, h3, h4, h5, h6⟩ := parse_ok_facts b m h
  refine ⟨h1, h2, h3, h4, by rw [h3]; exact h6, ?_⟩
  rw [h6, h3, List.length_take, List.length_drop]
  omega

/-! ### encrypt_metadata -/

/-- `encrypt_metadata` makes the size field consistent: `size = len(dumps) - 8 = 51 + |info|`, and that
is what the encrypted bytes say too. -/
theorem size_consistent (m m' : Metadata) (hw : InWidth m) (haes : m.aes_rand.length = 16)
    (h : sized m = .ok m') :
    m' = { m with size := 51 + m.info.length } ∧
    (∀ d, dumpsMetadata m' = .ok d → m'.size = d.length - 8 ∧ sizeField d = d.length - 8 ∧
      m'.info.length = m'.size - 51) := by
  unfold sized at h
  rw [dumps_ok m hw] at h
  injection h with h
  have hsz : (rawDumps m).length - 8 = 51 + m.info.length := by rw [rawDumps_length16 m haes]; omega
  rw [hsz] at h
  subst h
  refine ⟨rfl, ?_⟩
  intro d hd
  have hl : d.length = 59 + m.info.length := dumps_length { m with size := 51 + m.info.length } d haes hd
  have hw' : InWidth { m with size := 51 + m.info.length } := by
    rw [← dumps_ok_iff]; exact ⟨d, hd⟩
  have hp := (parse_dumps _ [] hw' haes rfl)
  obtain ⟨d', hd', hp', _⟩ := hp
  rw [hd] at hd'
  injection hd' with hd'
  subst hd'
  have hf := (parse_ok_facts d _ hp').2.2.1
  simp only at hf
  refine ⟨by simp only; omega, by rw [← hf]; omega, by simp only; omega⟩

/-- A stale out-of-range field makes `len(metadata)` raise `struct.error` before anything is encrypted. -/
theorem encrypt_overflow (c : Crypto) (m : Metadata) (r : Rand) (h : ¬ InWidth m) :
    encryptMetadata c m r = .error .structError := by
  simp [encryptMetadata, sized, dumps_err m h]

/-- Metadata that does not fit the modulus (`59 + |info| > k - 11`) is rejected with ValueError. -/
theorem too_long_rejected (c : Crypto) (hc : CryptoLaws c) (m : Metadata) (r : Rand)
    (hw : InWidth m) (haes : m.aes_rand.length = 16) (hsz : 51 + m.info.length < 2 ^ 32)
    (hlong : ¬ (59 + m.info.length + 11 ≤ c.modulusBytes)) :
    encryptMetadata c m r = .error (.py .valueError) := by
  have hsz' : (rawDumps m).length - 8 = 51 + m.info.length := by rw [rawDumps_length16 m haes]; omega
  have hw' := inWidth_setSize m (51 + m.info.length) hw hsz
  simp only [encryptMetadata, sized, dumps_ok m hw, hsz', dumps_ok _ hw']
  rw [hc.enc_too_long _ r (by rw [rawDumps_length16 { m with size := 51 + m.info.length } haes]; exact hlong)]
  rfl

/-! ### the central statement -/

/-- **Round trip.**  For every metadata whose integer fields fit their widths, every 16-byte
`aes_rand` and every info string with `59 + |info| ≤ k - 11`, encryption succeeds, the blob has modulus
length, and decrypting it with the matching key returns the same metadata field for field with `size`
made consistent (`51 + |info| = |dumps| - 8`) — provided the caller set the 0xBEEF magic, which
`encrypt_metadata` does not do itself; with any other magic the blob is rejected with ValueError.
(`hsz` only matters for absurd moduli of more than 2^32 bytes; see the RSA-1024/2048 corollaries.) -/
theorem metadata_roundtrip (c : Crypto) (hc : CryptoLaws c) (m : Metadata) (r : Rand)
    (hw : InWidth m) (haes : m.aes_rand.length = 16)
    (hfit : 59 + m.info.length ≤ c.modulusBytes - 11) (hsz : 51 + m.info.length < 2 ^ 32) :
    ∃ blob, encryptMetadata c m r = .ok blob ∧ blob.length = c.modulusBytes ∧
      decryptMetadata c blob =
        if m.magic = 0xBEEF then .ok { m with size := 51 + m.info.length } else .error .valueError := by
  have hsz' : (rawDumps m).length - 8 = 51 + m.info.length := by rw [rawDumps_length16 m haes]; omega
  have hw' := inWidth_setSize m (51 + m.info.length) hw hsz
  have hlen' : (rawDumps { m with size := 51 + m.info.length }).length = 59 + m.info.length :=
    rawDumps_length16 { m with size := 51 + m.info.length } haes
  obtain ⟨blob, hb⟩ := hc.enc_ok (rawDumps { m with size := 51 + m.info.length }) r (by rw [hlen']; omega)
  refine ⟨blob, ?_, hc.enc_length _ _ _ hb, ?_⟩
  · simp only [encryptMetadata, sized, dumps_ok m hw, hsz', dumps_ok _ hw', hb]
    rfl
  · have hne : rawDumps { m with size := 51 + m.info.length } ≠ [] := by
      intro h0; rw [h0] at hlen'; simp at hlen'; omega
    have hp := parse_rawDumps_append { m with size := 51 + m.info.length } [] hw'
      (by rw [W_aes_rand]; exact haes) (by rw [infoLenSub_eq])
    rw [List.append_nil] at hp
    simp only [decryptMetadata, hc.dec_enc _ _ _ hb, hne, ↓reduceIte, hp, magicBeef]
    by_cases hm : m.magic = 0xBEEF <;> simp [hm]

/-- RSA-1024 (`k = 128`): every info string of length 0..58. -/
theorem metadata_roundtrip_rsa1024 (c : Crypto) (hc : CryptoLaws c) (hk : c.modulusBytes = 128)
    (m : Metadata) (r : Rand) (hw : InWidth m) (haes : m.aes_rand.length = 16)
    (hmagic : m.magic = 0xBEEF) (hinfo : m.info.length ≤ 58) :
    ∃ blob, encryptMetadata c m r = .ok blob ∧ blob.length = 128 ∧
      decryptMetadata c blob = .ok { m with size := 51 + m.info.length } := by
  obtain ⟨blob, h1, h2, h3⟩ := metadata_roundtrip c hc m r hw haes (by omega) (by omega)
  exact ⟨blob, h1, by omega, by rw [h3, if_pos hmagic]⟩

/-- RSA-2048 (`k = 256`): every info string of length 0..186. -/
theorem metadata_roundtrip_rsa2048 (c : Crypto) (hc : CryptoLaws c) (hk : c.modulusBytes = 256)
    (m : Metadata) (r : Rand) (hw : InWidth m) (haes : m.aes_rand.length = 16)
    (hmagic : m.magic = 0xBEEF) (hinfo : m.info.length ≤ 186) :
    ∃ blob, encryptMetadata c m r = .ok blob ∧ blob.length = 256 ∧
      decryptMetadata c blob = .ok { m with size := 51 + m.info.length } := by
  obtain ⟨blob, h1, h2, h3⟩ := metadata_roundtrip c hc m r hw haes (by omega) (by omega)
  exact ⟨blob, h1, by omega, by rw [h3, if_pos hmagic]⟩

/-! ### rejection: always ValueError, never another exception -/

/-- A blob that pycryptodome cannot decrypt — the call raised, returned the sentinel, or returned
empty bytes — is rejected with ValueError. -/
theorem undecryptable_rejected (c : Crypto) (hc : CryptoLaws c) (blob : Bytes)
    (h : (∃ e, c.rsaDec blob = .error e) ∨ c.rsaDec blob = .ok none ∨ c.rsaDec blob = .ok (some [])) :
    decryptMetadata c blob = .error .valueError := by
  rcases h with ⟨e, he⟩ | h | h
  · have := hc.dec_raises_only_valueError blob e he
    subst this
    simp [decryptMetadata, he]
  · simp [decryptMetadata, h]
  · simp [decryptMetadata, h]

/-- Blobs of any length other than the modulus length are rejected with ValueError. -/
theorem wrong_length_rejected (c : Crypto) (hc : CryptoLaws c) (blob : Bytes)
    (h : blob.length ≠ c.modulusBytes) : decryptMetadata c blob = .error .valueError :=
  undecryptable_rejected c hc blob (.inl ⟨_, hc.dec_bad_length blob h⟩)

/-- A plaintext shorter than the 59-byte header, or whose size field promises more info bytes than are
present, is rejected with ValueError (the EOFError of the reader never escapes). -/
theorem short_plaintext_rejected (c : Crypto) (blob pt : Bytes) (hd : c.rsaDec blob = .ok (some pt))
    (h : pt.length < 59 ∨ pt.length - 59 < sizeField pt - 51) :
    decryptMetadata c blob = .error .valueError := by
  by_cases hne : pt = []
  · simp [decryptMetadata, hd, hne]
  · have hp : parseMetadata pt = .error .eofError := by
      rcases h with h | h
      · exact parse_short pt h
      · by_cases h0 : 59 ≤ pt.length
        · exact parse_truncated pt h0 h
        · exact parse_short pt (by omega)
    simp [decryptMetadata, hd, hne, hp]

/-- A plaintext that parses but does not start with `00 00 BE EF` is rejected with ValueError. -/
theorem bad_magic_rejected (c : Crypto) (blob pt : Bytes) (hd : c.rsaDec blob = .ok (some pt))
    (hlen : 59 ≤ pt.length) (hm : magicField pt ≠ 0xBEEF) :
    decryptMetadata c blob = .error .valueError := by
  have hne : pt ≠ [] := by intro h; rw [h] at hlen; simp at hlen
  cases hp : parseMetadata pt with
  | error e =>
    have := parse_error_eof pt e hp
    subst this
    simp [decryptMetadata, hd, hne, hp]
  | ok m =>
    have := (parse_ok_facts pt m hp).2.1
    simp [decryptMetadata, hd, hne, hp, magicBeef, this, hm]

/-- `decrypt_metadata` raises nothing but ValueError, for every blob whatsoever. -/
theorem decrypt_only_valueError (c : Crypto) (hc : CryptoLaws c) (blob : Bytes) (e : PyExc)
    (h : decryptMetadata c blob = .error e) : e = .valueError := by
  unfold decryptMetadata at h
  cases hd : c.rsaDec blob with
  | error e' =>
    rw [hd] at h
    injection h with h; subst h
    exact hc.dec_raises_only_valueError blob _ hd
  | ok o =>
    cases o with
    | none => rw [hd] at h; injection h with h; exact h.symm
    | some pt =>
      rw [hd] at h
      simp only at h
      split at h
      · injection h with h; exact h.symm
      · cases hp : parseMetadata pt with
        | error e' =>
          have := parse_error_eof pt e' hp
          subst this
          rw [hp] at h
          injection h with h; exact h.symm
        | ok m =>
          rw [hp] at h
          simp only at h
          split at h
          · injection h with h; exact h.symm
          · cases h

/-- Whatever `decrypt_metadata` returns carries the 0xBEEF magic, a 16-byte `aes_rand` and an info
string of exactly `max(0, size - 51)` bytes. -/
theorem decrypt_ok_shape (c : Crypto) (blob : Bytes) (m : Metadata) (h : decryptMetadata c blob = .ok m) :
    m.magic = 0xBEEF ∧ m.aes_rand.length = 16 ∧ m.info.length = m.size - 51 ∧
    ∃ pt, c.rsaDec blob = .ok (some pt) ∧ parseMetadata pt = .ok m := by
  unfold decryptMetadata at h
  split at h
  · cases h
  · cases h
  · rename_i pt hd
    split at h
    · cases h
    · split at h
      · cases h
      · cases h
      · rename_i m' hp
        split at h
        · cases h
        · rename_i hm
          injection h with h
          subst h
          obtain ⟨h1, _, _, h4, _, h6⟩ := parse_ok_shape pt m' hp
          refine ⟨by simpa [magicBeef] using hm, ?_, h6, pt, hd, hp⟩
          rw [h4, List.length_take, List.length_drop]
          omega

/-! ### session keys -/

/-- The AES key and the HMAC key are the first and the second half of SHA-256 over the random bytes. -/
theorem derive_split (c : Crypto) (hc : CryptoLaws c) (r : Bytes) :
    (deriveKeys c r).1 ++ (deriveKeys c r).2 = c.sha256 r ∧
    (deriveKeys c r).1.length = 16 ∧ (deriveKeys c r).2.length = 16 := by
  have := hc.sha256_length r
  refine ⟨List.take_append_drop 16 _, ?_, ?_⟩
  · simp only [deriveKeys, List.length_take, this]; omega
  · simp only [deriveKeys, List.length_drop, this]

/-- `BeaconKeys.from_aes_rand` / `from_beacon_metadata` use exactly that split and pass the IV through. -/
theorem beaconKeys_spec (c : Crypto) (m : Metadata) (iv : Bytes) :
    BeaconKeys.fromBeaconMetadata c m iv = BeaconKeys.fromAesRand c m.aes_rand iv ∧
    BeaconKeys.fromAesRand c m.aes_rand iv =
      { aes_key := (c.sha256 m.aes_rand).take 16, hmac_key := (c.sha256 m.aes_rand).drop 16, iv := iv } ∧
    (BeaconKeys.fromAesRand c m.aes_rand).iv = defaultAesIv :=
  ⟨rfl, rfl, rfl⟩

/-- End to end: the keys the receiver derives from the decrypted metadata are the sender's. -/
theorem session_keys_survive_transport (c : Crypto) (hc : CryptoLaws c) (m : Metadata) (r : Rand)
    (hw : InWidth m) (haes : m.aes_rand.length = 16) (hmagic : m.magic = 0xBEEF)
    (hfit : 59 + m.info.length ≤ c.modulusBytes - 11) (hsz : 51 + m.info.length < 2 ^ 32) :
    ∃ blob m', encryptMetadata c m r = .ok blob ∧ decryptMetadata c blob = .ok m' ∧
      BeaconKeys.fromBeaconMetadata c m' = BeaconKeys.fromAesRand c m.aes_rand := by
  obtain ⟨blob, h1, _, h3⟩ := metadata_roundtrip c hc m r hw haes hfit hsz
  rw [if_pos hmagic] at h3
  exact ⟨blob, _, h1, h3, rfl⟩

/-! ### no hidden state -/

/-- The answer to a call does not depend on what was called before or after it (in particular not on
an earlier successful decryption of the same blob with another key).  Trivial for the pure model; a
cache or fast path in the implementation that breaks it shows up in the `hist` correspondence stream. -/
theorem history_independent (pre post : List Call) (c : Call) :
    (runHistory (pre ++ c :: post))[pre.length]? = some (answer c) := by
  simp [runHistory]

/-- A blob accepted under the matching key is still rejected, with ValueError, when it is presented
afterwards with a key that does not decrypt it. -/
theorem wrong_key_after_right_key_rejected (keyA keyB : Crypto) (hB : CryptoLaws keyB) (blob : Bytes)
    (m : Metadata) (hA : decryptMetadata keyA blob = .ok m)
    (hfail : (∃ e, keyB.rsaDec blob = .error e) ∨ keyB.rsaDec blob = .ok none ∨ keyB.rsaDec blob = .ok (some [])) :
    runHistory [.decrypt keyA blob, .decrypt keyB blob, .decrypt keyA blob] =
      [.metadata (.ok m), .metadata (.error .valueError), .metadata (.ok m)] := by
  simp [runHistory, answer, hA, undecryptable_rejected keyB hB blob hfail]

/-- Encrypting the same metadata object again recomputes the same size: `sized` is idempotent, and
after the info string is replaced the size follows it. -/
theorem sized_idempotent (m m' : Metadata) (info : Bytes) (hw : InWidth m) (haes : m.aes_rand.length = 16)
    (hsz : 51 + m.info.length < 2 ^ 32) (hsz2 : 51 + info.length < 2 ^ 32) (h : sized m = .ok m') :
    sized m' = .ok m' ∧ sized { m' with info := info } = .ok { m with size := 51 + info.length, info := info } := by
  obtain ⟨rfl, _⟩ := size_consistent m m' hw haes h
  have hw' := inWidth_setSize m (51 + m.info.length) hw hsz
  have hw2 : InWidth { m with size := 51 + m.info.length, info := info } := by
    rw [inWidth_iff] at hw' ⊢; exact hw'
  constructor
  · simp only [sized, dumps_ok _ hw']
    rw [rawDumps_length16 { m with size := 51 + m.info.length } haes]
    have : 59 + m.info.length - 8 = 51 + m.info.length := by omega
    simp only [this]
  · simp only [sized, dumps_ok _ hw2]
    rw [rawDumps_length16 { m with size := 51 + m.info.length, info := info } haes]
    have : 59 + info.length - 8 = 51 + info.length := by omega
    simp only [this]

/-! ### the laws are satisfiable -/

theorem toy_laws (k : Nat) : CryptoLaws (toyCrypto k) where
  dec_enc := by
    intro m r ct h
    simp only [toyCrypto] at h ⊢
    split at h
    · rename_i hk
      injection h with h
      subst h
      rw [if_neg (by rw [toyPad_length k m hk]; simp), toyUnpad_toyPad k m hk]
    · cases h
  enc_ok := by
    intro m r h
    have h' : m.length + 11 ≤ k := h
    exact ⟨toyPad k m, by simp [toyCrypto, h']⟩
  enc_too_long := by
    intro m r h
    have h' : ¬ (m.length + 11 ≤ k) := h
    simp [toyCrypto, h']
  enc_length := by
    intro m r ct h
    simp only [toyCrypto] at h ⊢
    split at h
    · rename_i hk
      injection h with h
      subst h
      exact toyPad_length k m hk
    · cases h
  dec_bad_length := by
    intro ct h
    have h' : ct.length ≠ k := h
    simp [toyCrypto, h']
  dec_raises_only_valueError := by
    intro ct e h
    simp only [toyCrypto] at h
    split at h
    · injection h with h; exact h.symm
    · cases h
  sha256_length := by
    intro x
    simp [toyCrypto]

/-! ### non-vacuity: concrete inputs meeting the hypotheses -/

def sampleMetadata : Metadata :=
  { magic := 0xBEEF, size := 0, aes_rand := [1, 2, 3, 4, 5, 6, 7, 8, 9, 10, 11, 12, 13, 14, 15, 16],
    ansi_cp := 1252, oem_cp := 437, bid := 0x7FFFFFFE, pid := 4242, port := 65535, flag := 255,
    ver_major := 10, ver_minor := 0, ver_build := 19045, ptr_x64 := 0, ptr_gmh := 0xFFFFFFFF,
    ptr_gpa := 1, ip := 0x0A000001, info := [72, 9, 117, 9, 112] }

example : InWidth sampleMetadata ∧ sampleMetadata.aes_rand.length = 16 ∧
    59 + sampleMetadata.info.length ≤ (toyCrypto 128).modulusBytes - 11 := by decide
example : (dumpsMetadata sampleMetadata).map (·.length) = .ok 64 := by decide
example : (encryptMetadata (toyCrypto 128) sampleMetadata []).bind
      (fun blob => liftPy (decryptMetadata (toyCrypto 128) blob)) =
    .ok { sampleMetadata with size := 56 } := by decide +kernel
example : dumpsMetadata { sampleMetadata with port := 65536 } = .error .structError := by decide +kernel
example : encryptMetadata (toyCrypto 70) sampleMetadata [] = .error (.py .valueError) := by decide +kernel
example : decryptMetadata (toyCrypto 128) (List.replicate 128 7) = .error .valueError := by decide +kernel
example : decryptMetadata (toyCrypto 128) [1, 2, 3] = .error .valueError := by decide +kernel
example : parseMetadata (List.replicate 58 0) = .error .eofError := by decide +kernel
example : (parseMetadata (List.replicate 59 0 ++ [1, 2])).map (·.info) = .ok [] := by decide +kernel

end C06

import CsVerif.Lemmas.C19
/-!
C19 — "The beacon client keeps a stable identity and dispatches tasks exactly once".

Modelled, not verified: Mersenne Twister (`aesRand` is an abstract function of the normalised id), sha256,
CPython's UTF-8 codec (`Model.utf8Encode/utf8DecodeIgnore`, validated by the `enc`/`dec` correspondence streams),
float rounding in `get_sleep_time` (the theorem is about exact rational arithmetic), handler bodies (a handler
is `callable?`, `truthy?`, `raises?`, `responds?`; handlers that themselves re-register handlers are outside the model).
-/
namespace C19
open Client

/-! ### identity -/

/-- ∀ requested id (any integer): the id is rejected, or the presented id is even and in `[0, 2^31)`. -/
theorem beacon_id_range (id : Int) :
    normaliseId id = .error .valueError ∨
    ∃ r, normaliseId id = .ok r ∧ r % 2 = 0 ∧ 0 ≤ r ∧ r < 2147483648 := by
  rw [normaliseId_spec]
  split
  · exact Or.inl rfl
  · exact Or.inr ⟨_, rfl, by omega, by omega, by omega⟩

/-- in-range ids are presented with their lowest bit cleared and never rejected -/
theorem beacon_id_value (id : Int) (h0 : 0 ≤ id) (h1 : id < 2147483648) :
    normaliseId id = .ok (id - id % 2) := by
  rw [normaliseId_spec, if_neg (by omega)]
  congr 1
  omega

/-- exactly the ids whose residue modulo 2^32 lies in the upper half are rejected
(e.g. every id in `[-2^31, -1]`, `2^31 … 2^32-1`, `2^32 + 2^31`), … -/
theorem beacon_id_rejected_iff (id : Int) :
    normaliseId id = .error .valueError ↔ 2147483648 ≤ id % 4294967296 := by
  rw [normaliseId_spec]
  split <;> simp [*]

/-- … every other id (including `2^32 + k` and `-2^32 + k` for small `k ≥ 0`) is silently reduced modulo 2^32 -/
theorem beacon_id_accepted (id : Int) (h : id % 4294967296 < 2147483648) :
    normaliseId id = .ok (id % 4294967296 - id % 2) := by
  rw [normaliseId_spec, if_neg (by omega)]

/-- the presented id is a fixed point: asking for it again yields it again -/
theorem beacon_id_stable (id r : Int) (h : normaliseId id = .ok r) : normaliseId r = .ok r := by
  rw [normaliseId_spec] at h
  split at h
  · cases h
  · injection h with h
    rw [normaliseId_spec, if_neg (by omega)]
    congr 1
    omega

/-- without a requested id (`beacon_id=None`) the draw `getrandbits(32) & 0x7FFFFFFF` is never rejected -/
theorem default_id_accepted (rand32 : Int) :
    defaultId rand32 = .ok (rand32 % 2147483648 - rand32 % 2) ∧
    (rand32 % 2147483648 - rand32 % 2) % 2 = 0 ∧ 0 ≤ rand32 % 2147483648 - rand32 % 2 ∧
    rand32 % 2147483648 - rand32 % 2 < 2147483648 := by
  unfold defaultId
  rw [pyAndMask31_eq_mod, normaliseId_spec, if_neg (by omega)]
  refine ⟨?_, by omega, by omega, by omega⟩
  congr 1
  omega

/-- two runs that present the same beacon id use the same `aes_rand`, AES key and HMAC key — whatever the
requested ids and names were -/
theorem keys_function_of_id (p : Prims) (id₁ id₂ : Int) (c₁ u₁ q₁ c₂ u₂ q₂ : Txt) (a b : Identity)
    (h₁ : run p id₁ c₁ u₁ q₁ = .ok a) (h₂ : run p id₂ c₂ u₂ q₂ = .ok b) (h : a.beaconId = b.beaconId) :
    a.keys = b.keys := by
  unfold run at h₁ h₂
  split at h₁
  · cases h₁
  · split at h₁
    · cases h₁
    · split at h₂
      · cases h₂
      · split at h₂
        · cases h₂
        · injection h₁ with h₁; injection h₂ with h₂
          subst h₁ h₂
          simp only at h
          simp only [h]

/-- the same requested id gives the same presented id and keys, independent of the names -/
theorem keys_same_request (p : Prims) (id : Int) (c₁ u₁ q₁ c₂ u₂ q₂ : Txt) (a b : Identity)
    (h₁ : run p id c₁ u₁ q₁ = .ok a) (h₂ : run p id c₂ u₂ q₂ = .ok b) :
    a.beaconId = b.beaconId ∧ a.keys = b.keys := by
  have hid : a.beaconId = b.beaconId := by
    unfold run at h₁ h₂
    cases hn : normaliseId id with
    | error e => simp [hn] at h₁
    | ok r =>
      simp only [hn] at h₁ h₂
      split at h₁
      · cases h₁
      · split at h₂
        · cases h₂
        · injection h₁ with h₁; injection h₂ with h₂; subst h₁ h₂; rfl
  exact ⟨hid, keys_function_of_id p id id c₁ u₁ q₁ c₂ u₂ q₂ a b h₁ h₂ hid⟩

/-- the id a successful run presents is even and in `[0, 2^31)`, and the keys are those derived from it;
both keys are 16 bytes when sha256 yields 32 -/
theorem run_identity (p : Prims) (id : Int) (c u q : Txt) (a : Identity) (h : run p id c u q = .ok a) :
    normaliseId id = .ok a.beaconId ∧ a.beaconId % 2 = 0 ∧ 0 ≤ a.beaconId ∧ a.beaconId < 2147483648 ∧
    a.keys = deriveKeys p a.beaconId ∧
    ((∀ x, (p.sha256 x).length = 32) → a.keys.aesKey.length = 16 ∧ a.keys.hmacKey.length = 16) := by
  unfold run at h
  cases hn : normaliseId id with
  | error e => simp [hn] at h
  | ok r =>
    simp only [hn] at h
    split at h
    · cases h
    · injection h with h; subst h
      rcases beacon_id_range id with he | ⟨r', hr', h1, h2, h3⟩
      · rw [hn] at he; cases he
      · rw [hn] at hr'; injection hr' with hr'; subst hr'
        refine ⟨rfl, h1, h2, h3, rfl, fun hl => ?_⟩
        simp [deriveKeys, hl]

/-! ### sleep -/

/-- `t = num/den = sleeptime − u·(sleeptime·jitter/100)` in exact arithmetic (float rounding is not modelled).
For `sleeptime ≥ 0`, `jitter ≥ 0` and a uniform draw `u = un/ud ∈ [0,1]`:
`sleeptime·(1 − jitter/100) ≤ t ≤ sleeptime` (both sides multiplied by the positive denominators), and for
`jitter ≤ 100` the lower end of the band — hence `t` — is non-negative (`time.sleep` rejects negative values). -/
theorem sleep_in_band (s j : Int) (u : Frac) (hs : 0 ≤ s) (hj0 : 0 ≤ j) (hu0 : 0 ≤ u.num) (hu1 : u.num ≤ u.den) :
    s * (100 - j) * u.den ≤ (getSleepTime s j u).num ∧
    (getSleepTime s j u).num ≤ s * (getSleepTime s j u).den ∧
    (getSleepTime s j u).den = 100 * u.den ∧
    (j ≤ 100 → 0 ≤ (getSleepTime s j u).num) := by
  obtain ⟨h1, h2⟩ := sleep_band_scaled s j u hs hj0 hu0 hu1
  refine ⟨h1, h2, rfl, fun hj1 => ?_⟩
  have : 0 ≤ s * (100 - j) * (u.den : Int) :=
    Int.mul_nonneg (Int.mul_nonneg hs (by omega)) (Int.natCast_nonneg _)
  omega

/-- jitter 0 or the draw `u = 0`: exactly `sleeptime` -/
theorem sleep_no_jitter (s : Int) (u : Frac) : (getSleepTime s 0 u).num = s * (getSleepTime s 0 u).den := by
  simp only [getSleepTime, Int.mul_zero, Int.sub_zero, Int.natCast_mul]
  simp only [Int.mul_comm]; rfl

/-! ### metadata -/

/-- `metadata.info` never exceeds 51 bytes, for all names (any code points, any length) -/
theorem info_fits (computer user process : Txt) (info : Bytes) (h : mkInfo computer user process = .ok info) :
    info.length ≤ 51 := by
  simp only [mkInfo] at h
  cases henc : utf8Encode (computer ++ [9] ++ user ++ [9] ++ process) with
  | error x => rw [henc] at h; cases h
  | ok enc =>
    obtain ⟨e, he, hsub⟩ := encode_decodeIgnore (enc.take 51)
    rw [henc] at h
    simp only [he] at h
    injection h with h; subst h
    have := hsub.length_le
    simp only [List.length_take] at this
    omega

/-- `metadata.info` is a subsequence of the bytes of the encoded `computer\tuser\tprocess` prefix: truncation only
removes bytes, it never invents any -/
theorem info_subsequence (computer user process : Txt) (info enc : Bytes)
    (he : utf8Encode (computer ++ [9] ++ user ++ [9] ++ process) = .ok enc)
    (h : mkInfo computer user process = .ok info) : List.Sublist info (enc.take 51) := by
  unfold mkInfo at h
  simp only [he] at h
  obtain ⟨e, he', hsub⟩ := encode_decodeIgnore (enc.take 51)
  rw [he'] at h
  injection h with h; subst h
  exact hsub

/-- exact characterisation: `metadata.info` is the encoding of the longest prefix of whole characters of
`computer\tuser\tprocess` whose encoding fits in 51 bytes (`fitPrefix`, see `info_prefix_longest`); it is a prefix of
the full encoding -/
theorem info_exact (computer user process : Txt) (enc : Bytes)
    (he : utf8Encode (computer ++ [9] ++ user ++ [9] ++ process) = .ok enc) :
    mkInfo computer user process = utf8Encode (fitPrefix (computer ++ [9] ++ user ++ [9] ++ process) 51) ∧
    ∃ info, mkInfo computer user process = .ok info ∧ info <+: enc := by
  have h1 : mkInfo computer user process =
      utf8Encode (fitPrefix (computer ++ [9] ++ user ++ [9] ++ process) 51) := by
    simp only [mkInfo, he]
    rw [decode_take_encode _ enc 51 he]
  obtain ⟨e, h2, h3, _⟩ := encode_fitPrefix _ enc 51 he
  exact ⟨h1, e, h1.trans h2, h3⟩

/-- `fitPrefix s n` is a prefix of `s`, needs at most `n` bytes, and the next character (if any) does not fit -/
theorem info_prefix_longest (s : Txt) (n : Nat) :
    fitPrefix s n <+: s ∧ byteLen (fitPrefix s n) ≤ n ∧
    (∀ c rest, s = fitPrefix s n ++ c :: rest → n < byteLen (fitPrefix s n) + cpLen c) :=
  fitPrefix_spec s n

/-- the only way `mkInfo` fails is that the names cannot be encoded (lone surrogates) -/
theorem info_total (computer user process : Txt) (enc : Bytes)
    (he : utf8Encode (computer ++ [9] ++ user ++ [9] ++ process) = .ok enc) :
    ∃ info, mkInfo computer user process = .ok info := by
  obtain ⟨e, he', _⟩ := encode_decodeIgnore (enc.take 51)
  exact ⟨e, by simp only [mkInfo, he, he']⟩

/-- the serialised metadata (fixed part generated from the structure definition + info) fits PKCS#1 v1.5 with a
1024-bit or 2048-bit server key: `len ≤ k − 11` -/
theorem metadata_fits (computer user process : Txt) (info : Bytes) (h : mkInfo computer user process = .ok info)
    (k : Nat) (hk : k = 128 ∨ k = 256) : metadataLen info ≤ k - 11 := by
  have := info_fits computer user process info h
  have hf : Gen.Commands.metadataFixedLen = 59 := by decide
  unfold metadataLen
  rcases hk with rfl | rfl <;> omega

/-- before 3b4d3d6 (`info[:51]` on characters) the statement of `info_fits`/`metadata_fits` was false -/
theorem info_fits_refutes_old :
    ¬ ∀ (computer user process : Txt) (info : Bytes), Old.mkInfo computer user process = .ok info → info.length ≤ 51 := by
  intro h
  have := h (List.replicate 30 0x20AC) [] [] _ rfl
  revert this
  decide

/-! ### dispatch -/

/-- after any registration script the dict holds, for every key, exactly the handlers registered for it, in
registration order and with repetitions; attributes resolve instance-first -/
theorem task_map_content (regs : List Reg) :
    (∀ k, (build regs).stored k = registeredFor regs k) ∧ (∀ n, (build regs).getattr n = attrOf regs n) :=
  ⟨(build_spec regs).2.1, (build_spec regs).2.2⟩

/-- The central statement, for an arbitrary implementation `loop` of the beacon loop:
for every registration script (decorator / register_task / catch-all / on_* attributes, any order, repetitions) and
EVERY sequence of `get_task()` results (no task, commands known to `BeaconCommand`, and unknown command ids alike),
the loop runs to the end of the script without an escaping exception, the events are the concatenation over the
tasks of `specStep` — which depends on the task and the registrations only, not on the position in the sequence —
and the dict `task_map` (keys and list contents) is the same afterwards. -/
def DispatchExact (loop : Bool → Client → List (Option Int) → Client × List Event × Option PyExc) : Prop :=
  ∀ (regs : List Reg) (silent : Bool) (tasks : List (Option Int)),
    ∃ c', loop silent (build regs) tasks = (c', tasks.flatMap (specStep regs silent), none) ∧
      c'.view = (build regs).view

theorem dispatch_exact : DispatchExact runLoop := by
  intro regs silent tasks
  obtain ⟨hw, _, _⟩ := build_spec regs
  obtain ⟨c', h1, h2⟩ := runLoop_spec silent tasks (build regs) hw
  refine ⟨c', ?_, h2.view hw⟩
  rw [h1, show specStepC (build regs) silent = specStep regs silent from funext (specStepC_build regs silent)]

/-- the behaviour before 7330121 (appending `on_<name>` to the stored list) falsifies the same statement:
one decorator handler for COMMAND_DIE, an `on_die` method, two COMMAND_DIE tasks -/
theorem dispatch_exact_refutes_old : ¬ DispatchExact Old.runLoop := by
  intro h
  let h1 : Handler := ⟨1, true, true, false, false⟩
  let h2 : Handler := ⟨2, true, true, false, false⟩
  let regs : List Reg := [.handle (.int 3) h1, .classAttr [111, 110, 95, 100, 105, 101] h2]
  obtain ⟨c', e, _⟩ := h regs false [some 3, some 3]
  have : (Old.runLoop false (build regs) [some 3, some 3]).2.1 = [some 3, some 3].flatMap (specStep regs false) := by
    rw [e]
  revert this
  decide

/-- the dict is also what the old behaviour changed: same witness, `task_map` differs after the loop -/
theorem task_map_unchanged_refutes_old :
    ¬ ∀ (regs : List Reg) (tasks : List (Option Int)),
      (Old.runLoop false (build regs) tasks).1.view = (build regs).view := by
  intro h
  have := h [.handle (.int 3) ⟨1, true, true, false, false⟩,
             .classAttr [111, 110, 95, 100, 105, 101] ⟨2, true, true, false, false⟩] [some 3]
  revert this
  decide

/-- the behaviour before c54c447 (`BeaconCommand(command_id)` unguarded: a command id that is not a member raised
ValueError out of the loop) falsifies the statement: one catch-all handler, one task with command id 9999 -/
theorem dispatch_exact_refutes_old_lookup : ¬ DispatchExact OldLookup.runLoop := by
  intro h
  obtain ⟨c', e, _⟩ := h [.catchAll ⟨1, true, true, false, false⟩] false [some 9999]
  have : (OldLookup.runLoop false (build [.catchAll ⟨1, true, true, false, false⟩]) [some 9999]).2.2 = none := by
    rw [e]
  revert this
  decide

/-- a task whose command id is not a `BeaconCommand` value is dispatched like any other: to the handlers registered
for that id (plus a truthy attribute `on_unknown_<id>`, should a subclass define one), else to the catch-all
handlers -/
theorem dispatch_unknown_command (regs : List Reg) (silent : Bool) (id : Int) (hu : commandName id = none) :
    methodName (some id) = txtOn_ ++ txtUnknown_ ++ intDecimal id ∧
    specStep regs silent (some id) =
      invoke (let own := registeredFor regs (some id) ++ truthyAttr (attrOf regs (txtOn_ ++ txtUnknown_ ++ intDecimal id))
              if own.isEmpty then registeredFor regs (some (-1)) ++ truthyAttr (attrOf regs txtOnCatchAll) else own)
        ++ [.sleep] := by
  have hm : methodName (some id) = txtOn_ ++ txtUnknown_ ++ intDecimal id := by
    simp only [methodName, hu]
  refine ⟨hm, ?_⟩
  simp only [specStep, specHandlers, hm, reduceCtorEq, false_and, ↓reduceIte]

/-- own handlers first: when something is registered for the command (decorator/register_task entries, then the
truthy `on_<name>` attribute) exactly these are the handlers, the catch-all ones are not consulted -/
theorem dispatch_own_handlers (regs : List Reg) (k : Key)
    (h : registeredFor regs k ++ truthyAttr (attrOf regs (methodName k)) ≠ []) :
    specHandlers regs k = registeredFor regs k ++ truthyAttr (attrOf regs (methodName k)) := by
  unfold specHandlers
  simp only [List.isEmpty_iff, h, ↓reduceIte]

/-- catch-all iff none: with nothing registered for the command, exactly the catch-all handlers (key −1, then a
truthy `on_catch_all`) are used -/
theorem dispatch_catch_all (regs : List Reg) (k : Key)
    (h : registeredFor regs k ++ truthyAttr (attrOf regs (methodName k)) = []) :
    specHandlers regs k = registeredFor regs (some (-1)) ++ truthyAttr (attrOf regs txtOnCatchAll) := by
  unfold specHandlers
  simp only [h, List.isEmpty_nil, ↓reduceIte]

/-- each handler exactly once per occurrence, in list order: the calls made for a handler list are the ids of its
callable members, in order; a raising handler does not stop the later ones -/
theorem dispatch_calls_in_order (hs : List Handler) :
    callIds (invoke hs) = (hs.filter (·.callable)).map (·.id) := callIds_invoke hs

theorem dispatch_call_count (hs : List Handler) (i : Nat) :
    (callIds (invoke hs)).count i = (hs.filter fun h => h.callable && h.id == i).length := by
  rw [callIds_invoke]
  induction hs with
  | nil => rfl
  | cons h hs ih =>
    by_cases hc : h.callable
    · by_cases hi : h.id = i
      · simp [hc, hi, ih]
      · have : (h.id == i) = false := by simpa using hi
        simp [hc, this, hi, ih]
    · simp [hc, ih]

/-- `send_callback` happens exactly for the callable handlers that return a response without raising -/
theorem dispatch_sends (hs : List Handler) :
    (invoke hs).filterMap (fun e => match e with | .send i => some i | _ => none) =
      (hs.filter fun h => h.callable && !h.raises && h.responds).map (·.id) := by
  induction hs with
  | nil => rfl
  | cons h hs ih =>
    simp only [invoke, List.flatMap_cons, List.filterMap_append] at ih ⊢
    rw [ih]
    rcases h with ⟨i, c, t, r, s⟩
    cases c <;> cases r <;> cases s <;> simp [invokeOne]

/-! ### histories on one client object: nothing is cached -/

/-- observation steps (get_sleep_time, get_handlers, a loop iteration, a registration, reading the identity) and a
raising `run` leave `sleeptime`, `jitter` and the presented identity as they are -/
theorem observation_steps_keep_settings (p : Prims) (st : Session) (h : HStep)
    (hobs : (∀ s, h ≠ .setSleep s) ∧ (∀ j, h ≠ .setJitter j) ∧
      (∀ id s j c u q, h = .run id s j c u q → ∃ e, run p id c u q = .error e)) :
    (applyStep p st h).1.sleeptime = st.sleeptime ∧ (applyStep p st h).1.jitter = st.jitter ∧
    (applyStep p st h).1.ident = st.ident := by
  obtain ⟨h1, h2, h3⟩ := hobs
  cases h with
  | setSleep s => exact absurd rfl (h1 s)
  | setJitter j => exact absurd rfl (h2 j)
  | run id s j c u q =>
    obtain ⟨e, he⟩ := h3 id s j c u q rfl
    simp only [applyStep, he, and_self]
  | sleep u => simp only [applyStep]; split <;> exact ⟨rfl, rfl, rfl⟩
  | getHandlers k => exact ⟨rfl, rfl, rfl⟩
  | task silent t => simp only [applyStep]; split <;> exact ⟨rfl, rfl, rfl⟩
  | reg r => simp only [applyStep]; split <;> exact ⟨rfl, rfl, rfl⟩
  | «show» => simp only [applyStep]; split <;> exact ⟨rfl, rfl, rfl⟩

/-- `get_sleep_time()` depends on the history only through the CURRENT `sleeptime`/`jitter` attributes: after any
history that ends in the settings `(s, j)` the result is the stateless `getSleepTime s j u`, and for `s ≥ 0`,
`j ≥ 0`, `u ∈ [0,1]` it lies in the band of those settings (a memoised jitter window would falsify this) -/
theorem sleep_history_independent (p : Prims) (st₀ : Session) (pre : List HStep) (s j : Int) (u : Frac)
    (hs : (sessionAfter p st₀ pre).sleeptime = some s) (hj : (sessionAfter p st₀ pre).jitter = some j) :
    (applyStep p (sessionAfter p st₀ pre) (.sleep u)).2 = .frac (getSleepTime s j u) ∧
    (0 ≤ s → 0 ≤ j → 0 ≤ u.num → u.num ≤ u.den →
      s * (100 - j) * u.den ≤ (getSleepTime s j u).num ∧
      (getSleepTime s j u).num ≤ s * (getSleepTime s j u).den) := by
  refine ⟨?_, fun h0 h1 h2 h3 => sleep_band_scaled s j u h0 h1 h2 h3⟩
  simp only [applyStep, Session.sleepTime, hs, hj]

/-- whatever happened before: assigning the attributes (or a successful second `run`) makes the next
`get_sleep_time()` the one of the new settings -/
theorem sleep_after_update (p : Prims) (st₀ : Session) (pre : List HStep) (s j : Int) (u : Frac) :
    (applyStep p (sessionAfter p st₀ (pre ++ [.setSleep s, .setJitter j])) (.sleep u)).2
      = .frac (getSleepTime s j u) ∧
    (∀ id c n q a, run p id c n q = .ok a →
      (applyStep p (sessionAfter p st₀ (pre ++ [.run id s j c n q])) (.sleep u)).2 = .frac (getSleepTime s j u)) := by
  constructor
  · exact (sleep_history_independent p st₀ _ s j u
      (by simp only [sessionAfter_append, sessionAfter_cons, sessionAfter_nil, applyStep])
      (by simp only [sessionAfter_append, sessionAfter_cons, sessionAfter_nil, applyStep])).1
  · intro id c n q a ha
    exact (sleep_history_independent p st₀ _ s j u
      (by simp only [sessionAfter_append, sessionAfter_cons, sessionAfter_nil, applyStep, ha])
      (by simp only [sessionAfter_append, sessionAfter_cons, sessionAfter_nil, applyStep, ha])).1

/-- identity is history independent: after any history, a successful `run` presents exactly the identity a fresh
client would (id, aes_rand, keys, info of the NEW arguments); a raising `run` keeps the previous one -/
theorem identity_history_independent (p : Prims) (st₀ : Session) (pre : List HStep) (id s j : Int) (c n q : Txt) :
    (∀ a, run p id c n q = .ok a →
      (applyStep p (sessionAfter p st₀ (pre ++ [.run id s j c n q])) .show).2 = .ident a) ∧
    (∀ e, run p id c n q = .error e →
      (sessionAfter p st₀ (pre ++ [.run id s j c n q])).ident = (sessionAfter p st₀ pre).ident) := by
  constructor
  · intro a ha
    simp only [sessionAfter_append, sessionAfter_cons, sessionAfter_nil, applyStep, ha]
  · intro e he
    simp only [sessionAfter_append, sessionAfter_cons, sessionAfter_nil, applyStep, he]

/-- dispatch is history independent: after ANY history on a fresh client (registrations interleaved with earlier
dispatches, get_handlers calls, runs, sleeps) `get_handlers(k)` returns, and a loop iteration invokes, exactly what
the registrations made so far prescribe — no handler list or name lookup survives from an earlier call -/
theorem dispatch_history_independent (p : Prims) (pre : List HStep) :
    (∀ k, (applyStep p (sessionAfter p {} pre) (.getHandlers k)).2 = .handlers (specHandlers (regsOf pre) k)) ∧
    (∀ silent t, ((sessionAfter p {} pre).sleepTime ⟨0, 1⟩).isOk = true →
      (applyStep p (sessionAfter p {} pre) (.task silent t)).2 = .events (specStep (regsOf pre) silent t) none) ∧
    (∀ h, (sessionAfter p {} (pre ++ [h])).client.view =
      (sessionAfter p {} pre).client.view ∨ ∃ r, h = .reg r) := by
  obtain ⟨hw, _, _⟩ := session_registry p pre
  refine ⟨fun k => ?_, fun silent t hok => ?_, fun h => ?_⟩
  · simp only [applyStep]
    rw [(getHandlers_spec _ hw k).2, specListC_session]
  · obtain ⟨h1, _⟩ := loopStep_spec (sessionAfter p {} pre).client hw silent t
    simp only [applyStep]
    cases hst : (sessionAfter p {} pre).sleepTime ⟨0, 1⟩ with
    | error e => simp [hst, Except.isOk, Except.toBool] at hok
    | ok f =>
      simp only [h1]
      unfold specStepC specStep
      simp only [specListC_session]
  · simp only [sessionAfter_append, sessionAfter_cons, sessionAfter_nil]
    cases h with
    | reg r => exact Or.inr ⟨r, rfl⟩
    | setSleep s => exact Or.inl rfl
    | setJitter j => exact Or.inl rfl
    | run id s j c u q => left; simp only [applyStep]; split <;> rfl
    | sleep u => left; simp only [applyStep]; split <;> rfl
    | «show» => left; simp only [applyStep]; split <;> rfl
    | getHandlers k => exact Or.inl ((getHandlers_spec _ hw k).1.view hw)
    | task silent t =>
      left
      have := (loopStep_spec (sessionAfter p {} pre).client hw silent t).2.view hw
      simp only [applyStep]
      split <;> exact this

/-! ### the generated command table -/

/-- obligations on the table regenerated from `BeaconCommand`: it is a function (no duplicate values), no member
is 0 (so `if task` never takes the `"empty_task"` branch for a real command) or −1 (the catch-all key), every name
carries the `COMMAND_` prefix, distinct commands have distinct `on_<name>` attributes, none of which is
`on_catch_all` or `on_empty_task`, and none starts with `on_unknown_` (the names used for ids outside the table) -/
theorem command_table_wellformed :
    (Gen.Commands.commandNames.map (·.1)).Nodup ∧
    (∀ p ∈ Gen.Commands.commandNames, p.1 ≠ 0 ∧ p.1 ≠ -1 ∧ txtCOMMAND_.isPrefixOf p.2 = true) ∧
    ((Gen.Commands.commandNames.map fun p => methodName (some p.1)).Nodup) ∧
    (∀ p ∈ Gen.Commands.commandNames,
      methodName (some p.1) ≠ txtOnCatchAll ∧ methodName (some p.1) ≠ methodName none ∧
      (txtOn_ ++ txtUnknown_).isPrefixOf (methodName (some p.1)) = false) := by
  decide +kernel

/-- ids outside the table never share an attribute name with `on_catch_all` / `on_empty_task` -/
theorem unknown_names_distinct (id : Int) (hu : commandName id = none) :
    methodName (some id) ≠ txtOnCatchAll ∧ methodName (some id) ≠ methodName none := by
  have hm : methodName (some id) = txtOn_ ++ txtUnknown_ ++ intDecimal id := by
    simp only [methodName, hu]
  rw [hm]
  constructor <;> (intro h; revert h; simp [txtOn_, txtUnknown_, txtOnCatchAll, txtEmptyTask, methodName])

/-! ### the hypotheses are satisfiable / the statements are not vacuous -/

example : normaliseId 2147483647 = .ok 2147483646 := by decide
example : normaliseId (-1) = .error .valueError := by decide
example : normaliseId (4294967296 + 5) = .ok 4 := by decide
example : normaliseId (-4294967296) = .ok 0 := by decide
example : defaultId 4294967295 = .ok 2147483646 := by decide
example : mkInfo (List.replicate 30 0x20AC) [0x75] [0x70] = .ok ((List.replicate 17 [0xE2, 0x82, 0xAC]).flatten) := by
  decide
example : mkInfo [0xD800] [] [] = .error .valueError := by decide
example : getSleepTime 60000 25 ⟨1, 2⟩ = ⟨10500000, 200⟩ := by decide
example : specStep [.handle (.int 3) ⟨1, true, true, false, true⟩, .catchAll ⟨9, true, true, false, false⟩] false (some 3)
    = [.call 1, .send 1, .sleep] := by decide
example : specStep [.handle (.int 3) ⟨1, true, true, false, true⟩, .catchAll ⟨9, true, true, false, false⟩] false (some 4)
    = [.call 9, .sleep] := by decide
example : commandName 9999 = none := by decide
example : specStep [.handle (.int 3) ⟨1, true, true, false, true⟩, .catchAll ⟨9, true, true, false, false⟩] false (some 9999)
    = [.call 9, .sleep] := by decide
example : specStep [.register (some 9999) ⟨1, true, true, false, false⟩,
      .classAttr (txtOn_ ++ txtUnknown_ ++ intDecimal 9999) ⟨2, true, true, false, false⟩,
      .catchAll ⟨9, true, true, false, false⟩] false (some 9999)
    = [.call 1, .call 2, .sleep] := by decide

end C19

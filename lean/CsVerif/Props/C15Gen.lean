import CsVerif.Gen.PyScan
import CsVerif.Props.C15
import CsVerif.Lemmas.C15Gen
/-!
C15 — the tie between the source text and the model, by (untyped) translation.

`Gen/PyScan.lean` is produced on every run by `tools/py2leanu.py` from the *source* of `utils.iter_find_needle` and
`artifact.iter_artifactkit_payloads`.  Both are GENERATOR functions over a FILE OBJECT of the caller: the translated definition
returns the tuple `(list of the yielded values, the file object afterwards)` — what `list(f(…))` returns and what the caller
then observes with `tell()`.  A file object is the value `PyU.mkFile data pos kind` (Model/PyU_T15.lean: `read` / `seek` /
`tell` with `PyFile`'s raising behaviour; `C15Gen.encFile` encodes a `PyFile`), `io.DEFAULT_BUFFER_SIZE` is the value parameter
`bufsize`, each `while True:` is a loop-body definition run by `PyU.whileFuel` (the inner `find` loop of `iter_find_needle`
inside the body of the block loop), `yield e` appends to the hidden list of yields.

`gen_iter_find_needle` / `gen_iter_artifactkit_payloads` state that the translated definitions compute, for EVERY file object
(content, position, kind), every needle (also the empty one), every buffer size (also 0), every start offset (also negative:
the `ValueError` / `OSError` of `seek`) and every limit, and for every fuel from an explicit bound in the file length on, exactly
the encoding of what the hand-written models `C15.iterFindNeedle` / `C15.iterArtifactkit` compute.  So the theorems of
`Props/C15.lean` are theorems about the function texts as they stand now (the corollaries below restate the central ones for
the translated definitions), and an edit that changes the meaning of either function breaks a proof here.
Helper lemmas: `Lemmas/C15Gen.lean`.
-/
namespace C15Gen
open PyU

/-! ### `iter_find_needle` -/

/-- the definition translated from the source of `iter_find_needle`, run with `io.DEFAULT_BUFFER_SIZE = B` on the encoding of
a file object, equals the encoding of the hand-written model — for every file, needle, start offset (`None` or any int), limit
and buffer size, and every fuel of at least `len(file) + 3` -/
theorem gen_iter_find_needle (B : Nat) (f : PyFile) (needle : Bytes) (start : Option Int) (maxOff : Nat) (fuel : Nat)
    (hf : f.data.length + 3 ≤ fuel) :
    Gen.PyScan.iter_find_needle (.int (B : Int)) fuel (encFile f) (.bytes needle) (encOptInt start) (.int (maxOff : Int))
      = (C15.iterFindNeedle B f needle start maxOff).map encNeedle :=
  gen_iter_find_needle_proof B f needle start maxOff fuel hf

/-- the source defaults: `iter_find_needle(fp, needle)` is `start_offset=None, max_offset=0` -/
theorem gen_iter_find_needle_defaults (B : Nat) (f : PyFile) (needle : Bytes) (fuel : Nat) (hf : f.data.length + 3 ≤ fuel) :
    Gen.PyScan.iter_find_needle_default2 (.int (B : Int)) fuel (encFile f) (.bytes needle)
      = (C15.iterFindNeedle B f needle none 0).map encNeedle :=
  gen_iter_find_needle B f needle none 0 fuel hf

/-- a NEGATIVE `max_offset` (outside the model's `Nat`): the scan ends before the first block is read — nothing is reported,
the file is where `seek(start_offset)` left it (for any buffer-size value and any fuel ≥ 1) -/
theorem gen_iter_find_needle_neg_limit (bufsize : V) (f : PyFile) (needle : Bytes) (start : Option Int) (m : Int) (hm : m < 0)
    (fuel : Nat) (hf : 1 ≤ fuel) :
    Gen.PyScan.iter_find_needle bufsize fuel (encFile f) (.bytes needle) (encOptInt start) (.int m)
      = (match start with
         | none => (.ok f : Py PyFile)
         | some s => (f.seekSet s).map (fun (r : Nat × PyFile) => r.2)).map (fun f' => V.tuple [.list [], encFile f']) := by
  obtain ⟨fu, rfl⟩ : ∃ fu, fuel = fu + 1 := ⟨fuel - 1, by omega⟩
  have hm0 : (m != 0) = true := by simp only [bne_iff_ne, ne_eq]; omega
  have key : ∀ g : PyFile, whileFuel (fu + 1) (Gen.PyScan.iter_find_needle_loop1 bufsize (fu + 1) (.bytes needle) (.int m)
      (.int ((needle.length : Int) - 1))) (encFile g, .list [], .bytes []) = .ok (encFile g, .list [], .bytes []) := by
    intro g
    have hlt : m < (g.pos : Int) := by omega
    simp [whileFuel, Gen.PyScan.iter_find_needle_loop1, fileTell_enc, truthy, hm0, gt_int, hlt, pure_ok]
  unfold Gen.PyScan.iter_find_needle
  cases start with
  | none =>
    simp only [encOptInt, isNone, len_bytes, sub_int, PyRt.ok_bind, Bool.not_true, Bool.false_eq_true, if_false, key, pure_ok, Except.map]
  | some s =>
    simp only [encOptInt, isNone, len_bytes, sub_int, PyRt.ok_bind, Bool.not_false, if_true, fileSeek_set]
    cases hsk : f.seekSet s with
    | error e => rfl
    | ok r => simp only [Except.map, PyRt.ok_bind, key, pure_ok]

/-- **`needle_exact` for the translated definition**: without a limit the source text reports exactly the occurrences at or
after the start, ascending, and leaves the file at `max(start, EOF)` -/
theorem gen_needle_exact (B : Nat) (hB : 1 ≤ B) (f : PyFile) (needle : Bytes) (hn : needle ≠ [])
    (start : Option Int) (hs : ∀ s, start = some s → 0 ≤ s) (fuel : Nat) (hf : f.data.length + 3 ≤ fuel) :
    Gen.PyScan.iter_find_needle (.int (B : Int)) fuel (encFile f) (.bytes needle) (encOptInt start) (.int 0)
      = .ok (encNeedle (((C15.occ f.data needle).filter (fun i => C15.startPos f start ≤ i)).map Int.ofNat,
                        { f with pos := max (C15.startPos f start) f.data.length })) := by
  have := gen_iter_find_needle B f needle start 0 fuel hf
  rw [C15.needle_exact B hB f needle hn start hs] at this
  exact this

/-- **`needle_limit_exact` for the translated definition**: under a limit `max_offset > 0` the source text reports exactly the
occurrences kept by `limitKeeps` (block start ≤ limit and buffer index ≤ limit) and leaves the file at `limitEnd` -/
theorem gen_needle_limit_exact (B : Nat) (hB : 1 ≤ B) (f : PyFile) (needle : Bytes) (hn : needle ≠ [])
    (start : Option Int) (hs : ∀ s, start = some s → 0 ≤ s) (maxOff : Nat) (hm : 0 < maxOff) (fuel : Nat)
    (hf : f.data.length + 3 ≤ fuel) :
    Gen.PyScan.iter_find_needle (.int (B : Int)) fuel (encFile f) (.bytes needle) (encOptInt start) (.int (maxOff : Int))
      = .ok (encNeedle ((((C15.occ f.data needle).filter (fun o => C15.startPos f start ≤ o)).filter
                (C15.limitKeeps B needle.length (C15.startPos f start) maxOff)).map Int.ofNat,
             { f with pos := C15.limitEnd B maxOff f.data.length (C15.startPos f start) })) := by
  have := gen_iter_find_needle B f needle start maxOff fuel hf
  rw [C15.needle_limit_exact B hB f needle hn start hs maxOff hm] at this
  exact this

/-- a negative `start_offset` raises what `seek` raises (`ValueError` on BytesIO, `OSError` on an OS file) -/
theorem gen_needle_negative_start (B : Nat) (f : PyFile) (needle : Bytes) (s : Int) (hs : s < 0) (maxOff : Nat) (fuel : Nat)
    (hf : f.data.length + 3 ≤ fuel) :
    Gen.PyScan.iter_find_needle (.int (B : Int)) fuel (encFile f) (.bytes needle) (.int s) (.int (maxOff : Int))
      = .error f.negSeekExc := by
  have := gen_iter_find_needle B f needle (some s) maxOff fuel hf
  rw [C15.needle_negative_start B f needle s hs] at this
  exact this

/-- the answer of the translated definition does not depend on the fuel (from the bound on) -/
theorem gen_needle_fuel_independent (B : Nat) (f : PyFile) (needle : Bytes) (start : Option Int) (maxOff : Nat) (fuel fuel' : Nat)
    (hf : f.data.length + 3 ≤ fuel) (hf' : f.data.length + 3 ≤ fuel') :
    Gen.PyScan.iter_find_needle (.int (B : Int)) fuel (encFile f) (.bytes needle) (encOptInt start) (.int (maxOff : Int))
      = Gen.PyScan.iter_find_needle (.int (B : Int)) fuel' (encFile f) (.bytes needle) (encOptInt start) (.int (maxOff : Int)) := by
  rw [gen_iter_find_needle B f needle start maxOff fuel hf, gen_iter_find_needle B f needle start maxOff fuel' hf']

/-! ### `iter_artifactkit_payloads` -/

/-- the definition translated from the source of `iter_artifactkit_payloads` equals the encoding of the hand-written model — for
every file, start offset (`None` or any int) and `maxrange` (`None` or non-negative), and every fuel of at least `len(file) + 1` -/
theorem gen_iter_artifactkit_payloads (f : PyFile) (start : Option Int) (maxrange : Option Nat) (fuel : Nat)
    (hf : f.data.length + 1 ≤ fuel) :
    Gen.PyScan.iter_artifactkit_payloads fuel (encFile f) (encOptInt start) (encOptNat maxrange)
      = (C15.iterArtifactkit f start maxrange).map encArt :=
  gen_iter_artifactkit_payloads_proof f start maxrange fuel hf

/-- the source defaults: `iter_artifactkit_payloads(fobj)` is `start_offset=0, maxrange=None` -/
theorem gen_iter_artifactkit_payloads_defaults (f : PyFile) (fuel : Nat) (hf : f.data.length + 1 ≤ fuel) :
    Gen.PyScan.iter_artifactkit_payloads_default2 fuel (encFile f)
      = (C15.iterArtifactkit f (some 0) none).map encArt :=
  gen_iter_artifactkit_payloads f (some 0) none fuel hf

/-- **`artifact_exact` for the translated definition**: the source text reports exactly the records of `artifactHits` -/
theorem gen_artifact_exact (f : PyFile) (start : Option Int) (hs : ∀ s, start = some s → 0 ≤ s) (maxrange : Option Nat)
    (fuel : Nat) (hf : f.data.length + 1 ≤ fuel) :
    ∃ f', Gen.PyScan.iter_artifactkit_payloads fuel (encFile f) (encOptInt start) (encOptNat maxrange)
        = .ok (encArt (C15.artifactHits f.data (C15.startPos f start) maxrange, f')) ∧ f'.data = f.data := by
  obtain ⟨f', h, hd⟩ := C15.artifact_exact f start hs maxrange
  refine ⟨f', ?_, hd⟩
  rw [gen_iter_artifactkit_payloads f start maxrange fuel hf, h]
  rfl

theorem gen_artifact_negative_start (f : PyFile) (s : Int) (hs : s < 0) (maxrange : Option Nat) (fuel : Nat)
    (hf : f.data.length + 1 ≤ fuel) :
    Gen.PyScan.iter_artifactkit_payloads fuel (encFile f) (.int s) (encOptNat maxrange) = .error f.negSeekExc := by
  have := gen_iter_artifactkit_payloads f (some s) maxrange fuel hf
  rw [C15.artifact_negative_start f s hs] at this
  exact this

/-! ### Non-vacuity: the translated definitions evaluated on concrete inputs -/

-- needle `01 00` in `00 01 00 01 00`, blocks of 2: both occurrences straddle a block boundary
example : Gen.PyScan.iter_find_needle (.int 2) 8 (mkFile [0, 1, 0, 1, 0] 0 0) (.bytes [1, 0]) (.int 0) (.int 0)
    = .ok (.tuple [.list [.int 1, .int 3], mkFile [0, 1, 0, 1, 0] 5 0]) := by decide +kernel
-- the input of the repaired defect (fc7bca0), on an OS file, from the current position
example : Gen.PyScan.iter_find_needle (.int 8192) 7 (mkFile [1, 0x61, 0x62, 0x63] 0 1) (.bytes [0, 1]) .none (.int 0)
    = .ok (.tuple [.list [], mkFile [1, 0x61, 0x62, 0x63] 4 1]) := by decide +kernel
-- the limit depends on the buffer size (five `01`, `max_offset = 2`): B = 4 reports 0..2, B = 2 also 3
example : Gen.PyScan.iter_find_needle (.int 4) 8 (mkFile [1, 1, 1, 1, 1] 0 0) (.bytes [1]) (.int 0) (.int 2)
    = .ok (.tuple [.list [.int 0, .int 1, .int 2], mkFile [1, 1, 1, 1, 1] 4 0]) := by decide +kernel
example : Gen.PyScan.iter_find_needle (.int 2) 8 (mkFile [1, 1, 1, 1, 1] 0 0) (.bytes [1]) (.int 0) (.int 2)
    = .ok (.tuple [.list [.int 0, .int 1, .int 2, .int 3], mkFile [1, 1, 1, 1, 1] 4 0]) := by decide +kernel
-- negative start offset: ValueError on BytesIO, OSError on an OS file
example : Gen.PyScan.iter_find_needle (.int 4) 8 (mkFile [1, 2] 0 0) (.bytes [1]) (.int (-1)) (.int 0) = .error .valueError := by
  decide +kernel
example : Gen.PyScan.iter_find_needle (.int 4) 8 (mkFile [1, 2] 0 1) (.bytes [1]) (.int (-1)) (.int 0) = .error .osError := by
  decide +kernel
-- too little fuel is a Timeout, never a wrong answer
example : Gen.PyScan.iter_find_needle (.int 1) 2 (mkFile [1, 1, 1] 0 0) (.bytes [1]) (.int 0) (.int 0) = .error .timeoutDiverge := by
  decide +kernel
-- wrong argument kinds: `len(None)`, `None.tell()`, a `str` needle (`bytes.find(str)`), a `bytes` limit (`int > bytes`)
example : Gen.PyScan.iter_find_needle (.int 4) 8 (mkFile [1, 2] 0 0) .none .none (.int 0) = .error .typeError := by decide +kernel
example : Gen.PyScan.iter_find_needle (.int 4) 8 .none (.bytes [1]) .none (.int 0) = .error .attributeError := by decide +kernel
example : Gen.PyScan.iter_find_needle (.int 4) 8 (mkFile [1, 2] 0 0) (lit "a") .none (.int 0) = .error .typeError := by decide +kernel
example : Gen.PyScan.iter_find_needle (.int 4) 8 (mkFile [1, 2] 0 0) (.bytes [1]) .none (.bytes [1]) = .error .typeError := by
  decide +kernel
-- an ArtifactKit header at offset 2 (`18 = 2 + 16`), size 3, key `01 02 03 04`
example : Gen.PyScan.iter_artifactkit_payloads 30
    (mkFile [9, 9, 18, 0, 0, 0, 3, 0, 0, 0, 1, 2, 3, 4, 1, 2, 3, 4, 5, 6, 7, 8, 0x11, 0x22, 0x33, 0x44] 0 0) (.int 0) .none
    = .ok (.tuple [.list [.inst Gen.PyScan.ArtifactKitPayload
        [.int 2, .int 3, .bytes [1, 2, 3, 4], .bytes [1, 2, 3, 4, 5, 6, 7, 8], .bytes [0x10, 0x20, 0x30]]],
        mkFile [9, 9, 18, 0, 0, 0, 3, 0, 0, 0, 1, 2, 3, 4, 1, 2, 3, 4, 5, 6, 7, 8, 0x11, 0x22, 0x33, 0x44] 26 0]) := by
  decide +kernel
example : Gen.PyScan.iter_artifactkit_payloads 5 (mkFile [16, 0, 0, 0] 0 1) (.int (-3)) .none = .error .osError := by decide +kernel
example : Gen.PyScan.iter_artifactkit_payloads 5 (mkFile [16, 0, 0, 0] 0 0) (.int 0) (lit "x") = .error .typeError := by decide +kernel

end C15Gen

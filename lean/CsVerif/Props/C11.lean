import CsVerif.Lemmas.C11
import CsVerif.Props.C10
/-! C11 property theorems: the dictionary view reports exactly what the profile says.

`asDict`, `asDictTree`, `printItems`, `specDict`, `specStms`, `group`, `buildProfile`, `derive`, `runHist` are the
models of Model/C11.lean; `C10.printTree` / `C10.toTree` / `Deriv.WF` come from C10. -/
namespace C11
open Grammar (Item Form)
open C10 (Table Tok Forest Tree Parts Deriv Text)

set_option maxRecDepth 100000

/-! ### obligations on the tables generated from the code as it is now -/

/-- every form of the grammar is a statement `kw… arg… ;`, a block `kw variant? { … }`, a sequence of those, or a
single token; blocks contain statements only; a profile is a sequence of statements -/
theorem gen_shapesOK : ShapesOK C10.gen = true := by decide +kernel

/-- statement-like forms that share a tree label and can have the same number of children have the same keywords
(so the keywords of a tree node are determined by its label and its children) -/
theorem gen_lookupWF : LookupWF C10.gen = true := by decide +kernel

/-- the list-valued keys of `as_dict` are exactly these nine -/
theorem gen_listProps : ProfileApi.listPropStrings =
    ["stage.transform-x86.header", "process-inject.transform-x86", "process-inject.execute", "http-post.server.output",
     "http-post.client.id", "http-post.client.output", "http-stager.server.output", "http-get.client.metadata",
     "http-get.server.output"] := by decide

/-- `listProps` (code points, used by the model) spells `listPropStrings` -/
theorem gen_listProps_codes :
    ProfileApi.listProps = ProfileApi.listPropStrings.map fun s => s.toList.map Char.toNat := by decide +kernel

/-- the only string constants of `as_dict` are the ones the model compares against -/
theorem gen_asDictStrings : ProfileApi.asDictStrings = ["\"default\"", ".", ";", "STRING", "set", "{", "{};", "}"] := by
  decide

/-- The pair branch of the walk (`len(line) > 2`, `x.type`) meets a plain keyword — and raises AttributeError — for
exactly one statement form of the grammar: `"#" "dns_resolver" string ";" -> comment_dns_resolver`
(known finding C11-comment-dns-resolver; that form cannot be lexed, it is only reachable through the builder). -/
theorem gen_riskyForms :
    (C10.gen.forms.filter (riskyForm C10.gen)).map (fun f => C10.gen.names.getD (C10.label f) []) =
      [[99, 111, 109, 109, 101, 110, 116, 95, 100, 110, 115, 95, 114, 101, 115, 111, 108, 118, 101, 114]] := by
  decide +kernel

/-- no OPTION word can be mistaken for punctuation or for `set` -/
theorem gen_optionWords : Grammar.optionAlts.all (fun w => !C10.isFlush w && w != setKw) = true := by decide +kernel

/-- a builder attribute of kind `_pair` / `_enable` / `set_option` names a statement of the grammar with two / no /
one argument; `_header` / `_parameter` attributes rely on the labels `header` / `parameter` -/
def hasStmtArity (G : Table) (nm : Text) (nv : Nat) : Bool :=
  G.forms.any fun f => C10.label f == nameId G nm &&
    (match shapeOf G f with
      | .stmt _ n => n == nv
      | _ => false)

def ApiConforms (G : Table) (api : List ProfileApi.Cls) : Bool :=
  api.all fun c => c.attrs.all fun a =>
    a.1.head? == some 95 ||
      (match a.2 with
        | .pair => hasStmtArity G a.1 2
        | .enable => hasStmtArity G a.1 0
        | .header => hasStmtArity G nmHeader 2
        | .parameter => hasStmtArity G nmParameter 2
        | .setOption => a.1 == nmSetOption || hasStmtArity G a.1 1
        | .globalOption => a.1 == nmSetOption
        | .other => true)

/-- every two-argument statement of the grammar has a `_pair`-like attribute in some builder class (the global option
`set OPTION string ;` has `C2Profile.set_option`), every
argument-less statement an `_enable` attribute or an entry in the tables of `DataTransformBlock` -/
def ApiCovers (G : Table) (api : List ProfileApi.Cls) : Bool :=
  G.forms.all fun f =>
    match shapeOf G f with
    | .stmt _ 2 => api.any fun c => c.attrs.any fun a =>
        (nameId G a.1 == C10.label f && (a.2 == .pair || a.2 == .header || a.2 == .parameter)) ||
          (a.2 == .globalOption && C10.label f == nameId G nmOption)      -- `set OPTION string ;`
    | .stmt _ 0 =>
      (api.any fun c => c.attrs.any fun a => nameId G a.1 == C10.label f && a.2 == .enable) ||
        (ProfileApi.dtBareSteps ++ ProfileApi.dtBareTerminations.map dashToUnderscore).any fun nm =>
          nameId G nm == C10.label f
    | _ => true

/-- the names `from_execute_list` accepts map to argument-less / one-argument statements of the grammar -/
def ExecConforms (G : Table) : Bool :=
  ProfileApi.executeBare.all (fun nm => hasStmtArity G (dashToUnderscore (lowerAscii nm)) 0) &&
  ProfileApi.executeSpecial.all (fun p => hasStmtArity G p.2 1)

theorem gen_apiConforms : ApiConforms C10.gen ProfileApi.classes = true := by decide +kernel
theorem gen_apiCovers : ApiCovers C10.gen ProfileApi.classes = true := by decide +kernel
theorem gen_execConforms : ExecConforms C10.gen = true := by decide +kernel

/-! ### the dictionary is the specification -/

/-- Central theorem.  For any table with `ShapesOK`, `LookupWF`, `PrintWF` and any well-formed derivation from the
start symbol whose tokens are harmless (`tokensOK`: no token text is a piece of `{};` or the word `set` — true of
every lexed profile), the tree is profile-shaped and `as_dict` of the tree is the grouped specification:
for each key the values in source order, keys in order of first occurrence; if a statement raises, the first one
in source order decides the exception.  (Proved through the invariant `run_flatten`: after the statements of a
block the stack is again the path of the enclosing blocks.) -/
theorem asDict_eq_spec (G : Table) (hS : ShapesOK G = true) (hL : LookupWF G = true) (hP : C10.PrintWF G = true)
    (lp : List Text) (d : Deriv) (hd : d.WF G = true) (hstart : d.form.origin = G.start)
    (htok : tokensOK G (C10.toTree d) = true) :
    ∃ r, specDict G lp (C10.toTree d) = some r ∧
      asDictTree G lp (C10.toTree d) = some (match r with
        | .error e => .error e
        | .ok es => .ok (group es)) := by
  obtain ⟨ss, h1, h2, h3⟩ := deriv_link G hS hL hP hd hstart
  refine ⟨specStms lp [] ss, by simp [specDict, h1], ?_⟩
  have hok := h3 (tokOK_of_tree G htok)
  simp only [asDictTree, printItems, C10.print_eq_source G hP d hd, Option.map_some]
  have : d.yield.map (itemOfTok G) = ss.flatten := h2
  rw [this, asDict_flatten lp ss hok]
  cases specStms lp [] ss <;> rfl

/-- for the grammar and the `list_props` of the code as it is now -/
theorem asDict_eq_spec_gen (d : Deriv) (hd : d.WF C10.gen = true) (hstart : d.form.origin = C10.gen.start)
    (htok : tokensOK C10.gen (C10.toTree d) = true) :
    ∃ r, specDict C10.gen ProfileApi.listProps (C10.toTree d) = some r ∧
      asDictTree C10.gen ProfileApi.listProps (C10.toTree d) = some (match r with
        | .error e => .error e
        | .ok es => .ok (group es)) :=
  asDict_eq_spec C10.gen gen_shapesOK gen_lookupWF C10.gen_printWF _ d hd hstart htok

/-- the only way the walk of a profile-shaped tree raises AttributeError is a plain keyword among the last two words
of a statement -/
theorem pairAtom_attributeError {x : Item'} {e : PyExc} (h : pairAtom x = .error e) :
    e = .attributeError ∧ x.isToken = false := by
  cases x with
  | plain s => simp [pairAtom] at h; exact ⟨h.symm, rfl⟩
  | token b s => cases b <;> simp [pairAtom] at h

/-- STRING literals (they start with a double quote) are harmless tokens -/
theorem string_literal_tokOK (s : Text) (h : s.head? = some 34) : C10.isFlush s = false ∧ s ≠ setKw := by
  cases s with
  | nil => simp at h
  | cons c r =>
    simp only [List.head?_cons, Option.some.injEq] at h
    subst h
    exact ⟨isSubstr_head (by decide), by simp [setKw]⟩

/-- no list-property key contains a double quote … -/
theorem gen_listProps_unquoted : ProfileApi.listProps.all (fun p => !p.contains 34) = true := by decide +kernel

/-- … hence a block under a variant other than "default" is never a list property (its path contains the quoted
variant): there `base64;` is reported as a bare word and `prepend "x";` as an option, without decoding -/
theorem variant_path_not_listProp {path : List Text} {v : Text} (hv : v ∈ path) (hq : 34 ∈ v) :
    ProfileApi.listProps.contains (joinDot path) = false := by
  have h := gen_listProps_unquoted
  simp only [List.all_eq_true, Bool.not_eq_true', List.contains_eq_mem, decide_eq_false_iff_not] at h
  simp only [List.contains_eq_mem, decide_eq_false_iff_not]
  intro hm
  exact h _ hm (joinDot_contains hq path hv)

/-! ### the builder -/

/-- Builder half, first part (the second part, parsing the text back, is `builder_eq_parsed` below).  For every
builder call sequence whose tree passes the checker `derive`
("the names used are statements/blocks of the grammar in that place" — decidable, evaluated for every generated call
sequence by the driver): the tree is the tree of a well-formed derivation `d` from the start symbol, the
Reconstructor prints exactly the sentence of `d` (so the profile's own text is a sentence with that derivation), and
the dictionary is the specification.  Tokens made by `value_to_string` are always harmless (`valueToString_tokOK`);
`tokensOK` remains a hypothesis because of the global option NAMES, which the builder does not check. -/
theorem builder_eq_parsed_partial (calls : Calls) (t : Tree) (d : Deriv)
    (_hb : buildProfile ProfileApi.classes C10.gen calls = .ok t) (hd : derive C10.gen t = some d)
    (htok : tokensOK C10.gen t = true) :
    d.WF C10.gen = true ∧ d.form.origin = C10.gen.start ∧ C10.toTree d = t ∧
      C10.printTree C10.gen t = some d.yield ∧
      ∃ r, specDict C10.gen ProfileApi.listProps t = some r ∧
        asDictTree C10.gen ProfileApi.listProps t = some (match r with
          | .error e => .error e
          | .ok es => .ok (group es)) := by
  obtain ⟨h1, h2, h3⟩ := derive_sound C10.gen hd
  subst h3
  exact ⟨h1, h2, rfl, C10.print_eq_source C10.gen C10.gen_printWF d h1, asDict_eq_spec_gen d h1 h2 htok⟩

/-- Parse-back direction of the builder half (closed by C10's `parse_complete`): for every builder call sequence
whose tree passes `derive`, whose tokens are lexable and `tokOK` (every named token's text matches its terminal — for
STRING tokens that is the quote `value_to_string` always writes, for the global option NAMES, which the builder does
not check, it means "is a word of the terminal OPTION"), the profile's own text exists and `from_text` of it is the
derivation `d` again, i.e. the builder's tree. -/
theorem builder_eq_parsed (calls : Calls) (t : Tree) (d : Deriv) (idc : Nat → Bool) (hc : C10.IdcOK idc)
    (_hb : buildProfile ProfileApi.classes C10.gen calls = .ok t) (hd : derive C10.gen t = some d)
    (hok : ∀ tk ∈ d.yield, C10.tokOK C10.gen tk = true)
    (hl : ∀ tk ∈ d.yield, C10.lexableTok C10.gen.words (C10.gen.tokText tk) = true) :
    ∃ text, C10.asText C10.gen idc t = some text ∧ C10.parseText C10.gen text = .ok d ∧ C10.toTree d = t := by
  obtain ⟨h1, h2, h3⟩ := derive_sound C10.gen hd
  subst h3
  obtain ⟨text, e1, e2⟩ := C10.text_of_derivation_parses_gen idc hc d h1 h2 hok hl
  exact ⟨text, e1, e2, rfl⟩

/-- The statement as the design first had it — WITHOUT `tokOK`.  It is FALSE (`builder_eq_parsed_full_false`): the
builder accepts any global option name.  `builder_eq_parsed` is the corrected statement. -/
def builder_eq_parsed_full : Prop :=
  ∀ (calls : Calls) (t : Tree) (d : Deriv) (idc : Nat → Bool), C10.IdcOK idc →
    buildProfile ProfileApi.classes C10.gen calls = .ok t → derive C10.gen t = some d →
    (∀ tk ∈ d.yield, C10.lexableTok C10.gen.words (C10.gen.tokText tk) = true) →
    ∃ text d', C10.asText C10.gen idc t = some text ∧ C10.parseText C10.gen text = .ok d' ∧ C10.toTree d' = t

/-- `C2Profile().set_option("stage", "x")`: the option name is a keyword of the grammar, not a word of OPTION -/
def optionNameCex : Calls := .setOption [115, 116, 97, 103, 101] (.str [120]) .done

def idcAscii : Nat → Bool := fun c => c == 95 || (48 ≤ c && c ≤ 57) || (65 ≤ c && c ≤ 90) || (97 ≤ c && c ≤ 122)

/-- the tree of `optionNameCex` passes `derive`, its tokens are lexable, its text is `set stage "x";` — and that text
does not parse (the real library answers `UnexpectedToken … Expected one of: OPTION`) -/
def optionNameCexHolds : Bool :=
  match buildProfile ProfileApi.classes C10.gen optionNameCex with
  | .ok t =>
    match derive C10.gen t with
    | some d =>
      d.yield.all (fun tk => C10.lexableTok C10.gen.words (C10.gen.tokText tk)) &&
        (match C10.asText C10.gen idcAscii t with
          | some text => C10.parseText C10.gen text == .fail
          | none => false)
    | none => false
  | .error _ => false

theorem builder_eq_parsed_full_false : ¬ builder_eq_parsed_full := by
  intro h
  have hc : optionNameCexHolds = true := by decide +kernel
  unfold optionNameCexHolds at hc
  split at hc
  · rename_i t hb
    split at hc
    · rename_i d hd
      simp only [Bool.and_eq_true, List.all_eq_true] at hc
      obtain ⟨hl, hp⟩ := hc
      obtain ⟨text, d', e1, e2, _⟩ := h optionNameCex t d idcAscii ⟨by decide, by decide, by decide⟩ hb hd hl
      rw [e1] at hp
      simp only [e2] at hp
      cases hp
    · cases hc
  · cases hc

/-- bytes handed to a builder call that ends up in a list property are reported as the same bytes
(C12's `literal_roundtrip` through `value_to_string` and `string_token_to_bytes`) -/
theorem builder_bytes_roundtrip (b : Bytes) :
    listAtom (.token true (valueToString (.bytes b))) = .ok (.bytes b) := listAtom_bytes b

/-- a STRING token made by `value_to_string` can never be mistaken for punctuation or for `set` -/
theorem builder_tokens_harmless (v : PyVal) :
    C10.isFlush (valueToString v) = false ∧ valueToString v ≠ setKw := valueToString_tokOK v

/-! ### the cache -/

/-- For any interleaving of modifications and accesses on a freshly constructed profile object, every access returns
the dictionary (or the exception) of the CURRENT tree — under the explicit assumption that the hash of the tree
(`hash(self.tree)`, the cache key) does not collide between the trees the history goes through. -/
theorem dict_tracks_modification {H : Type} [DecidableEq H] (hash : Tree → H) (compute : Tree → Option (Py Dict))
    (t : Tree) (ops : List Op)
    (hinj : ∀ a ∈ treesOf t ops, ∀ b ∈ treesOf t ops, hash a = hash b → a = b) :
    runHist hash compute (PState.fresh t) ops = expected compute t ops := by
  apply runHist_correct hash compute (treesOf t ops) hinj ops (PState.fresh t)
  · intro x hx; exact hx
  · intro h hh; simp [PState.fresh] at hh

/-- the assumption is needed: with a colliding hash the second access returns the dictionary of the OLD tree -/
theorem stale_cache_with_colliding_hash :
    let hash : Tree → Unit := fun _ => ()
    let compute : Tree → Option (Py Dict) := fun t => some (.ok [([t.label], [])])
    let t1 : Tree := ⟨1, .nil⟩
    let t2 : Tree := ⟨2, .nil⟩
    let ops := [Op.access, Op.modify (fun _ => t2), Op.access]
    runHist hash compute (PState.fresh t1) ops = [compute t1, compute t1] ∧
      expected compute t1 ops = [compute t1, compute t2] ∧ compute t1 ≠ compute t2 := by
  intro hash compute t1 t2 ops
  refine ⟨by rfl, by rfl, by decide⟩

/-! ### non-vacuity (through source text, independent of how names are interned) -/

/-- `http-get{client{metadata{base64;prepend"\x41";header"C";}header"a""b";}}set sleeptime"5";http-get"v"{set uri"/";}` -/
def exampleSrc : Text :=
  [104, 116, 116, 112, 45, 103, 101, 116, 123, 99, 108, 105, 101, 110, 116, 123, 109, 101, 116, 97, 100, 97, 116, 97, 123,
   98, 97, 115, 101, 54, 52, 59, 112, 114, 101, 112, 101, 110, 100, 34, 92, 120, 52, 49, 34, 59, 104, 101, 97, 100, 101,
   114, 34, 67, 34, 59, 125, 104, 101, 97, 100, 101, 114, 34, 97, 34, 34, 98, 34, 59, 125, 125, 115, 101, 116, 32, 115,
   108, 101, 101, 112, 116, 105, 109, 101, 34, 53, 34, 59, 104, 116, 116, 112, 45, 103, 101, 116, 34, 118, 34, 123, 115,
   101, 116, 32, 117, 114, 105, 34, 47, 34, 59, 125]

/-- the hypotheses of `asDict_eq_spec_gen` hold for the derivation of `exampleSrc`, and the dictionary is what one reads:
`http-get.client.metadata` ↦ [base64, (prepend, b"A"), (header, b"C")], `http-get.client.header` ↦ [(a, b)],
`sleeptime` ↦ [5], `http-get."v".uri` ↦ [/] -/
def exampleHolds : Bool :=
  match C10.parseText C10.gen exampleSrc with
  | .ok d =>
    d.WF C10.gen && d.form.origin == C10.gen.start && tokensOK C10.gen (C10.toTree d) &&
    (derive C10.gen (C10.toTree d)).isSome &&
    asDictTree C10.gen ProfileApi.listProps (C10.toTree d) == some (.ok
      [([104, 116, 116, 112, 45, 103, 101, 116, 46, 99, 108, 105, 101, 110, 116, 46, 109, 101, 116, 97, 100, 97, 116, 97],
        [.atom (.str [98, 97, 115, 101, 54, 52]),
         .tuple [.str [112, 114, 101, 112, 101, 110, 100], .bytes [65]],
         .tuple [.str [104, 101, 97, 100, 101, 114], .bytes [67]]]),
       ([104, 116, 116, 112, 45, 103, 101, 116, 46, 99, 108, 105, 101, 110, 116, 46, 104, 101, 97, 100, 101, 114],
        [.tuple [.str [97], .str [98]]]),
       ([115, 108, 101, 101, 112, 116, 105, 109, 101], [.atom (.str [53])]),
       ([104, 116, 116, 112, 45, 103, 101, 116, 46, 34, 118, 34, 46, 117, 114, 105], [.atom (.str [47])])])
  | _ => false

example : exampleHolds = true := by decide +kernel

/-- a builder call sequence that satisfies the hypotheses of `builder_eq_parsed_partial` and `builder_eq_parsed`:
`C2Profile(sleeptime="5")` then `set_config_block("stage", StageBlock(name="x"))` -/
def exampleCalls : Calls :=
  .kwVal [115, 108, 101, 101, 112, 116, 105, 109, 101] (.str [53])
    (.setConfigBlock [115, 116, 97, 103, 101]
      (.cls ((ProfileApi.classes.map (·.pyName)).idxOf "StageBlock") (.kwVal [110, 97, 109, 101] (.bytes [120, 0]) .done)) .done)

example : (match buildProfile ProfileApi.classes C10.gen exampleCalls with
    | .ok t => (derive C10.gen t).isSome && tokensOK C10.gen t && t.kids != .nil &&
        (match derive C10.gen t with
          | some d => d.yield.all (fun tk => C10.tokOK C10.gen tk && C10.lexableTok C10.gen.words (C10.gen.tokText tk))
          | none => false)
    | .error _ => false) = true := by decide +kernel

end C11

import CsVerif.Gen.PyClient
import CsVerif.Props.C19
import CsVerif.Lemmas.C19Gen
/-!
C19 — the tie between the source text of dissect/cobaltstrike/client.py and the model, by (untyped) translation.

`Gen/PyClient.lean` is produced on every run by `tools/py2leanu.py` (plug-in `tools/gen/py_client.py`) from the *source*:

  * three SLICES of the long method `HttpBeaconClient.run`, located in its AST by what they assign and wrapped into synthetic
    functions: `normalise_beacon_id` (the two assignments of `self.beacon_id` + the range check), `session_keys`
    (`random.seed(…)` … `self.hmac_key = …`) and `make_info` (the two assignments of `info` + the value stored in
    `self.metadata.info`);
  * `register_task`, the inner functions of the decorators `handle` / `catch_all`, `get_handlers`, and the dispatch part of the
    body of `_beacon_loop` (`command_id = …` to the end of the `for` over the handlers), with the client object threaded as a value.

EXTERNAL (parameters of the translated definitions): `random.getrandbits`, `random.seed` + `getrandbits(128)` as one function of
the seed, `hashlib.sha256(·).digest()`, `getattr(self, name, None)`, `callable`, and the `try` statement around the call of ONE
handler (`invoke_handler`).  They are instantiated in `Model/C19Gen.lean` with the primitives of the hand-written model.
Handler objects are opaque: every theorem below holds for ANY representation `enc : Handler → V` of handler objects as values that
respects `bool(h)`.

Each `gen_*` theorem states that a translated definition computes exactly the encoding of what the hand-written model of
`Model/C19.lean` computes, raising branches included; the property theorems of `Props/C19.lean` are restated for the translated
definitions.  So they are theorems about the source text as it stands now, and an edit that changes the meaning of one of these
pieces breaks the proof here.  Helper lemmas: `Lemmas/C19Gen.lean`.
-/
namespace C19Gen
open PyU C19 C19.Client

/-! ### the beacon id -/

/-- for EVERY int argument (whatever `random.getrandbits` is) the translated slice equals the model, `ValueError` included -/
theorem gen_normalise_beacon_id (getrandbits : V → Py V) (id : Int) :
    Gen.PyClient.normalise_beacon_id getrandbits (.int id) = (normaliseId id).map .int :=
  gen_normalise_beacon_id_proof getrandbits id

/-- `beacon_id=None`: the model's `defaultId` of the value `random.getrandbits(32)` returns -/
theorem gen_normalise_beacon_id_none (getrandbits : V → Py V) (r : Int) (h : getrandbits (.int 32) = .ok (.int r)) :
    Gen.PyClient.normalise_beacon_id getrandbits .none = (defaultId r).map .int :=
  gen_normalise_beacon_id_none_proof getrandbits r h

/-- `beacon_id_range` for the source text -/
theorem gen_beacon_id_range (g : V → Py V) (id : Int) :
    Gen.PyClient.normalise_beacon_id g (.int id) = .error .valueError ∨
    ∃ r, Gen.PyClient.normalise_beacon_id g (.int id) = .ok (.int r) ∧ r % 2 = 0 ∧ 0 ≤ r ∧ r < 2147483648 := by
  rw [gen_normalise_beacon_id]
  rcases beacon_id_range id with h | ⟨r, h, h1, h2, h3⟩
  · left; rw [h]; rfl
  · right; exact ⟨r, by rw [h]; rfl, h1, h2, h3⟩

/-- `beacon_id_rejected_iff` for the source text -/
theorem gen_beacon_id_rejected_iff (g : V → Py V) (id : Int) :
    Gen.PyClient.normalise_beacon_id g (.int id) = .error .valueError ↔ 2147483648 ≤ id % 4294967296 := by
  rw [gen_normalise_beacon_id, ← beacon_id_rejected_iff]
  cases normaliseId id with
  | error e => simp [Except.map]
  | ok r => simp [Except.map]

/-- `beacon_id_stable` for the source text: the presented id is a fixed point -/
theorem gen_beacon_id_stable (g : V → Py V) (id r : Int) (h : Gen.PyClient.normalise_beacon_id g (.int id) = .ok (.int r)) :
    Gen.PyClient.normalise_beacon_id g (.int r) = .ok (.int r) := by
  rw [gen_normalise_beacon_id] at h ⊢
  cases hn : normaliseId id with
  | error e => rw [hn] at h; cases h
  | ok r' =>
    rw [hn] at h
    have : r' = r := by injection h with h; injection h
    subst this
    rw [beacon_id_stable id r' hn]; rfl

/-- `default_id_accepted` for the source text: without a requested id the draw is never rejected -/
theorem gen_default_id_accepted (g : V → Py V) (r : Int) (h : g (.int 32) = .ok (.int r)) :
    Gen.PyClient.normalise_beacon_id g .none = .ok (.int (r % 2147483648 - r % 2)) := by
  rw [gen_normalise_beacon_id_none g r h, (default_id_accepted r).1]; rfl

/-! ### the session keys -/

/-- for every int id and every stand-in `mt` for the Mersenne Twister (`mt seed 128` a 128-bit value) and `sha` for sha256: the
translated slice computes the model's `deriveKeys` for the primitives made of the two stand-ins -/
theorem gen_session_keys (mt : Int → Int → Int) (sha : Bytes → Bytes) (bid : Int)
    (hmt : ∀ s, 0 ≤ mt s 128 ∧ mt s 128 < 340282366920938463463374607431768211456) :
    Gen.PyClient.session_keys (seededX mt) (shaX sha) (.int bid) = .ok (encKeys (deriveKeys (primsOf mt sha) bid)) :=
  C19Gen.gen_session_keys_proof mt sha bid hmt

/-! ### info -/

/-- for all names (any code points, any length): the translated slice equals the model's `mkInfo`, including the
`UnicodeEncodeError` of a lone surrogate -/
theorem gen_info (computer user process : Txt) :
    Gen.PyClient.make_info (.str computer) (.str user) (.str process) = (mkInfo computer user process).map .bytes :=
  gen_info_proof computer user process

/-- `info_fits` for the source text -/
theorem gen_info_fits (computer user process : Txt) (info : Bytes)
    (h : Gen.PyClient.make_info (.str computer) (.str user) (.str process) = .ok (.bytes info)) : info.length ≤ 51 := by
  rw [gen_info] at h
  cases hm : mkInfo computer user process with
  | error e => rw [hm] at h; cases h
  | ok i =>
    rw [hm] at h
    have : i = info := by injection h with h; injection h
    subst this
    exact info_fits computer user process i hm

/-- `info_exact` for the source text: the encoding of the longest prefix of whole characters that fits in 51 bytes -/
theorem gen_info_exact (computer user process : Txt) (enc : Bytes)
    (he : utf8Encode (computer ++ [9] ++ user ++ [9] ++ process) = .ok enc) :
    Gen.PyClient.make_info (.str computer) (.str user) (.str process)
      = (utf8Encode (fitPrefix (computer ++ [9] ++ user ++ [9] ++ process) 51)).map .bytes := by
  rw [gen_info, (info_exact computer user process enc he).1]

/-! ### `run`: the three slices in the order of the method -/

/-- the identity part of `run(dry_run=True, beacon_id=id, …)` made of the three translated slices equals the model's `run` -/
theorem gen_run (g : V → Py V) (mt : Int → Int → Int) (sha : Bytes → Bytes)
    (hmt : ∀ s, 0 ≤ mt s 128 ∧ mt s 128 < 340282366920938463463374607431768211456)
    (id : Int) (c u q : Txt) :
    runG g (seededX mt) (shaX sha) (.int id) (.str c) (.str u) (.str q) = (run (primsOf mt sha) id c u q).map encIdentity := by
  simp only [runG, gen_normalise_beacon_id, run]
  cases normaliseId id with
  | error e => rfl
  | ok bid =>
    simp only [Except.map, PyRt.ok_bind, gen_session_keys mt sha bid hmt, gen_info]
    cases mkInfo c u q <;> rfl

/-- `keys_function_of_id` for the source text: two runs that present the same beacon id use the same `aes_rand`, AES key and
HMAC key, whatever the requested ids and names were -/
theorem gen_keys_function_of_id (g : V → Py V) (mt : Int → Int → Int) (sha : Bytes → Bytes)
    (hmt : ∀ s, 0 ≤ mt s 128 ∧ mt s 128 < 340282366920938463463374607431768211456)
    (id₁ id₂ : Int) (c₁ u₁ q₁ c₂ u₂ q₂ : Txt) (bid k₁ k₂ i₁ i₂ : V)
    (h₁ : runG g (seededX mt) (shaX sha) (.int id₁) (.str c₁) (.str u₁) (.str q₁) = .ok (.tuple [bid, k₁, i₁]))
    (h₂ : runG g (seededX mt) (shaX sha) (.int id₂) (.str c₂) (.str u₂) (.str q₂) = .ok (.tuple [bid, k₂, i₂])) :
    k₁ = k₂ := by
  rw [gen_run g mt sha hmt] at h₁ h₂
  cases ha : run (primsOf mt sha) id₁ c₁ u₁ q₁ with
  | error e => rw [ha] at h₁; cases h₁
  | ok a =>
    cases hb : run (primsOf mt sha) id₂ c₂ u₂ q₂ with
    | error e => rw [hb] at h₂; cases h₂
    | ok b =>
      rw [ha] at h₁; rw [hb] at h₂
      simp only [Except.map, encIdentity, Except.ok.injEq, V.tuple.injEq, List.cons.injEq, and_true] at h₁ h₂
      have hid : a.beaconId = b.beaconId := by
        have e := h₁.1.trans h₂.1.symm
        injection e
      have hk := keys_function_of_id (primsOf mt sha) id₁ id₂ c₁ u₁ q₁ c₂ u₂ q₂ a b ha hb hid
      rw [← h₁.2.1, ← h₂.2.1, hk]

/-! ### the registry -/

/-- `register_task(k, h)` on a client whose `task_map` is the model's dict: the model's `registerTask`, for every key (`None` or
an int) and every handler -/
theorem gen_register_task (enc : Handler → V) (c : Client) (hw : WF c) (k : Key) (h : Handler) :
    Gen.PyClient.register_task (encClient enc c) (encKey k) (enc h) = .ok (encClient enc (c.registerTask k h)) :=
  gen_register_task_proof enc c hw k h

/-- `handle(command)(h)`: `None`, ints (IntEnum members included), truthy objects with `.value`, and the `AttributeError` for a
truthy non-int without `.value` -/
theorem gen_handle_decorator (enc : Handler → V) (c : Client) (hw : WF c) (a : CmdArg) (h : Handler) :
    Gen.PyClient.handle_decorator (encClient enc c) (encArg a) (enc h)
      = (handleKey a).map fun k => .tuple [enc h, encClient enc (c.registerTask k h)] :=
  gen_handle_decorator_proof enc c hw a h

/-- `catch_all()(h)` registers `h` under the key −1 -/
theorem gen_catch_all_decorator (enc : Handler → V) (c : Client) (hw : WF c) (h : Handler) :
    Gen.PyClient.catch_all_decorator (encClient enc c) (enc h)
      = .ok (.tuple [enc h, encClient enc (c.registerTask (some (-1)) h)]) :=
  gen_catch_all_decorator_proof enc c hw h

/-- a whole registration script run through the translated registration code builds the model's registry (with the same
outcome for every registration) -/
theorem gen_build (enc : Handler → V) (regs : List Reg) :
    applyRegsG enc newClientG regs = (encClient enc (build regs), (applyRegs {} regs).2) := by
  rw [newClientG_eq enc, gen_applyRegs_proof enc regs {} wf_empty]; rfl

/-- `get_handlers(k)` for every key (`None`, a `BeaconCommand` value, any other int): the list the model's `getHandlers`
returns -/
theorem gen_get_handlers (enc : Handler → V) (henc : ∀ h, truthy (enc h) = h.truthy) (c : Client) (hw : WF c) (k : Key) :
    Gen.PyClient.get_handlers (getattrX enc c) (encClient enc c) (encKey k)
      = .ok (.list (((getHandlers c k).1.readList (getHandlers c k).2).map enc)) := by
  rw [gen_get_handlers_proof enc henc, (getHandlers_spec c hw k).2]

/-- `task_map_content` + `dispatch_own_handlers` / `dispatch_catch_all` for the source text: after any registration script,
`get_handlers(k)` returns exactly the handlers the registrations prescribe -/
theorem gen_get_handlers_spec (enc : Handler → V) (henc : ∀ h, truthy (enc h) = h.truthy) (regs : List Reg) (k : Key) :
    Gen.PyClient.get_handlers (getattrX enc (build regs)) (encClient enc (build regs)) (encKey k)
      = .ok (.list ((specHandlers regs k).map enc)) := by
  rw [gen_get_handlers_proof enc henc, specListC_build]

/-! ### dispatch -/

/-- the dispatch part of one loop iteration: for every task (`None` or any command id) the value is, per CALLABLE handler of
`get_handlers(command_id)` and in that order, what the `try` statement around its call did -/
theorem gen_dispatch (enc : Handler → V) (henc : ∀ h, truthy (enc h) = h.truthy) (callableX : V → Py V) (invokeX : V → V → Py V)
    (c : Client) (hw : WF c) (t : Option Int)
    (hc : ∀ h, callableX (enc h) = .ok (.bool h.callable))
    (hi : ∀ h, h.callable = true → invokeX (enc h) (encTask t) = .ok (encEvents (invokeOne h))) :
    Gen.PyClient.dispatch (getattrX enc c) callableX invokeX (encClient enc c) (encTask t)
      = .ok (.list ((((getHandlers c t).1.readList (getHandlers c t).2).filter (·.callable)).map fun h => encEvents (invokeOne h))) := by
  rw [gen_dispatch_proof enc henc callableX invokeX c t hc hi, (getHandlers_spec c hw t).2]

/-- `dispatch_exact` for the source text: for every registration script (run through the translated registration code) and
every task, the events of the translated dispatch code are exactly `invoke (specHandlers regs task)` — each prescribed handler
once per occurrence, in order -/
theorem gen_dispatch_exact (enc : Handler → V) (henc : ∀ h, truthy (enc h) = h.truthy) (callableX : V → Py V) (invokeX : V → V → Py V)
    (regs : List Reg) (t : Option Int)
    (hc : ∀ h, callableX (enc h) = .ok (.bool h.callable))
    (hi : ∀ h, h.callable = true → invokeX (enc h) (encTask t) = .ok (encEvents (invokeOne h))) :
    ∃ r, Gen.PyClient.dispatch (getattrX enc (build regs)) callableX invokeX (applyRegsG enc newClientG regs).1 (encTask t) = .ok r ∧
      flattenEvents r = some ((invoke (specHandlers regs t)).map encEvent) := by
  rw [gen_build enc regs]
  refine ⟨_, gen_dispatch_proof enc henc callableX invokeX (build regs) t hc hi, ?_⟩
  rw [flattenEvents_map, specListC_build, invoke_filter]

/-! ### Non-vacuity: the concrete handler representation satisfies the hypotheses; the translated definitions evaluated on concrete inputs -/

theorem encH_truthy (h : Handler) : truthy (encH h) = h.truthy := by
  unfold encH; cases h.truthy <;> rfl

theorem decH_encH (h : Handler) : decH (encH h) = some h := by
  obtain ⟨i, c, t, r, s⟩ := h
  cases t <;> cases c <;> cases r <;> cases s <;> simp [encH, decH, falsyCls, HandlerCls]

theorem callableH_spec (h : Handler) : callableH (encH h) = .ok (.bool h.callable) := by
  simp only [callableH, decH_encH]

theorem invokeH_spec (h : Handler) (t : V) : invokeH (encH h) t = .ok (encEvents (invokeOne h)) := by
  simp only [invokeH, decH_encH]

example : Gen.PyClient.normalise_beacon_id (getrandbitsX 0) (.int 2147483647) = .ok (.int 2147483646) := by decide +kernel
example : Gen.PyClient.normalise_beacon_id (getrandbitsX 0) (.int (-1)) = .error .valueError := by decide +kernel
example : Gen.PyClient.normalise_beacon_id (getrandbitsX 0) (.int (4294967296 + 5)) = .ok (.int 4) := by decide +kernel
example : Gen.PyClient.normalise_beacon_id (getrandbitsX 4294967295) .none = .ok (.int 2147483646) := by decide +kernel
-- `"7" % 2` is string formatting (not modelled: TypeError, as CPython answers for this operand); `b"7" - …` likewise
example : Gen.PyClient.normalise_beacon_id (getrandbitsX 0) (lit "7") = .error .typeError := by decide +kernel
example : Gen.PyClient.normalise_beacon_id (getrandbitsX 0) (.bool true) = .ok (.int 0) := by decide +kernel
example : Gen.PyClient.session_keys (seededX fun s _ => s) (shaX fun b => b ++ b) (.int 4)
    = .ok (.tuple [.bytes [0, 0, 0, 0, 0, 0, 0, 0, 0, 0, 0, 0, 172, 206, 85, 233], .bytes [0, 0, 0, 0, 0, 0, 0, 0, 0, 0, 0, 0, 172, 206, 85, 233],
        .bytes [0, 0, 0, 0, 0, 0, 0, 0, 0, 0, 0, 0, 172, 206, 85, 233]]) := by decide +kernel
-- a negative draw cannot be written as 16 unsigned bytes
example : Gen.PyClient.session_keys (seededX fun _ _ => -1) (shaX id) (.int 4) = .error .overflowError := by decide +kernel
example : Gen.PyClient.make_info (.str (List.replicate 30 0x20AC)) (.str [0x75]) (.str [0x70])
    = .ok (.bytes ((List.replicate 17 [0xE2, 0x82, 0xAC]).flatten)) := by decide +kernel
example : Gen.PyClient.make_info (.str [0xD800]) (.str []) (.str []) = .error .valueError := by decide +kernel
-- `f"{None}"` is "None"; `bytes` names are a TypeError here (CPython formats their repr: not modelled)
example : Gen.PyClient.make_info .none (.str [0x75]) (.str [0x70]) = .ok (.bytes [78, 111, 110, 101, 9, 117, 9, 112]) := by decide +kernel
-- COMMAND_DIE = 3: a handler registered by the decorator, then the attribute `on_die`; COMMAND 4 goes to the catch-all handler
example :
    let regs : List Reg := [.handle (.int 3) ⟨1, true, true, false, true⟩, .classAttr [111, 110, 95, 100, 105, 101] ⟨2, true, true, false, false⟩,
      .catchAll ⟨9, true, true, false, false⟩]
    (Gen.PyClient.dispatch (getattrX encH (build regs)) callableH invokeH (applyRegsG encH newClientG regs).1 (encTask (some 3))).map flattenEvents
      = .ok (some ([.call 1, .send 1, .call 2].map encEvent)) ∧
    (Gen.PyClient.dispatch (getattrX encH (build regs)) callableH invokeH (applyRegsG encH newClientG regs).1 (encTask (some 4))).map flattenEvents
      = .ok (some ([.call 9].map encEvent)) ∧
    (Gen.PyClient.dispatch (getattrX encH (build regs)) callableH invokeH (applyRegsG encH newClientG regs).1 (encTask (some 9999))).map flattenEvents
      = .ok (some ([.call 9].map encEvent)) := by decide +kernel
-- `handle("sleep")`: AttributeError; `register_task` on something that is not a client: AttributeError
example : Gen.PyClient.handle_decorator newClientG (encArg .plainObj) (encH ⟨1, true, true, false, false⟩) = .error .attributeError := by
  decide +kernel
example : Gen.PyClient.register_task .none (.int 3) (encH ⟨1, true, true, false, false⟩) = .error .attributeError := by decide +kernel
-- an unhashable command id: TypeError from the `in` test
example : Gen.PyClient.register_task newClientG (.list []) (encH ⟨1, true, true, false, false⟩) = .error .typeError := by decide +kernel

end C19Gen

import CsVerif.Model.C11
import CsVerif.Model.C11Gen
import CsVerif.Driver.C10
/-! Line-protocol driver for the C11 model.

Encodings (one line, words separated by single blanks; text = `x<hex of UTF-8>`, trees as in the C10 driver)
* value of the builder      `sx<hex>` (str) / `bx<hex>` (bytes)
* dictionary                `K<key text>:<n>` followed by n values; a value is an atom `sx..` (str) / `Tx..` (non-STRING
                            Token) / `bx..` (bytes) or `t<n>` followed by n atoms (tuple)
* outcome                   `ok <dictionary>` / `exc <PyExc>` / `none` (the Reconstructor cannot print the tree)
* calls                     `kv:<name>:<val>` `kp:<name>:<n> (a b)*n` `kb:<name> <block>` `so:<name>:<val>`
                            `pr:<name>:<n> …` `en:<name>` `hd:<n> …` `pm:<n> …` `cb:<name> <block>` `ne:<name> <block>`,
                            a call list ends with `E`;  block: `C<class index> <calls> E` | `DT<n> (sb:<name> | sa:<name>:<val>)*n`
                            | `EX<n> (xb:<name> | xp:<name>:<val>)*n` | `GT<n> (g:<name>)*n`

Operations
* `src x<text>`             parse (model parser), walk; answers the dictionary
* `tree <tree>`             walk over an arbitrary tree
* `walk <items>`            the walk on an arbitrary item list (`p<text>` plain, `S<text>` STRING token, `O<text>` other token)
* `build <calls> E`         builder calls on a `C2Profile`: tree, dictionary, text, re-parse
* `both x<text> <calls> E`  the same profile as text and as builder calls
* `hist <tree> (| op)*`     modify / access history on one profile object
* `v2s <val>`               `value_to_string`
* `gwalk` / `gsrc` / `gtree` / `ghist` …   (streams `g-*`) the same case run through the definitions TRANSLATED from the source of
                            `C2Profile.as_dict` (Gen/PyC2Dict.lean: `as_dict_walk`, `as_dict`) and of `string_token_to_bytes`
                            (Gen/PyC2Prof.lean); the Reconstructor is the model's `printItems`, `hash(tree)` the tree itself
* `gbuild <calls> E`        the builder calls run through the TRANSLATED methods of `ConfigBlock`, `C2Profile`, `DataTransformBlock`, the
                            bodies of `from_execute_list` / `from_beacon_gate_option_strings`: the tree
* `garg dict <value>`       the translated `as_dict` with the Reconstructor answering an arbitrary value (notation of PyUShow.lean)
* `pyu <op> <operands>`     one operation of the run-time library added for this unit (Model/PyU_T11.lean)
-/
namespace C11
open Proto C10

def LP : List Text := ProfileApi.listProps
def API : List ProfileApi.Cls := ProfileApi.classes

def showAtom : Atom → String
  | .str s => "s" ++ showText s
  | .tok s => "T" ++ showText s
  | .bytes b => "b" ++ showBytes b

def showValue : Value → List String
  | .atom a => [showAtom a]
  | .tuple as => s!"t{as.length}" :: as.map showAtom

def showDict (d : Dict) : List String :=
  d.flatMap fun (k, vs) => s!"K{showText k}:{vs.length}" :: vs.flatMap showValue

def showOutcome : Option (Py Dict) → String
  | none => "none"
  | some (.error e) => "exc " ++ e.name
  | some (.ok d) => " ".intercalate ("ok" :: showDict d)

/-- dictionary of a tree, with the specification cross-checked whenever the tree is profile-shaped -/
def dictOfTree (t : Tree) : String :=
  let r := asDictTree G LP t
  let base := showOutcome r
  match r, (if (derive G t).isSome && tokensOK G t then specDict G LP t else none) with
  | some x, some sp =>
    let want : Py Dict := match sp with
      | .ok es => .ok (group es)
      | .error e => .error e
    if x == want then base else base ++ " SPEC-MISMATCH"
  | _, _ => base

def valTok (w : String) : Option PyVal :=
  match w.toList with
  | 's' :: rest => (textTok (String.ofList rest)).map PyVal.str
  | 'b' :: rest => (bytesTok (String.ofList rest)).map PyVal.bytes
  -- int / bool / float arguments: the word carries `str(value)`, which is what `f'"{value}"'` formats
  | 'i' :: rest | 't' :: rest | 'f' :: rest => (textTok (String.ofList rest)).map PyVal.str
  | _ => none

def fields (w : String) : List String := w.splitOn ":"

/-- a direct `set_option` call whose value word is a number / boolean -/
def isNumSo (w : String) : Bool :=
  match w.splitOn ":" with
  | ["so", _, v] => match v.toList with
    | 'i' :: _ | 't' :: _ | 'f' :: _ => true
    | _ => false
  | _ => false

def readVals : Nat → List String → Option (List PyVal × List String)
  | 0, ws => some ([], ws)
  | n + 1, w :: ws =>
    match valTok w, readVals n ws with
    | some v, some (vs, r) => some (v :: vs, r)
    | _, _ => none
  | _ + 1, [] => none

def pairUp : List PyVal → List (PyVal × PyVal)
  | a :: b :: r => (a, b) :: pairUp r
  | _ => []

def readPairs (n : String) (ws : List String) : Option (List (PyVal × PyVal) × List String) :=
  match n.toNat? with
  | none => none
  | some k => (readVals (2 * k) ws).map fun (vs, r) => (pairUp vs, r)

def readSteps : Nat → List String → Option (List Step × List String)
  | 0, ws => some ([], ws)
  | n + 1, w :: ws =>
    let one : Option Step := match fields w with
      | ["sb", nm] => (textTok nm).map Step.bare
      | ["sa", nm, v] =>
        match textTok nm, valTok v with
        | some a, some b => some (Step.arg a b)
        | _, _ => none
      | _ => none
    match one, readSteps n ws with
    | some s, some (ss, r) => some (s :: ss, r)
    | _, _ => none
  | _ + 1, [] => none

def readExec : Nat → List String → Option (List ExecItem × List String)
  | 0, ws => some ([], ws)
  | n + 1, w :: ws =>
    let one : Option ExecItem := match fields w with
      | ["xb", nm] => (textTok nm).map ExecItem.bare
      | ["xp", nm, v] =>
        match textTok nm, valTok v with
        | some a, some b => some (ExecItem.pair a b)
        | _, _ => none
      | _ => none
    match one, readExec n ws with
    | some s, some (ss, r) => some (s :: ss, r)
    | _, _ => none
  | _ + 1, [] => none

def readGate : Nat → List String → Option (List Text × List String)
  | 0, ws => some ([], ws)
  | n + 1, w :: ws =>
    match fields w with
    | ["g", nm] =>
      match textTok nm, readGate n ws with
      | some a, some (ss, r) => some (a :: ss, r)
      | _, _ => none
    | _ => none
  | _ + 1, [] => none

mutual
def readCalls : Nat → List String → Option (Calls × List String)
  | 0, _ => none
  | _ + 1, [] => none
  | fuel + 1, w :: ws =>
    if w == "E" then some (.done, ws)
    else
      match fields w with
      | ["kv", nm, v] =>
        match textTok nm, valTok v, readCalls fuel ws with
        | some a, some b, some (r, ws') => some (.kwVal a b r, ws')
        | _, _, _ => none
      | ["so", nm, v] =>
        match textTok nm, valTok v, readCalls fuel ws with
        | some a, some b, some (r, ws') => some (.setOption a b r, ws')
        | _, _, _ => none
      | ["en", nm] =>
        match textTok nm, readCalls fuel ws with
        | some a, some (r, ws') => some (.enable a r, ws')
        | _, _ => none
      | ["kp", nm, n] =>
        match textTok nm, readPairs n ws with
        | some a, some (ps, ws1) => (readCalls fuel ws1).map fun (r, ws') => (.kwPairs a ps r, ws')
        | _, _ => none
      | ["pr", nm, n] =>
        match textTok nm, readPairs n ws with
        | some a, some (ps, ws1) => (readCalls fuel ws1).map fun (r, ws') => (.pair a ps r, ws')
        | _, _ => none
      | ["hd", n] =>
        match readPairs n ws with
        | some (ps, ws1) => (readCalls fuel ws1).map fun (r, ws') => (.headerC ps r, ws')
        | none => none
      | ["pm", n] =>
        match readPairs n ws with
        | some (ps, ws1) => (readCalls fuel ws1).map fun (r, ws') => (.parameterC ps r, ws')
        | none => none
      | ["kb", nm] =>
        match textTok nm, readBlock fuel ws with
        | some a, some (b, ws1) => (readCalls fuel ws1).map fun (r, ws') => (.kwBlock a b r, ws')
        | _, _ => none
      | ["cb", nm] =>
        match textTok nm, readBlock fuel ws with
        | some a, some (b, ws1) => (readCalls fuel ws1).map fun (r, ws') => (.setConfigBlock a b r, ws')
        | _, _ => none
      | ["ne", nm] =>
        match textTok nm, readBlock fuel ws with
        | some a, some (b, ws1) => (readCalls fuel ws1).map fun (r, ws') => (.setNonEmptyConfigBlock a b r, ws')
        | _, _ => none
      | _ => none
def readBlock : Nat → List String → Option (BlockV × List String)
  | 0, _ => none
  | _ + 1, [] => none
  | fuel + 1, w :: ws =>
    match w.toList with
    | 'C' :: rest =>
      match (String.ofList rest).toNat?, readCalls fuel ws with
      | some c, some (cs, ws') => some (.cls c cs, ws')
      | _, _ => none
    | 'D' :: 'T' :: rest =>
      match (String.ofList rest).toNat? with
      | some n => (readSteps n ws).map fun (s, ws') => (.dt s, ws')
      | none => none
    | 'E' :: 'X' :: rest =>
      match (String.ofList rest).toNat? with
      | some n => (readExec n ws).map fun (s, ws') => (.exec s, ws')
      | none => none
    | 'G' :: 'T' :: rest =>
      match (String.ofList rest).toNat? with
      | some n => (readGate n ws).map fun (s, ws') => (.gate s, ws')
      | none => none
    | _ => none
end

def readAllCalls (ws : List String) : Option Calls :=
  match readCalls (ws.length + 2) ws with
  | some (c, []) => some c
  | _ => none

/-- text of the profile and whether it parses back to the same tree -/
def textAndReparse (t : Tree) : String :=
  match asText G idc t with
  | none => "text none reparse=-"
  | some text =>
    let re := match parseText G text with
      | .ok d => toTree d == t
      | _ => false
    let valid := (derive G t).isSome
    s!"text {showText text} reparse={showBool re}" ++ (if re && !valid then " INCONSISTENT-derive" else "")

def buildOut (calls : Calls) : String :=
  match buildProfile API G calls with
  | .error e => "exc " ++ e.name
  | .ok t => s!"tree {showTree t} | {dictOfTree t} | {textAndReparse t}"

def bothOut (src : Text) (calls : Calls) : String :=
  match parseText G src, buildProfile API G calls with
  | .ok d, .ok t =>
    let t1 := toTree d
    let sameTree := t1 == t
    let sameText := asText G idc t1 == asText G idc t
    let d1 := asDictTree G LP t1
    let d2 := asDictTree G LP t
    s!"tree={showBool sameTree} text={showBool sameText} dict={showBool (d1 == d2)} | {dictOfTree t}"
  | .fail, _ => "exc LarkError"
  | .fuel, _ => "fuel"
  | _, .error e => "exc " ++ e.name

def itemTok (w : String) : Option Item' :=
  match w.toList with
  | 'p' :: rest => (textTok (String.ofList rest)).map Item'.plain
  | 'S' :: rest => (textTok (String.ofList rest)).map (Item'.token true)
  | 'O' :: rest => (textTok (String.ofList rest)).map (Item'.token false)
  | _ => none

def natsPath (s : String) : Option (List Nat) := natsTok s

/-- split a word list at the separator words `|` -/
def splitBar (ws : List String) : List (List String) :=
  let r := ws.foldr (fun w (acc : List String × List (List String)) =>
    if w == "|" then ([], acc.1 :: acc.2) else (w :: acc.1, acc.2)) ([], [])
  r.1 :: r.2

def rootKids (f : Forest → Forest) (t : Tree) : Tree := ⟨t.label, f t.kids⟩

def readOne (ws : List String) : Option Forest :=
  match readForest (ws.length + 1) 1 ws with
  | some (f, []) => some f
  | _ => none

inductive HOp where
  | op (o : Op)
  | bad

def readOp (ws : List String) : HOp :=
  match ws with
  | ["get"] => .op .access
  | ["prop"] => .op .access
  | ["opt", nm, v] =>
    match textTok nm, valTok v with
    | some a, some b => .op (.modify (rootKids fun k => Forest.append k (globalOptNode G a b)))
    | _, _ => .bad
  | "app" :: p :: sub =>
    match natsPath p, readOne sub with
    | some path, some f => .op (.modify (rootKids (appendAtF path f)))
    | _, _ => .bad
  | ["del", p] =>
    match natsPath p with
    | some path => .op (.modify (rootKids (deleteAtF path)))
    | none => .bad
  | "set" :: tw =>
    match readTree tw with
    | some t => .op (.modify fun _ => t)
    | none => .bad
  | _ => .bad

def histOut (t : Tree) (ops : List Op) : String :=
  let rs := runHist (H := Tree) id (asDictTree G LP) (PState.fresh t) ops
  " | ".intercalate (rs.map showOutcome) ++ " || fresh=" ++ String.ofList (List.replicate rs.length 'T')

/-! ### `g-*` streams: the definitions translated from the source -/

/-- the type name of the tokens that are not STRING tokens (the grammar has one more named terminal) -/
def tyOpt : Text → Text := fun _ => PyU.cps "OPTION"

def showVAtom : PyU.V → String
  | .str s => "s" ++ showText s
  | .bytes b => "b" ++ showBytes b
  | .inst c [_, .str s] => if c.cid == Gen.PyC2Prof.Token.cid then "T" ++ showText s else "?atom"
  | _ => "?atom"

def showVValue : PyU.V → List String
  | .tuple xs => s!"t{xs.length}" :: xs.map showVAtom
  | v => [showVAtom v]

def showVEntries : List PyU.V → List PyU.V → List String
  | .str k :: ks, .list vs :: rest => (s!"K{showText k}:{vs.length}" :: vs.flatMap showVValue) ++ showVEntries ks rest
  | [], [] => []
  | _, _ => ["?dict"]

/-- a dictionary (a `dict`, or the `defaultdict` the walk builds) in the notation of `showDict` -/
def showVDict : PyU.V → String
  | .dict ks vs => " ".intercalate ("ok" :: showVEntries ks vs)
  | .inst c [.dict ks vs] => if c.cid == PyU.t11DdCls.cid then " ".intercalate ("ok" :: showVEntries ks vs) else "?dict"
  | _ => "?dict"

def showOutcomeG : Option (Py PyU.V) → String
  | none => "none"
  | some (.error e) => "exc " ++ e.name
  | some (.ok d) => showVDict d

/-- the translated walk over the items of a tree -/
def dictOfTreeG (t : Tree) : String :=
  showOutcomeG ((printItems G t).map (C11Gen.asDictWalkG tyOpt))

/-- a tree as a Python value: the text of its line notation; `hash(tree)` is that value itself -/
def encTreeV (t : Tree) : PyU.V := .str ((showTree t).toList.map Char.toNat)

def treeOfV : PyU.V → Option Tree
  | .str cs => readTree ((String.ofList (cs.map Char.ofNat)).splitOn " ")
  | _ => none

/-- `Reconstructor(c2profile_parser)._reconstruct(tree)`: the model's items; an unprintable tree is answered with a KeyError
(shown as `none`, see `histOutG`) -/
def reconG (v : PyU.V) : Py PyU.V :=
  match treeOfV v with
  | some t =>
    match printItems G t with
    | some items => .ok (C11Gen.encItems tyOpt items)
    | none => .error .keyError
  | none => .error .keyError

/-- the translated method with its external functions -/
def asDictG (obj : PyU.V) : Py PyU.V :=
  Gen.PyC2Dict.as_dict (fun v => .ok v) reconG (C11Gen.stbG 4000) obj

def histOutG (t : Tree) (ops : List Op) : String :=
  let rs := C11Gen.runHistG encTreeV asDictG t (C11Gen.profileV (encTreeV t) (.dict [] []) .none) ops
  -- the walk itself can raise KeyError only through the Reconstructor stand-in
  let one : Py PyU.V → String := fun r => match r with
    | .error .keyError => "none"
    | r => showOutcomeG (some r)
  " | ".intercalate (rs.map one) ++ " || fresh=" ++ String.ofList (List.replicate rs.length 'T')

def classesG : List PyU.Cls := [Gen.PyC2Prof.Token, Gen.PyC2Prof.StringIteratorCls, PyU.t11DdCls, Gen.PyC2Dict.C2ProfileCls]

def vTokG (s : String) : Option PyU.V := PyU.vTok (fun _ => none) (fun cid => classesG.find? (·.cid == cid)) s

def showB (b : Bool) : String := if b then "T" else "F"

open PyU in
def pyuStep : List String → String
  | [op, a] =>
    match vTokG a with
    | none => "bad-op"
    | some a =>
      match op with
      | "t11str" => showPy vShow (t11StrOf Gen.PyC2Prof.Token a)
      | "t11tuple" => showPy vShow (t11TupleOf Gen.PyC2Prof.Token a)
      | "t11repr" => showPy vShow (t11ReprV Gen.PyC2Prof.Token a)
      | "t11pop" => showPy (fun p => vShow (.tuple [p.1, p.2])) (t11Pop a)
      | "t11dict" => showPy vShow (t11DictOf a)
      | _ => "bad-op"
  | [op, a, b] =>
    match vTokG a, vTokG b with
    | some a, some b =>
      match op with
      | "t11eq" => "ok " ++ showB (t11Eq Gen.PyC2Prof.Token a b)
      | "t11in" => showPy showB (t11Contains Gen.PyC2Prof.Token a b)
      | "t11join" => showPy vShow (t11Join Gen.PyC2Prof.Token a b)
      | "t11extend" => showPy vShow (t11Extend Gen.PyC2Prof.Token a b)
      | _ => "bad-op"
    | _, _ => "bad-op"
  | [op, a, b, c] =>
    match vTokG a, vTokG b, vTokG c with
    | some a, some b, some c =>
      match op with
      | "t11ddappend" => showPy vShow (t11DdAppend a b c)
      | _ => "bad-op"
    | _, _, _ => "bad-op"
  | _ => "bad-op"

def gstep : List String → Option String
  | "gwalk" :: ws =>
    match ws.mapM itemTok with
    | none => some "bad-op"
    | some items => some (showOutcomeG (some (C11Gen.asDictWalkG tyOpt items)))
  | ["gsrc", s] =>
    match textTok s with
    | none => some "bad-op"
    | some src =>
      match parseText G src with
      | .fail => some "exc LarkError"
      | .fuel => some "fuel"
      | .ok d => some (dictOfTreeG (toTree d))
  | "gtree" :: ws =>
    match readTree ws with
    | none => some "bad-op"
    | some t => some (dictOfTreeG t)
  | "ghist" :: ws =>
    match splitBar ws with
    | tw :: opws =>
      match readTree tw with
      | none => some "bad-op"
      | some t =>
        let ops := opws.map readOp
        if ops.any (fun o => match o with | .bad => true | _ => false) then some "bad-op"
        else some (histOutG t (ops.filterMap fun o => match o with | .op x => some x | .bad => none))
    | [] => some "bad-op"
  | "gbuild" :: ws =>
    match readAllCalls ws with
    | none => some "bad-op"
    | some c =>
      match C11Gen.buildProfileG API c with
      | .error e => some ("exc " ++ e.name)
      | .ok obj =>
        match C11Gen.absTreeOf G obj with
        | some t => some s!"tree {showTree t}"
        | none => some "?tree"
  | ["garg", "dict", a] =>
    match vTokG a with
    | none => some "bad-op"
    | some v =>
      let r := Gen.PyC2Dict.as_dict (fun _ => .ok (.int 1)) (fun _ => .ok v) (C11Gen.stbG 4000) (C11Gen.profileV .none (.dict [] []) .none)
      some (showPy (fun x => match x with
        | .tuple [d, _] => PyU.vShow d
        | other => "?" ++ PyU.vShow other) r)
  | "pyu" :: rest => some (pyuStep rest)
  | _ => none

def driverStepM : List String → String
  | ["src", s] =>
    match textTok s with
    | none => "bad-op"
    | some src =>
      match parseText G src with
      | .fail => "exc LarkError"
      | .fuel => "fuel"
      | .ok d => dictOfTree (toTree d)
  | "tree" :: ws =>
    match readTree ws with
    | none => "bad-op"
    | some t => dictOfTree t
  | "walk" :: ws =>
    match ws.mapM itemTok with
    | none => "bad-op"
    | some items => showOutcome (some (asDict LP items))
  | "build" :: ws =>
    match readAllCalls ws with
    | none => "bad-op"
    -- `num=T`: with a number / boolean given to `set_option` the harness also builds the calls with `str(value)` in its place and
    -- reports whether the trees agree; in the model both are the same `Calls`
    | some c =>
      let o := buildOut c
      if ws.any isNumSo && !o.startsWith "exc " then o ++ " | num=T" else o
  | "both" :: s :: ws =>
    match textTok s, readAllCalls ws with
    | some src, some c => bothOut src c
    | _, _ => "bad-op"
  | "hist" :: ws =>
    match splitBar ws with
    | tw :: opws =>
      match readTree tw with
      | none => "bad-op"
      | some t =>
        let ops := opws.map readOp
        if ops.any (fun o => match o with | .bad => true | _ => false) then "bad-op"
        else histOut t (ops.filterMap fun o => match o with | .op x => some x | .bad => none)
    | [] => "bad-op"
  | ["v2s", v] =>
    match valTok v with
    | some x => showText (valueToString x)
    | none => "bad-op"
  | _ => "bad-op"

def driverStep (ws : List String) : String :=
  match gstep ws with
  | some r => r
  | none => driverStepM ws

end C11

import CsVerif.Model.C02
/-! Line-protocol driver for the C02 model.

ops:
* `parse x<block>`                → `ok <n> <idx>:<type>:<len>:<D|B>:x<value> … | enums l… | max <n>|exc ValueError`
* `views x<block> l<raising>`     → the 12 `settings_map` combinations and the 4 cached views, pretty functions being the
                                    tagging stub `P<idx>(<arg>)` (raising ValueError for the listed indices)
* `real x<block>`                 → the same 16 mappings with every pretty result masked as `P`
* `hist x<block> l<raising> l<ops>` → the answers of a sequence of accesses on ONE object (model with cache attributes),
                                    op ids: 0-3 raw_settings, raw_settings_by_index, settings, settings_by_index;
                                    4-15 settings_map (name,const,enum)×(pretty F,T)×(parse F,T); 16 setting_enums;
                                    17 max_setting_enum; 18 settings_tuple; followed by the state of the four cache attributes
-/
namespace C02
open Proto

def showSetting (s : Setting) : String :=
  s!"{s.index}:{s.type}:{s.length}:{if s.deprecated then "D" else "B"}:{showBytes s.value}"

def showParsed (ss : List Setting) : String :=
  let m := match maxSettingEnum ss with
    | .ok n => toString n
    | .error e => "exc " ++ e.name
  s!"ok {ss.length} {" ".intercalate (ss.map showSetting)} | enums {showNats (settingEnums ss)} | max {m}"

/-- checksum used to abbreviate long byte values in the `views` output (same formula in the harness) -/
def ck (b : Bytes) : Nat := b.foldl (fun a x => (a * 31 + x.toNat) % 4294967296) 7

def showVal (mask : Bool) : Val → String
  | .int n => "i" ++ toString n
  | .bytes b => if b.length ≤ 8 then showBytes b else s!"b{b.length}.{ck b}"
  | .opaque t a => if mask then "P" else s!"P{t}({showVal mask a})"

def showKey : Key → String
  | .name s => String.ofList (s.map fun b => Char.ofNat b.toNat)
  | .const n => toString n
  | .enum d n => (if d then "D" else "B") ++ toString n

def showMap (mask : Bool) : Py (List (Key × Val)) → String
  | .error e => "exc " ++ e.name
  | .ok m => "[" ++ ";".intercalate (m.map fun (k, v) => showKey k ++ "=" ++ showVal mask v) ++ "]"

def stub (raising : List Nat) (i : Nat) (v : Val) : Py Val :=
  if raising.contains i then .error .valueError else .ok (.opaque i v)

def allMaps (mask : Bool) (raising : List Nat) (ss : List Setting) : String :=
  let c := stub raising
  let combos : List String :=
    [IndexType.name, IndexType.const, IndexType.enum].flatMap fun it =>
      [false, true].flatMap fun pretty =>
        [false, true].map fun parse =>
          showMap mask (settingsMap c ss it pretty parse)
  let views := [showMap mask (rawSettings c ss), showMap mask (rawSettingsByIndex c ss),
                showMap mask (settings c ss), showMap mask (settingsByIndex c ss)]
  " | ".intercalate (combos ++ views)

def opOfNat (n : Nat) : Option Op :=
  match n with
  | 0 => some .rawSettings
  | 1 => some .rawSettingsByIndex
  | 2 => some .settings
  | 3 => some .settingsByIndex
  | 16 => some .settingEnums
  | 17 => some .maxSettingEnum
  | 18 => some .settingsTuple
  | n =>
    if 4 ≤ n ∧ n < 16 then
      let k := n - 4
      let it := if k / 4 = 0 then IndexType.name else if k / 4 = 1 then IndexType.const else IndexType.enum
      some (.settingsMap it (k / 2 % 2 = 1) (k % 2 = 1))
    else none

def showAnswer : Answer → String
  | .map m => showMap false m
  | .enums l => "enums " ++ showNats l
  | .max (.ok n) => s!"max {n}"
  | .max (.error e) => "max exc " ++ e.name
  | .tuple ss => s!"tuple {ss.length} {" ".intercalate (ss.map showSetting)}"

def showSlot (o : Option (List (Key × Val))) : String := if o.isSome then "M" else "N"

def showHistory (raising : List Nat) (ss : List Setting) (ops : List Op) : String :=
  let r := runHistory (stub raising) ss {} ops
  let c := r.2
  " || ".intercalate (r.1.map showAnswer) ++
    s!" || cache {showSlot c.rawSettings}{showSlot c.rawSettingsByIndex}{showSlot c.settings}{showSlot c.settingsByIndex}"

def step : List String → String
  | ["parse", d] =>
    match bytesTok d with
    | some d =>
      match iterSettingsE d with
      | .ok ss => showParsed ss
      | .error e => "exc " ++ e.name
    | none => "bad-op"
  | ["views", d, r] =>
    match bytesTok d, natsTok r with
    | some d, some r =>
      match iterSettingsE d with
      | .ok ss => allMaps false r ss
      | .error e => "exc " ++ e.name
    | _, _ => "bad-op"
  | ["hist", d, r, o] =>
    match bytesTok d, natsTok r, natsTok o with
    | some d, some r, some o =>
      match o.mapM opOfNat, iterSettingsE d with
      | some ops, .ok ss => showHistory r ss ops
      | none, _ => "bad-op"
      | _, .error e => "exc " ++ e.name
    | _, _, _ => "bad-op"
  | ["real", d] =>
    match bytesTok d with
    | some d =>
      match iterSettingsE d with
      | .ok ss => allMaps true [] ss
      | .error e => "exc " ++ e.name
    | none => "bad-op"
  | _ => "bad-op"

end C02

import CsVerif.Model.C02
import CsVerif.Model.C02Gen
import CsVerif.Model.PyUShow
/-! Line-protocol driver for the C02 model.

ops:
* `parse x<block>`                → `ok <n> <idx>:<type>:<len>:<D|B>:x<value> … | enums l… | max <n>|exc ValueError`
* `views x<block> l<raising>`     → the 12 `settings_map` combinations and the 4 cached views, pretty functions being the
                                    tagging stub `P<idx>(<arg>)` (raising ValueError for the listed indices)
* `real x<block>`                 → the same 16 mappings with every pretty result masked as `P`
* `hist x<block> l<raising> l<ops>` → the answers of a sequence of accesses on ONE object (model with cache attributes),
                                    op ids: 0-3 raw_settings, raw_settings_by_index, settings, settings_by_index;
                                    4-15 settings_map (name,const,enum)×(pretty F,T)×(parse F,T); 16 setting_enums;
                                    17 max_setting_enum; 18 settings_tuple; followed by the state of the four cache attributes
* `gparse` / `gviews` / `greal` / `ghist` → the same cases answered by the definitions TRANSLATED from the source of `iter_settings`,
                                    `BeaconConfig.__init__`, `settings_map`, `setting_enums`, `max_setting_enum` and the four view
                                    properties (Gen/PyBeaconCfg.lean; calling a pretty function = the tagging stub), rendered from
                                    `PyU.V` in the same formats (`ghist`: the per-instance cache is not translated — every access is
                                    answered by the uncached definition, the cache line is left out); a value of an unexpected
                                    shape is rendered `?…`
* `gis <fobj>`                    → translated `iter_settings(fobj)` for an argument of any kind (notation of Model/PyUShow.lean)
* `gsm x<block> l<raising> <index_type> <pretty> <parse>` → translated `settings_map` for arguments of any kind
* `pyu <op> <operands>`           → one operation of `Model/PyU_T02.lean` on operands in the notation of Model/PyUShow.lean
-/
namespace C02
open Proto

def showSetting (s : Setting) : String :=
  s!"{s.index}:{s.type}:{s.length}:{if s.deprecated then "D" else "B"}:{showBytes s.value}"

def showParsed (ss : List Setting) : String :=
  let m := match maxSettingEnum ss with
    | .ok n => toString n
    | .error e => "exc " ++ e.name
  s!"ok {ss.length} {" ".intercalate (ss.map showSetting)} | enums {showNats (settingEnums ss)} | max {m}"

/-- checksum used to abbreviate long byte values in the `views` output (same formula in the harness) -/
def ck (b : Bytes) : Nat := b.foldl (fun a x => (a * 31 + x.toNat) % 4294967296) 7

def showVal (mask : Bool) : Val → String
  | .int n => "i" ++ toString n
  | .bytes b => if b.length ≤ 8 then showBytes b else s!"b{b.length}.{ck b}"
  | .opaque t a => if mask then "P" else s!"P{t}({showVal mask a})"

def showKey : Key → String
  | .name s => String.ofList (s.map fun b => Char.ofNat b.toNat)
  | .const n => toString n
  | .enum d n => (if d then "D" else "B") ++ toString n

def showMap (mask : Bool) : Py (List (Key × Val)) → String
  | .error e => "exc " ++ e.name
  | .ok m => "[" ++ ";".intercalate (m.map fun (k, v) => showKey k ++ "=" ++ showVal mask v) ++ "]"

def stub (raising : List Nat) (i : Nat) (v : Val) : Py Val :=
  if raising.contains i then .error .valueError else .ok (.opaque i v)

def allMaps (mask : Bool) (raising : List Nat) (ss : List Setting) : String :=
  let c := stub raising
  let combos : List String :=
    [IndexType.name, IndexType.const, IndexType.enum].flatMap fun it =>
      [false, true].flatMap fun pretty =>
        [false, true].map fun parse =>
          showMap mask (settingsMap c ss it pretty parse)
  let views := [showMap mask (rawSettings c ss), showMap mask (rawSettingsByIndex c ss),
                showMap mask (settings c ss), showMap mask (settingsByIndex c ss)]
  " | ".intercalate (combos ++ views)

def opOfNat (n : Nat) : Option Op :=
  match n with
  | 0 => some .rawSettings
  | 1 => some .rawSettingsByIndex
  | 2 => some .settings
  | 3 => some .settingsByIndex
  | 16 => some .settingEnums
  | 17 => some .maxSettingEnum
  | 18 => some .settingsTuple
  | n =>
    if 4 ≤ n ∧ n < 16 then
      let k := n - 4
      let it := if k / 4 = 0 then IndexType.name else if k / 4 = 1 then IndexType.const else IndexType.enum
      some (.settingsMap it (k / 2 % 2 = 1) (k % 2 = 1))
    else none

def showAnswer : Answer → String
  | .map m => showMap false m
  | .enums l => "enums " ++ showNats l
  | .max (.ok n) => s!"max {n}"
  | .max (.error e) => "max exc " ++ e.name
  | .tuple ss => s!"tuple {ss.length} {" ".intercalate (ss.map showSetting)}"

def showSlot (o : Option (List (Key × Val))) : String := if o.isSome then "M" else "N"

def showHistory (raising : List Nat) (ss : List Setting) (ops : List Op) : String :=
  let r := runHistory (stub raising) ss {} ops
  let c := r.2
  " || ".intercalate (r.1.map showAnswer) ++
    s!" || cache {showSlot c.rawSettings}{showSlot c.rawSettingsByIndex}{showSlot c.settings}{showSlot c.settingsByIndex}"

/-! ### `g-*` streams: the translated definitions -/
section Gen
open PyU (V)
open Gen.PyBeaconCfg

def gFuel (d : Bytes) : Nat := d.length + 1

def vSetting? : V → Option Setting
  | .inst c [.enum ci i, .enum ct t, .int l, .bytes v] =>
    if c == SettingCls && ct == SettingsType && 0 ≤ i && 0 ≤ t && 0 ≤ l then
      if ci == BeaconSetting then some { index := i.toNat, type := t.toNat, length := l.toNat, value := v }
      else if ci == DeprecatedBeaconSetting then some { index := i.toNat, type := t.toNat, length := l.toNat, value := v, deprecated := true }
      else none
    else none
  | _ => none

def vKey? : V → Option Key
  | .str cs => some (.name (cs.map UInt8.ofNat))
  | .int n => if 0 ≤ n then some (.const n.toNat) else none
  | .enum c n =>
    if 0 ≤ n then
      if c == BeaconSetting then some (.enum false n.toNat)
      else if c == DeprecatedBeaconSetting then some (.enum true n.toNat) else none
    else none
  | _ => none

def vVal? : V → Option Val
  | .int n => if 0 ≤ n then some (.int n.toNat) else none
  | .bytes b => some (.bytes b)
  | .inst c [.int t, .int n] => if c == C02Gen.OpaqueCls && 0 ≤ t && 0 ≤ n then some (.opaque t.toNat (.int n.toNat)) else none
  | .inst c [.int t, .bytes b] => if c == C02Gen.OpaqueCls && 0 ≤ t then some (.opaque t.toNat (.bytes b)) else none
  | _ => none

def vMap? : V → Option (List (Key × Val))
  | .dict ks vs =>
    if ks.length == vs.length then (ks.zip vs).mapM fun kv => do
      let k ← vKey? kv.1
      let v ← vVal? kv.2
      pure (k, v)
    else none
  | _ => none

def gShowMap (mask : Bool) : Py V → String
  | .error e => "exc " ++ e.name
  | .ok v =>
    match vMap? v with
    | some m => showMap mask (.ok m)
    | none => "?map"

def vNats? : V → Option (List Nat)
  | .list xs => xs.mapM fun x => match x with | .int n => if 0 ≤ n then some n.toNat else none | _ => none
  | _ => none

def gSettings? (cfg : V) : Option (List Setting) :=
  match PyU.getAttr cfg "settings_tuple" with
  | .ok (.tuple xs) => xs.mapM vSetting?
  | _ => none

def gEnums (cfg : V) : String :=
  match setting_enums cfg with
  | .ok v => (match vNats? v with | some l => showNats l | none => "?enums")
  | .error e => "exc " ++ e.name

def gMax (cfg : V) : String :=
  match max_setting_enum cfg with
  | .ok (.int n) => toString n
  | .ok _ => "?max"
  | .error e => "exc " ++ e.name

def gParsed (cfg : V) : String :=
  match gSettings? cfg with
  | some ss => s!"ok {ss.length} {" ".intercalate (ss.map showSetting)} | enums {gEnums cfg} | max {gMax cfg}"
  | none => "?config"

def gAllMaps (mask : Bool) (raising : List Nat) (cfg : V) : String :=
  let cv := C02Gen.callX (stub raising)
  let its : List V := [PyU.lit "name", PyU.lit "const", PyU.lit "enum"]
  let combos : List String :=
    its.flatMap fun it =>
      [false, true].flatMap fun pretty =>
        [false, true].map fun parse =>
          gShowMap mask (settings_map cv cfg it (.bool pretty) (.bool parse))
  let views := [gShowMap mask (raw_settings cv cfg), gShowMap mask (raw_settings_by_index cv cfg),
                gShowMap mask (Gen.PyBeaconCfg.settings cv cfg), gShowMap mask (settings_by_index cv cfg)]
  " | ".intercalate (combos ++ views)

def gAnswer (raising : List Nat) (cfg : V) (n : Nat) : String :=
  let cv := C02Gen.callX (stub raising)
  match n with
  | 0 => gShowMap false (raw_settings cv cfg)
  | 1 => gShowMap false (raw_settings_by_index cv cfg)
  | 2 => gShowMap false (Gen.PyBeaconCfg.settings cv cfg)
  | 3 => gShowMap false (settings_by_index cv cfg)
  | 16 => "enums " ++ gEnums cfg
  | 17 => "max " ++ gMax cfg
  | 18 =>
    match gSettings? cfg with
    | some ss => s!"tuple {ss.length} {" ".intercalate (ss.map showSetting)}"
    | none => "?config"
  | n =>
    let k := n - 4
    let it : V := if k / 4 = 0 then PyU.lit "name" else if k / 4 = 1 then PyU.lit "const" else PyU.lit "enum"
    gShowMap false (settings_map cv cfg it (.bool (k / 2 % 2 = 1)) (.bool (k % 2 = 1)))

def enumOf (cid : Nat) : Option PyU.EnumCls := [BeaconSetting, SettingsType, DeprecatedBeaconSetting].find? (·.cid == cid)
def clsOf (cid : Nat) : Option PyU.Cls := [SettingCls, PrettyFn, BeaconConfig, C02Gen.OpaqueCls].find? (·.cid == cid)
def vTok (s : String) : Option V := PyU.vTok enumOf clsOf s

def strOf? : V → Option String
  | .str cs => some (String.ofList (cs.map Char.ofNat))
  | _ => none

def fuelOf : V → Nat
  | .bytes d => d.length + 1
  | .bytesIO d _ => d.length + 1
  | _ => 1

open PyU in
def pyuStep : List String → String
  | [op, a] =>
    match vTok a with
    | none => "bad-op"
    | some a =>
      match op with
      | "structread" => showPy (fun r => vShow (.tuple [r.1, r.2])) (structRead Gen.PyBeaconCfg.Setting a)
      | "strof" => showPy vShow (PyU.strOf enumNames a)
      | "tupleof" => showPy vShow (tupleOf a)
      | "mappingproxy" => showPy vShow (mappingProxy a)
      | "maxof" => showPy vShow (maxOf a)
      | _ => "bad-op"
  | [op, a, b, c] =>
    match vTok a, vTok b, vTok c with
    | some a, some b, some c =>
      match op with
      | "seek" => showPy (fun r => vShow (.tuple [r.1, r.2])) (bioSeek a b c)
      | "strreplace" => showPy vShow (strReplace a b c)
      | "setattr" =>
        match strOf? b with
        | some n => showPy vShow (instSetAttr a n c)
        | none => "bad-op"
      | _ => "bad-op"
    | _, _, _ => "bad-op"
  | _ => "bad-op"

def gstep : List String → String
  | ["gparse", d] =>
    match bytesTok d with
    | some d => (match beacon_config_init (gFuel d) (.bytes d) with | .ok cfg => gParsed cfg | .error e => "exc " ++ e.name)
    | none => "bad-op"
  | ["gviews", d, r] =>
    match bytesTok d, natsTok r with
    | some d, some r => (match beacon_config_init (gFuel d) (.bytes d) with | .ok cfg => gAllMaps false r cfg | .error e => "exc " ++ e.name)
    | _, _ => "bad-op"
  | ["greal", d] =>
    match bytesTok d with
    | some d => (match beacon_config_init (gFuel d) (.bytes d) with | .ok cfg => gAllMaps true [] cfg | .error e => "exc " ++ e.name)
    | none => "bad-op"
  | ["ghist", d, r, o] =>
    match bytesTok d, natsTok r, natsTok o with
    | some d, some r, some o =>
      if o.all (· < 19) then
        match beacon_config_init (gFuel d) (.bytes d) with
        | .ok cfg => " || ".intercalate (o.map (gAnswer r cfg))
        | .error e => "exc " ++ e.name
      else "bad-op"
    | _, _, _ => "bad-op"
  | ["gis", a] =>
    match vTok a with
    | some a => showPy PyU.vShow (iter_settings (fuelOf a) a)
    | none => "bad-op"
  | ["gsm", d, r, it, p, q] =>
    match bytesTok d, natsTok r, vTok it, vTok p, vTok q with
    | some d, some r, some it, some p, some q =>
      match beacon_config_init (gFuel d) (.bytes d) with
      | .ok cfg => gShowMap false (settings_map (C02Gen.callX (stub r)) cfg it p q)
      | .error e => "exc " ++ e.name
    | _, _, _, _, _ => "bad-op"
  | "pyu" :: rest => pyuStep rest
  | _ => "bad-op"

end Gen

def step : List String → String
  | ["parse", d] =>
    match bytesTok d with
    | some d =>
      match iterSettingsE d with
      | .ok ss => showParsed ss
      | .error e => "exc " ++ e.name
    | none => "bad-op"
  | ["views", d, r] =>
    match bytesTok d, natsTok r with
    | some d, some r =>
      match iterSettingsE d with
      | .ok ss => allMaps false r ss
      | .error e => "exc " ++ e.name
    | _, _ => "bad-op"
  | ["hist", d, r, o] =>
    match bytesTok d, natsTok r, natsTok o with
    | some d, some r, some o =>
      match o.mapM opOfNat, iterSettingsE d with
      | some ops, .ok ss => showHistory r ss ops
      | none, _ => "bad-op"
      | _, .error e => "exc " ++ e.name
    | _, _, _ => "bad-op"
  | ["real", d] =>
    match bytesTok d with
    | some d =>
      match iterSettingsE d with
      | .ok ss => allMaps true [] ss
      | .error e => "exc " ++ e.name
    | none => "bad-op"
  | ws => gstep ws

end C02

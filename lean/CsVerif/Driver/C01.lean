import CsVerif.Model.C01
/-! Line-protocol driver for the C01 model.

  ext    <b|F|f> <B> <allkeys T|F> <keys> <data> <expect>     → ok <xorkey> <T|F> <len>.<ck> <n> <setting>… [guard <key> <bco> <gco> <checksum>] | exc <E>
         `BeaconConfig.from_bytes / from_file` (`b`, `F<pos>` = io.BytesIO, the latter standing at `pos` when passed in) or `from_path` (`f` = OS file):
         `C01.fromFileReal` — the function the end-to-end theorems of `Props/C01.lean` are about (detector, both search
         phases, computed residual key order, Guardrails fallback); the `guard …` suffix is present for a Guardrails
         recovery (`bconfig.guardrails`: environmental key, offsets, stored checksum);
         `<expect>` (ground truth of the harness' builder) is ignored here.
  blocks <b|f> <B> <xordecode T|F> <allkeys T|F> <keys> <data> → <n> (<xorkey>:<T|F>:<len>.<ck>)* end | … exc <E>
         `iter_beacon_config_blocks` run to completion (`xordecode=F` only with `allkeys=F`)
  spec   b <B> <allkeys T|F> <keys> <data> <expect>           → the same line as `ext`, computed by `extractSpec`
                                                                (declarative right-hand side of `C01.extract_first`)
  left   <b|f> <B> <keys> <data>                              → the residual key order as hex, or exc

  <keys>: `none`, or `K` followed by comma-separated hex keys (`-` = the empty bytes object), `K` alone = `[]`.
-/
namespace C01
open Proto

/-- `b` = from_bytes, `F<pos>` = from_file on a BytesIO standing at `pos`, `f` = from_path (OS file) -/
def kindTok (s : String) : Option (FileKind × Nat) :=
  if s == "b" then some (.bytesIO, 0)
  else if s == "f" then some (.osFile, 0)
  else
    match s.toList with
    | 'F' :: rest => if rest.isEmpty then some (.bytesIO, 0) else (String.ofList rest).toNat?.map fun p => (.bytesIO, p)
    | _ => none

def keyTok (s : String) : Option Bytes :=
  if s == "-" then some [] else Hex.decode s

/-- `none` and `K` both give `[]` on the model side (`xor_keys or DEFAULT_XOR_KEYS`) -/
def keysTok (s : String) : Option (List Bytes) :=
  if s == "none" then some []
  else
    match s.toList with
    | 'K' :: rest =>
      let body := String.ofList rest
      if body.isEmpty then some [] else (body.splitOn ",").mapM keyTok
    | _ => none

def ck (b : Bytes) : Nat := b.foldl (fun a x => (a * 31 + x.toNat) % 4294967296) 7

def showBlk (b : Bytes) : String := s!"{b.length}.{ck b}"

def showSetting (s : C02.Setting) : String :=
  s!"{s.index}:{s.type}:{s.length}:{if s.deprecated then "D" else "B"}:{if s.value.length ≤ 16 then showBytes s.value else showBlk s.value}"

def showResult (r : Result) : String :=
  let ss := settingsTuple r
  " ".intercalate ([showBytes r.xorkey, showBool r.xorencoded, showBlk r.block, toString ss.length] ++ ss.map showSetting)

def showYield (r : Result) : String := s!"{showBytes r.xorkey}:{showBool r.xorencoded}:{showBlk r.block}"

/-- detector answer and the position a failed detection leaves behind -/
def detOf (B : Nat) (f : PyFile) : Py (Option Nat × Nat) :=
  match detectRun B f with
  | .error e => .error e
  | .ok (some x, f') => .ok (some x.nonceOff, f'.pos)
  | .ok (none, f') => .ok (none, f'.pos)

def showOptBytes : Option Bytes → String
  | none => "none"
  | some b => showBytes b

def showExtracted (x : Extracted) : String :=
  let ss := x.settings
  let base := [showBytes x.xorkey, showBool x.xorencoded, showBlk x.block, toString ss.length] ++ ss.map showSetting
  " ".intercalate (base ++
    match x.guardrails with
    | none => []
    | some m => ["guard", showOptBytes m.payloadXorKey, toString m.beaconConfigOffset, toString m.guardConfigOffset,
                 toString m.checksum])

def runBlocks (B : Nat) (f : PyFile) (keys : List Bytes) (xordecode allKeys : Bool) : Py Blocks :=
  match detOf B f with
  | .error e => .error e
  | .ok (det, failPos) =>
    if !xordecode then .ok (pass B f (effKeys keys) false none)
    else if !allKeys then .ok (iterConfigBlocks B f keys false det [])
    else
      match leftKeys B f det failPos keys with
      | .error e => .error e
      | .ok left => .ok (iterConfigBlocks B f keys true det left)

def showBlocks (b : Blocks) : String :=
  " ".intercalate ([toString b.1.length] ++ b.1.map showYield ++
    [match b.2 with | none => "end" | some e => "exc " ++ e.name])

def step : List String → String
  | ["ext", k, b, ak, ks, d, _expect] =>
    match kindTok k, natTok b, boolTok ak, keysTok ks, bytesTok d with
    | some k, some b, some ak, some ks, some d =>
      if b = 0 then "bad-op" else showPy showExtracted (fromFileReal b { data := d, pos := k.2, kind := k.1 } ks ak)
    | _, _, _, _, _ => "bad-op"
  | ["blocks", k, b, xd, ak, ks, d] =>
    match kindTok k, natTok b, boolTok xd, boolTok ak, keysTok ks, bytesTok d with
    | some k, some b, some xd, some ak, some ks, some d =>
      if b = 0 ∨ (!xd ∧ ak) then "bad-op"
      else
        match runBlocks b { data := d, pos := k.2, kind := k.1 } ks xd ak with
        | .ok r => showBlocks r
        | .error e => "exc " ++ e.name
    | _, _, _, _, _, _ => "bad-op"
  | ["spec", _k, _b, ak, ks, d, _expect] =>
    match boolTok ak, keysTok ks, bytesTok d with
    | some ak, some ks, some d =>
      let f : PyFile := { data := d }
      match detOf 8192 f with
      | .error e => "exc " ++ e.name
      | .ok (det, failPos) =>
        match (if ak then leftKeys 8192 f det failPos ks else .ok []) with
        | .error e => "exc " ++ e.name
        | .ok left => showPy showResult (extractSpec d ks ak det left none)
    | _, _, _ => "bad-op"
  | ["left", k, b, ks, d] =>
    match kindTok k, natTok b, keysTok ks, bytesTok d with
    | some k, some b, some ks, some d =>
      if b = 0 then "bad-op"
      else
        let f : PyFile := { data := d, pos := k.2, kind := k.1 }
        match detOf b f with
        | .error e => "exc " ++ e.name
        | .ok (det, failPos) =>
          match leftKeys b f det failPos ks with
          | .error e => "exc " ++ e.name
          | .ok left => showBytes left.flatten
    | _, _, _, _ => "bad-op"
  | _ => "bad-op"

end C01

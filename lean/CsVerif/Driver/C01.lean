import CsVerif.Model.C01
import CsVerif.Model.C01Gen
/-! Line-protocol driver for the C01 model.

  ext    <b|F|f> <B> <allkeys T|F> <keys> <data> <expect>     → ok <xorkey> <T|F> <len>.<ck> <n> <setting>… [guard <key> <bco> <gco> <checksum>] | exc <E>
         `BeaconConfig.from_bytes / from_file` (`b`, `F<pos>` = io.BytesIO, the latter standing at `pos` when passed in) or `from_path` (`f` = OS file):
         `C01.fromFileReal` — the function the end-to-end theorems of `Props/C01.lean` are about (detector, both search
         phases, computed residual key order, Guardrails fallback); the `guard …` suffix is present for a Guardrails
         recovery (`bconfig.guardrails`: environmental key, offsets, stored checksum);
         `<expect>` (ground truth of the harness' builder) is ignored here.
  blocks <b|f> <B> <xordecode T|F> <allkeys T|F> <keys> <data> → <n> (<xorkey>:<T|F>:<len>.<ck>)* end | … exc <E>
         `iter_beacon_config_blocks` run to completion (`xordecode=F` only with `allkeys=F`)
  spec   b <B> <allkeys T|F> <keys> <data> <expect>           → the same line as `ext`, computed by `extractSpec`
                                                                (declarative right-hand side of `C01.extract_first`)
  left   <b|f> <B> <keys> <data>                              → the residual key order as hex, or exc

  <keys>: `none`, or `K` followed by comma-separated hex keys (`-` = the empty bytes object), `K` alone = `[]`.

  TRANSLATED definitions (Gen/PyExtract.lean, first-yield forms; `relevant: False`):
  g-ext   <b|F<pos>|f> <B> <allkeys T|F> <keys> <data>         → ok <xorkey> <T|F> <len>.<ck> <n> [guard <key> <bco> <gco> <checksum>] | exc <E>
         `BeaconConfig.from_file` through the translated definition (`C01Gen.fromFileG`: detector, key order, Guardrails scan supplied
         by the model, `BeaconConfig(config_block)` by the translated constructor, PE artifacts stubbed)
  g-first <b|F<pos>|f> <B> <allkeys T|F> <keys> <data>         → ok <xorkey>:<T|F>:<len>.<ck> | none | exc <E>
         `next(iter_beacon_config_blocks(fobj, xor_keys, all_xor_keys=…), None)` through the translated definition, the detector and
         the residual key order supplied by the model (`C01Gen.blocksFirstG`)
  g-find  <b|F<pos>|f> <B> <view T|F> <key> <data>             → ok <len>.<ck> <tell> | none | noview | exc <E>
         `next(find_beacon_config_bytes(fh, key), None)` and `fh.tell()` afterwards, `fh` = the file itself or (`view = T`) the
         XorEncodedFile view `XorEncodedFile.from_file` returns for it (`noview`: ValueError)
  g-left  <b|f> <B> <keys> <data>                              → the residual key order as hex, through the statements TRANSLATED from the
         source (`C01Gen.leftKeysG`: make_byte_list, the 4-gram Counter loop, most_common, p8, the sort by `.index`)
  pyu hex <bytes> / pyu hexn <kind>                            → `x.hex()` (Model/PyU_T01.lean `t01Hex`)
-/
namespace C01
open Proto

/-- `b` = from_bytes, `F<pos>` = from_file on a BytesIO standing at `pos`, `f` = from_path (OS file) -/
def kindTok (s : String) : Option (FileKind × Nat) :=
  if s == "b" then some (.bytesIO, 0)
  else if s == "f" then some (.osFile, 0)
  else
    match s.toList with
    | 'F' :: rest => if rest.isEmpty then some (.bytesIO, 0) else (String.ofList rest).toNat?.map fun p => (.bytesIO, p)
    | _ => none

def keyTok (s : String) : Option Bytes :=
  if s == "-" then some [] else Hex.decode s

/-- `none` and `K` both give `[]` on the model side (`xor_keys or DEFAULT_XOR_KEYS`) -/
def keysTok (s : String) : Option (List Bytes) :=
  if s == "none" then some []
  else
    match s.toList with
    | 'K' :: rest =>
      let body := String.ofList rest
      if body.isEmpty then some [] else (body.splitOn ",").mapM keyTok
    | _ => none

def ck (b : Bytes) : Nat := b.foldl (fun a x => (a * 31 + x.toNat) % 4294967296) 7

def showBlk (b : Bytes) : String := s!"{b.length}.{ck b}"

def showSetting (s : C02.Setting) : String :=
  s!"{s.index}:{s.type}:{s.length}:{if s.deprecated then "D" else "B"}:{if s.value.length ≤ 16 then showBytes s.value else showBlk s.value}"

def showResult (r : Result) : String :=
  let ss := settingsTuple r
  " ".intercalate ([showBytes r.xorkey, showBool r.xorencoded, showBlk r.block, toString ss.length] ++ ss.map showSetting)

def showYield (r : Result) : String := s!"{showBytes r.xorkey}:{showBool r.xorencoded}:{showBlk r.block}"

/-- detector answer and the position a failed detection leaves behind -/
def detOf (B : Nat) (f : PyFile) : Py (Option Nat × Nat) :=
  match detectRun B f with
  | .error e => .error e
  | .ok (some x, f') => .ok (some x.nonceOff, f'.pos)
  | .ok (none, f') => .ok (none, f'.pos)

def showOptBytes : Option Bytes → String
  | none => "none"
  | some b => showBytes b

def showExtracted (x : Extracted) : String :=
  let ss := x.settings
  let base := [showBytes x.xorkey, showBool x.xorencoded, showBlk x.block, toString ss.length] ++ ss.map showSetting
  " ".intercalate (base ++
    match x.guardrails with
    | none => []
    | some m => ["guard", showOptBytes m.payloadXorKey, toString m.beaconConfigOffset, toString m.guardConfigOffset,
                 toString m.checksum])

def runBlocks (B : Nat) (f : PyFile) (keys : List Bytes) (xordecode allKeys : Bool) : Py Blocks :=
  match detOf B f with
  | .error e => .error e
  | .ok (det, failPos) =>
    if !xordecode then .ok (pass B f (effKeys keys) false none)
    else if !allKeys then .ok (iterConfigBlocks B f keys false det [])
    else
      match leftKeys B f det failPos keys with
      | .error e => .error e
      | .ok left => .ok (iterConfigBlocks B f keys true det left)

def showBlocks (b : Blocks) : String :=
  " ".intercalate ([toString b.1.length] ++ b.1.map showYield ++
    [match b.2 with | none => "end" | some e => "exc " ++ e.name])

/-- `none` stays `None`; `K…` is a list -/
def keysOptTok (s : String) : Option (Option (List Bytes)) :=
  if s == "none" then some none else (keysTok s).map some

open PyU (V) in
/-- `ret0` of the translated `iter_beacon_config_blocks__first`: `None` or `((config_block, {"xorkey": k, "xorencoded": b}),)` -/
def showFirstV : V → String
  | .tuple [.none, _] => "none"
  | .tuple [.tuple [.tuple [.bytes blk, .dict _ [.bytes k, .bool e]]], _] => s!"ok {showBytes k}:{showBool e}:{showBlk blk}"
  | _ => "exc BadValue"

open PyU (V) in
/-- `tell()` of a file-like object -/
def tellV (v : V) : String :=
  match PyU.t01Tell v with
  | .ok (.int p, _) => toString p
  | _ => "?"

open PyU (V) in
def showFindV : Option V → String
  | none => "noview"
  | some (.tuple [.none, f]) => s!"none {tellV f}"
  | some (.tuple [.tuple [.bytes blk], f]) => s!"ok {showBlk blk} {tellV f}"
  | some _ => "exc BadValue"

open PyU (V) in
/-- the `BeaconConfig` object the translated `from_file` returns: `xorkey`, `xorencoded`, `config_block`, the number of settings and
the Guardrails record -/
def showCfgV : V → String
  | .tuple [.inst _ (.bytes blk :: .tuple ss :: key :: .bool e :: _ :: _ :: _ :: gr :: _), _] =>
    let k := match key with | .bytes k => showBytes k | _ => "none"
    let g := match gr with
      | .inst _ [.int bco, .int gco, _, _, _, _, _, .int ck, pk, _, _] =>
        s!" guard {match pk with | .bytes b => showBytes b | _ => "none"} {bco} {gco} {ck}"
      | _ => ""
    s!"ok {k} {showBool e} {showBlk blk} {ss.length}{g}"
  | _ => "exc BadValue"

def step : List String → String
  | ["g-ext", k, b, ak, ks, d] =>
    match kindTok k, natTok b, boolTok ak, keysOptTok ks, bytesTok d with
    | some k, some b, some ak, some ks, some d =>
      if b = 0 then "bad-op"
      else
        match C01Gen.fromFileG b { data := d, pos := k.2, kind := k.1 } ks ak with
        | .ok v => showCfgV v
        | .error e => "exc " ++ e.name
    | _, _, _, _, _ => "bad-op"
  | ["g-left", k, b, ks, d] =>
    match kindTok k, natTok b, keysTok ks, bytesTok d with
    | some k, some b, some ks, some d =>
      if b = 0 then "bad-op"
      else
        match C01Gen.leftKeysG b { data := d, pos := k.2, kind := k.1 } ks with
        | .ok v =>
          match C01Gen.decKeys v with
          | some l => showBytes l.flatten
          | none => "exc BadValue"
        | .error e => "exc " ++ e.name
    | _, _, _, _ => "bad-op"
  | ["g-first", k, b, ak, ks, d] =>
    match kindTok k, natTok b, boolTok ak, keysOptTok ks, bytesTok d with
    | some k, some b, some ak, some ks, some d =>
      if b = 0 then "bad-op"
      else
        match C01Gen.blocksFirstG b { data := d, pos := k.2, kind := k.1 } ks ak with
        | .ok v => showFirstV v
        | .error e => "exc " ++ e.name
    | _, _, _, _, _ => "bad-op"
  | ["pyu", "hex", d] =>
    match bytesTok d with
    | some d =>
      match PyU.t01Hex (.bytes d) with
      | .ok (.str t) => "ok " ++ String.ofList (t.map Char.ofNat)
      | .ok _ => "exc BadValue"
      | .error e => "exc " ++ e.name
    | none => "bad-op"
  | ["pyu", "hexn", kind] =>
    let v : Option PyU.V := match kind with
      | "none" => some .none | "int" => some (.int 5) | "str" => some (PyU.lit "ab") | "list" => some (.list [.int 1]) | "bool" => some (.bool true)
      | _ => none
    match v with
    | some v =>
      match PyU.t01Hex v with
      | .ok _ => "ok ?"
      | .error e => "exc " ++ e.name
    | none => "bad-op"
  | ["g-find", k, b, vw, key, d] =>
    match kindTok k, natTok b, boolTok vw, keyTok key, bytesTok d with
    | some k, some b, some vw, some key, some d =>
      if b = 0 then "bad-op"
      else
        match C01Gen.findFirstG b { data := d, pos := k.2, kind := k.1 } key vw with
        | .ok v => showFindV v
        | .error e => "exc " ++ e.name
    | _, _, _, _, _ => "bad-op"
  | ["ext", k, b, ak, ks, d, _expect] =>
    match kindTok k, natTok b, boolTok ak, keysTok ks, bytesTok d with
    | some k, some b, some ak, some ks, some d =>
      if b = 0 then "bad-op" else showPy showExtracted (fromFileReal b { data := d, pos := k.2, kind := k.1 } ks ak)
    | _, _, _, _, _ => "bad-op"
  | ["blocks", k, b, xd, ak, ks, d] =>
    match kindTok k, natTok b, boolTok xd, boolTok ak, keysTok ks, bytesTok d with
    | some k, some b, some xd, some ak, some ks, some d =>
      if b = 0 ∨ (!xd ∧ ak) then "bad-op"
      else
        match runBlocks b { data := d, pos := k.2, kind := k.1 } ks xd ak with
        | .ok r => showBlocks r
        | .error e => "exc " ++ e.name
    | _, _, _, _, _, _ => "bad-op"
  | ["spec", _k, _b, ak, ks, d, _expect] =>
    match boolTok ak, keysTok ks, bytesTok d with
    | some ak, some ks, some d =>
      let f : PyFile := { data := d }
      match detOf 8192 f with
      | .error e => "exc " ++ e.name
      | .ok (det, failPos) =>
        match (if ak then leftKeys 8192 f det failPos ks else .ok []) with
        | .error e => "exc " ++ e.name
        | .ok left => showPy showResult (extractSpec d ks ak det left none)
    | _, _, _ => "bad-op"
  | ["left", k, b, ks, d] =>
    match kindTok k, natTok b, keysTok ks, bytesTok d with
    | some k, some b, some ks, some d =>
      if b = 0 then "bad-op"
      else
        let f : PyFile := { data := d, pos := k.2, kind := k.1 }
        match detOf b f with
        | .error e => "exc " ++ e.name
        | .ok (det, failPos) =>
          match leftKeys b f det failPos ks with
          | .error e => "exc " ++ e.name
          | .ok left => showBytes left.flatten
    | _, _, _, _ => "bad-op"
  | _ => "bad-op"

end C01

import CsVerif.Model.C03
import CsVerif.Gen.PyBeacon
/-! Line-protocol driver for the C03 model (see tools/harness/c03.py for the matching renderers). -/
namespace C03
open Proto

def showList (items : List String) : String := "[" ++ ",".intercalate items ++ "]"

def showOptName : Option String → String
  | some n => n
  | none => "None"

def showStrHex (s : String) : String := "s" ++ Hex.encode s.toUTF8.toList

def showTOut (o : TOut) : String :=
  showOptName o.1 ++ "=" ++
    match o.2 with
    | .str s => showStrHex s
    | .flag => "T"
    | .bytes b => showBytes b

def showTransform (l : List TOut) : String := showList (l.map showTOut)

def showROut (o : String × RVal) : String :=
  o.1 ++ "=" ++ match o.2 with
    | .len n => toString n
    | .flag => "T"

def showRecover (l : List (String × RVal)) : String := showList (l.map showROut)

def showCps : Option (List Nat) → String
  | none => "none"
  | some [] => "e"
  | some cs => ".".intercalate (cs.map toString)

def showExecute (l : List (Option (List Nat))) : String := showList (l.map showCps)

def showInjT (l : List (String × Bytes)) : String := showList (l.map fun p => p.1 ++ "=" ++ showBytes p.2)

/-- insertion sort on strings (the Python side prints `sorted(set)`: code point order = byte order for ASCII) -/
def insertSorted (x : String) : List String → List String
  | [] => [x]
  | y :: ys => if x < y || x == y then x :: y :: ys else y :: insertSorted x ys

def sortStrings (l : List String) : List String := l.foldr insertSorted []

def showGate (g : List String × List String) : String :=
  showList g.1 ++ " {" ++ ",".intercalate (sortStrings g.2) ++ "}"

def showPVal : PVal → String
  | .int n => "i" ++ toString n
  | .bytes b => showBytes b
  | .lstr b => "s" ++ Hex.encode b
  | .text s => "t" ++ s
  | .optText s => match s with | some t => "t" ++ t | none => "None"
  | .recover l => showRecover l
  | .transform l => showTransform l
  | .execute l => showExecute l
  | .injTransform l => showInjT l
  | .gargle l => showList l
  | .gate g => showGate g

def showSVal : Option SVal → String
  | none => "None"
  | some (.int n) => "i" ++ toString n
  | some (.bytes b) => showBytes b

/-- `pre:digest` one-point SHA table (`-` = no entry): any other pre-image hashes to the empty string. -/
def shaTok (s : String) : Option (Bytes → Bytes) :=
  if s == "-" then some (fun _ => [])
  else
    match s.splitOn ":" with
    | [a, b] =>
      match bytesTok a, bytesTok b with
      | some pre, some dg => some (fun x => if x == pre then dg else [])
      | _, _ => none
    | _ => none

def settingsTok : List String → Option (List RawSetting)
  | [] => some []
  | i :: t :: v :: rest =>
    match natTok i, natTok t, bytesTok v, settingsTok rest with
    | some i, some t, some v, some r => some ({ index := i, type := t, value := v } :: r)
    | _, _, _, _ => none
  | _ => none

def showOptPy (f : α → String) : Option (Py α) → String
  | none => "unmodelled"
  | some r => showPy f r

def showOptBytes : Option Bytes → String
  | none => "none"
  | some b => showBytes b

def showDerived (cfg : List RawSetting) : String :=
  let pairs := showList ((domainUriPairs cfg).map fun p => showBytes p.1 ++ ":" ++ showOptBytes p.2)
  let us := showList ((uris cfg).map showOptBytes)
  let ds := showList ((domains cfg).map showBytes)
  let kd := showOptPy showOptName (killdate (fun _ => []) cfg)
  let kd := kd.replace " " "_"
  let pr := match protocol cfg with | none => "unmodelled" | some n => showOptName n
  let pk := match publicKey cfg with | none => "unmodelled" | some b => showBytes b
  s!"pairs={pairs} uris={us} domains={ds} kd={kd} proto={pr} port={showSVal (port cfg)} wm={showSVal (watermark cfg)} trial={showBool (isTrial cfg)} pk={pk}"

/-! ### `g-*` streams: the definitions TRANSLATED from the source (Gen/PyBeacon.lean), rendered from `PyU.V` in the format of
the corresponding hand-model stream; a value of an unexpected shape is rendered `?…` (and so differs from the real code) -/

open PyU (V) in
def vText : V → String
  | .str cs => String.ofList (cs.map Char.ofNat)
  | _ => "?text"

open PyU (V) in
def vList (f : V → String) : V → String
  | .list xs => showList (xs.map f)
  | _ => "?list"

open PyU (V) in
def vTrItem : V → String
  | .tuple [n, v] =>
    (match n with | .none => "None" | .str _ => vText n | _ => "?name") ++ "=" ++
      (match v with
        | .bool true => "T"
        | .bytes b => showBytes b
        | .str _ => showStrHex (vText v)
        | _ => "?value")
  | _ => "?item"

open PyU (V) in
def vRcItem : V → String
  | .tuple [n, v] =>
    vText n ++ "=" ++ (match v with | .bool true => "T" | .int k => toString k | _ => "?value")
  | _ => "?item"

open PyU (V) in
def vExItem : V → String
  | .none => "none"
  | .str cs => showCps (some cs)
  | _ => "?item"

open PyU (V) in
def vItItem : V → String
  | .tuple [n, .bytes b] => vText n ++ "=" ++ showBytes b
  | _ => "?item"

open PyU (V) in
def vBytes : V → String
  | .bytes b => showBytes b
  | _ => "?bytes"

open PyU (V) in
def vLatin : V → String
  | .str cs => "s" ++ Hex.encode (cs.map fun c => UInt8.ofNat c)
  | _ => "?str"

/-! a generic rendering of `PyU.V` (the Python side renders the real objects the same way) -/
mutual
def vShow : PyU.V → String
  | .none => "N"
  | .bool b => if b then "T" else "F"
  | .int n => "i" ++ toString n
  | .bytes b => "b" ++ Hex.encode b
  | .str cs => "s" ++ ".".intercalate (cs.map toString)
  | .list xs => "L[" ++ vShowL xs ++ "]"
  | .tuple xs => "U[" ++ vShowL xs ++ "]"
  | .dict ks vs => "D[" ++ vShowL ks ++ "|" ++ vShowL vs ++ "]"
  | .bytesIO d p => "O" ++ Hex.encode d ++ ":" ++ toString p
  | .enum c v => "E" ++ toString c.cid ++ ":" ++ toString v
  | .inst c vs => "I" ++ toString c.cid ++ "[" ++ vShowL vs ++ "]"
termination_by structural x => x
def vShowL : List PyU.V → String
  | [] => ""
  | [x] => vShow x
  | x :: y :: r => vShow x ++ ";" ++ vShowL (y :: r)
termination_by structural x => x
end

/-! parser for the same notation (operands of the `pyu` stream) -/
def enumOfCid : Nat → Option PyU.EnumCls
  | 0 => some Gen.PyBeacon.TransformStep
  | 1 => some Gen.PyBeacon.InjectExecutor
  | _ => none

def isHexChar (c : Char) : Bool := c.isDigit || ('a' ≤ c && c ≤ 'f')

mutual
partial def pV : List Char → Option (PyU.V × List Char)
  | 'N' :: r => some (.none, r)
  | 'T' :: r => some (.bool true, r)
  | 'F' :: r => some (.bool false, r)
  | 'i' :: r =>
    let (ds, r') := r.span (fun c => c.isDigit || c == '-')
    (String.ofList ds).toInt?.map fun n => (.int n, r')
  | 'b' :: r =>
    let (hs, r') := r.span isHexChar
    (Hex.decodeChars hs).map fun b => (.bytes b, r')
  | 's' :: r =>
    let (ds, r') := r.span (fun c => c.isDigit || c == '.')
    if ds.isEmpty then some (.str [], r')
    else (((String.ofList ds).splitOn ".").mapM String.toNat?).map fun cs => (.str cs, r')
  | 'L' :: '[' :: r =>
    match pL r [] with
    | some (xs, ']' :: r') => some (.list xs, r')
    | _ => none
  | 'U' :: '[' :: r =>
    match pL r [] with
    | some (xs, ']' :: r') => some (.tuple xs, r')
    | _ => none
  | 'D' :: '[' :: r =>
    match pL r [] with
    | some (ks, '|' :: r') =>
      match pL r' [] with
      | some (vs, ']' :: r'') => some (.dict ks vs, r'')
      | _ => none
    | _ => none
  | 'O' :: r =>
    let (hs, r') := r.span isHexChar
    match Hex.decodeChars hs, r' with
    | some b, ':' :: r'' =>
      let (ds, r3) := r''.span Char.isDigit
      (String.ofList ds).toNat?.map fun p => (.bytesIO b p, r3)
    | _, _ => none
  | 'E' :: r =>
    let (cs, r') := r.span Char.isDigit
    match (String.ofList cs).toNat?.bind enumOfCid, r' with
    | some cls, ':' :: r'' =>
      let (ds, r3) := r''.span (fun c => c.isDigit || c == '-')
      (String.ofList ds).toInt?.map fun n => (.enum cls n, r3)
    | _, _ => none
  | _ => none
/-- items separated by `;` up to (not including) the closing `]` / `|` -/
partial def pL : List Char → List PyU.V → Option (List PyU.V × List Char)
  | ']' :: r, acc => some (acc.reverse, ']' :: r)
  | '|' :: r, acc => some (acc.reverse, '|' :: r)
  | cs, acc =>
    match pV cs with
    | some (v, ';' :: r) => pL r (v :: acc)
    | some (v, r) => some ((v :: acc).reverse, r)
    | none => none
end

def vTok (s : String) : Option PyU.V :=
  match pV s.toList with
  | some (v, []) => some v
  | _ => none

def showB (r : Py Bool) : String := showPy (fun b => vShow (.bool b)) r

/-- `pyu <op> <operands>`: one operation of the run-time library `PyU` on operands in the notation above -/
def pyuStep : List String → String
  | [op, a] =>
    match vTok a with
    | none => "bad-op"
    | some a =>
      match op with
      | "truthy" => vShow (.bool (PyU.truthy a))
      | "isnone" => vShow (.bool (PyU.isNone a))
      | "neg" => showPy vShow (PyU.neg a)
      | "len" => showPy vShow (PyU.len a)
      | "unpack2" => showPy (fun p => vShow (.tuple [p.1, p.2])) (PyU.unpack2 a)
      | "unpack3" => showPy (fun p => vShow (.tuple [p.1, p.2.1, p.2.2])) (PyU.unpack3 a)
      | "newbio" => showPy vShow (PyU.newBytesIO a)
      | "decutf8" => showPy vShow (PyU.decodeUtf8 a)
      | "declatin1" => showPy vShow (PyU.decodeLatin1 a)
      | "fmt" => showPy (fun t => vShow (.str t)) (PyU.fmt a "")
      | "fmtx" => showPy (fun t => vShow (.str t)) (PyU.fmt a "x")
      | "name" => showPy vShow (PyU.getAttr a "name")
      | "value" => showPy vShow (PyU.getAttr a "value")
      | "enum0" => showPy vShow (PyU.enumCall Gen.PyBeacon.TransformStep a)
      | "enum1" => showPy vShow (PyU.enumCall Gen.PyBeacon.InjectExecutor a)
      | "u32be" => showPy vShow (Gen.PyBeacon.u32be a)
      | "mkdict" =>
        match a with
        | .list items =>
          showPy vShow (PyU.mkDict (items.filterMap fun it => match it with | .tuple [k, v] => some (k, v) | _ => none))
        | _ => "bad-op"
      | _ => "bad-op"
  | [op, a, b] =>
    match vTok a, vTok b with
    | some a, some b =>
      match op with
      | "eq" => vShow (.bool (PyU.eq a b))
      | "lt" => showB (PyU.lt a b)
      | "le" => showB (PyU.le a b)
      | "gt" => showB (PyU.gt a b)
      | "ge" => showB (PyU.ge a b)
      | "add" => showPy vShow (PyU.add a b)
      | "iadd" => showPy vShow (PyU.iadd a b)
      | "sub" => showPy vShow (PyU.sub a b)
      | "mul" => showPy vShow (PyU.mul a b)
      | "floordiv" => showPy vShow (PyU.floordiv a b)
      | "mod" => showPy vShow (PyU.mod a b)
      | "band" => showPy vShow (PyU.band a b)
      | "bor" => showPy vShow (PyU.bor a b)
      | "bxor" => showPy vShow (PyU.bxor a b)
      | "shl" => showPy vShow (PyU.shl a b)
      | "shr" => showPy vShow (PyU.shr a b)
      | "contains" => showB (PyU.contains a b)
      | "getitem" => showPy vShow (PyU.getItem a b)
      | "append" => showPy vShow (PyU.append a b)
      | "read" => showPy (fun p => vShow (.tuple [p.1, p.2])) (PyU.read a b)
      | "rstrip" => showPy vShow (PyU.rstrip a b)
      | "partition" => showPy vShow (PyU.partition a b)
      | _ => "bad-op"
    | _, _ => "bad-op"
  | [op, a, b, c] =>
    match vTok a, vTok b, vTok c with
    | some a, some b, some c =>
      match op with
      | "slice" => showPy vShow (PyU.slice a b c)
      | "dictget" => showPy vShow (PyU.dictGet a b c)
      | _ => "bad-op"
    | _, _, _ => "bad-op"
  | _ => "bad-op"

/-- the non-`bytes` arguments of the `g-arg` stream -/
def argTok : String → Option PyU.V
  | "none" => some .none
  | "int" => some (.int 5)
  | "str" => some (PyU.lit "ab")
  | "list" => some (.list [.int 1])
  | "true" => some (.bool true)
  | _ => none

/-- fuel for the translated loops: every iteration but the last consumes at least one byte -/
def gFuel (d : Bytes) : Nat := d.length + 2

def gstep : List String → String
  | ["gtr", build, d] =>
    match bytesTok d with
    | some d => showPy (vList vTrItem) (Gen.PyBeacon.parse_transform_binary (gFuel d) (.bytes d) (PyU.lit build))
    | none => "bad-op"
  | ["grc", d] =>
    match bytesTok d with
    | some d => showPy (vList vRcItem) (Gen.PyBeacon.parse_recover_binary (gFuel d) (.bytes d))
    | none => "bad-op"
  | ["gex", d] =>
    match bytesTok d with
    | some d => showPy (vList vExItem) (Gen.PyBeacon.parse_execute_list (gFuel d) (.bytes d))
    | none => "bad-op"
  | ["git", d] =>
    match bytesTok d with
    | some d => showPy (vList vItItem) (Gen.PyBeacon.parse_process_injection_transform_steps (.bytes d))
    | none => "bad-op"
  | ["ggg", d] =>
    match bytesTok d with
    | some d => showPy (vList vText) (Gen.PyBeacon.parse_gargle (gFuel d) (.bytes d))
    | none => "bad-op"
  | ["gpv", d] =>
    match bytesTok d with
    | some d => showPy vBytes (Gen.PyBeacon.parse_pivot_frame (.bytes d))
    | none => "bad-op"
  | ["gnts", d] =>
    match bytesTok d with
    | some d => showPy vLatin (Gen.PyBeacon.null_terminated_str (.bytes d))
    | none => "bad-op"
  | ["gntb", d] =>
    match bytesTok d with
    | some d => showPy vBytes (Gen.PyBeacon.null_terminated_bytes (.bytes d))
    | none => "bad-op"
  | ["garg", fn, kind] =>
    match argTok kind with
    | none => "bad-op"
    | some a =>
      match fn with
      | "tr" => showPy vShow (Gen.PyBeacon.parse_transform_binary_default1 5 a)
      | "rc" => showPy vShow (Gen.PyBeacon.parse_recover_binary 5 a)
      | "ex" => showPy vShow (Gen.PyBeacon.parse_execute_list 5 a)
      | "it" => showPy vShow (Gen.PyBeacon.parse_process_injection_transform_steps a)
      | "gg" => showPy vShow (Gen.PyBeacon.parse_gargle 5 a)
      | "pv" => showPy vShow (Gen.PyBeacon.parse_pivot_frame a)
      | "nts" => showPy vShow (Gen.PyBeacon.null_terminated_str a)
      | "ntb" => showPy vShow (Gen.PyBeacon.null_terminated_bytes a)
      | _ => "bad-op"
  | "pyu" :: rest => pyuStep rest
  | ["member", cid, name] =>
    match cid.toNat?.bind enumOfCid with
    | some cls => showPy vShow (PyU.enumMember cls name)
    | none => "bad-op"
  | _ => "bad-op"

def step : List String → String
  | ["tr", build, d] =>
    match bytesTok d with
    | some d => showTransform (parseTransform build d)
    | none => "bad-op"
  | ["rc", d] =>
    match bytesTok d with
    | some d => showRecover (parseRecover d)
    | none => "bad-op"
  | ["ex", d] =>
    match bytesTok d with
    | some d => showPy showExecute (parseExecute d)
    | none => "bad-op"
  | ["it", d] =>
    match bytesTok d with
    | some d => showInjT (parseInjTransform d)
    | none => "bad-op"
  | ["gg", d] =>
    match bytesTok d with
    | some d => showList (parseGargle d)
    | none => "bad-op"
  | ["pv", d] =>
    match bytesTok d with
    | some d => showBytes (parsePivot d)
    | none => "bad-op"
  | ["gate", d] =>
    match bytesTok d with
    | some d => showPy showGate (beaconGatePretty d)
    | none => "bad-op"
  | ["nts", d] =>
    match bytesTok d with
    | some d => "s" ++ Hex.encode (nullTerminatedStr d)
    | none => "bad-op"
  | ["ntb", d] =>
    match bytesTok d with
    | some d => showBytes (nullTerminatedBytes d)
    | none => "bad-op"
  | ["pk", d] =>
    -- the harness replaces hashlib.sha256 by the identity "hash": the observable is the pre-image
    match bytesTok d with
    | some d => "t" ++ sha256sumPubkey id d
    | none => "bad-op"
  | ["dns", n] =>
    match natTok n with
    | some n => showPy id (dnsIdle n)
    | none => "bad-op"
  | ["bof", n] =>
    match natTok n with
    | some n => showOptName (bofAllocatorName n)
    | none => "bad-op"
  | ["proto", n] =>
    match natTok n with
    | some n => showOptName (protocolName n)
    | none => "bad-op"
  | ["cfg", sha, i, t, v] =>
    match shaTok sha, natTok i, natTok t, bytesTok v with
    | some sha, some i, some t, some v =>
      showOptPy showPVal (prettyVal sha { index := i, type := t, value := v })
    | _, _, _, _ => "bad-op"
  | "der" :: rest =>
    match settingsTok rest with
    | some cfg => showDerived cfg
    | none => "bad-op"
  | ws => gstep ws

end C03

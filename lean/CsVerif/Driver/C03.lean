import CsVerif.Model.C03
import CsVerif.Gen.PyBeacon
/-! Line-protocol driver for the C03 model (see tools/harness/c03.py for the matching renderers). -/
namespace C03
open Proto

def showList (items : List String) : String := "[" ++ ",".intercalate items ++ "]"

def showOptName : Option String → String
  | some n => n
  | none => "None"

def showStrHex (s : String) : String := "s" ++ Hex.encode s.toUTF8.toList

def showTOut (o : TOut) : String :=
  showOptName o.1 ++ "=" ++
    match o.2 with
    | .str s => showStrHex s
    | .flag => "T"
    | .bytes b => showBytes b

def showTransform (l : List TOut) : String := showList (l.map showTOut)

def showROut (o : String × RVal) : String :=
  o.1 ++ "=" ++ match o.2 with
    | .len n => toString n
    | .flag => "T"

def showRecover (l : List (String × RVal)) : String := showList (l.map showROut)

def showCps : Option (List Nat) → String
  | none => "none"
  | some [] => "e"
  | some cs => ".".intercalate (cs.map toString)

def showExecute (l : List (Option (List Nat))) : String := showList (l.map showCps)

def showInjT (l : List (String × Bytes)) : String := showList (l.map fun p => p.1 ++ "=" ++ showBytes p.2)

/-- insertion sort on strings (the Python side prints `sorted(set)`: code point order = byte order for ASCII) -/
def insertSorted (x : String) : List String → List String
  | [] => [x]
  | y :: ys => if x < y || x == y then x :: y :: ys else y :: insertSorted x ys

def sortStrings (l : List String) : List String := l.foldr insertSorted []

def showGate (g : List String × List String) : String :=
  showList g.1 ++ " {" ++ ",".intercalate (sortStrings g.2) ++ "}"

def showPVal : PVal → String
  | .int n => "i" ++ toString n
  | .bytes b => showBytes b
  | .lstr b => "s" ++ Hex.encode b
  | .text s => "t" ++ s
  | .optText s => match s with | some t => "t" ++ t | none => "None"
  | .recover l => showRecover l
  | .transform l => showTransform l
  | .execute l => showExecute l
  | .injTransform l => showInjT l
  | .gargle l => showList l
  | .gate g => showGate g

def showSVal : Option SVal → String
  | none => "None"
  | some (.int n) => "i" ++ toString n
  | some (.bytes b) => showBytes b

/-- `pre:digest` one-point SHA table (`-` = no entry): any other pre-image hashes to the empty string. -/
def shaTok (s : String) : Option (Bytes → Bytes) :=
  if s == "-" then some (fun _ => [])
  else
    match s.splitOn ":" with
    | [a, b] =>
      match bytesTok a, bytesTok b with
      | some pre, some dg => some (fun x => if x == pre then dg else [])
      | _, _ => none
    | _ => none

def settingsTok : List String → Option (List RawSetting)
  | [] => some []
  | i :: t :: v :: rest =>
    match natTok i, natTok t, bytesTok v, settingsTok rest with
    | some i, some t, some v, some r => some ({ index := i, type := t, value := v } :: r)
    | _, _, _, _ => none
  | _ => none

def showOptPy (f : α → String) : Option (Py α) → String
  | none => "unmodelled"
  | some r => showPy f r

def showOptBytes : Option Bytes → String
  | none => "none"
  | some b => showBytes b

def showDerived (cfg : List RawSetting) : String :=
  let pairs := showList ((domainUriPairs cfg).map fun p => showBytes p.1 ++ ":" ++ showOptBytes p.2)
  let us := showList ((uris cfg).map showOptBytes)
  let ds := showList ((domains cfg).map showBytes)
  let kd := showOptPy showOptName (killdate (fun _ => []) cfg)
  let kd := kd.replace " " "_"
  let pr := match protocol cfg with | none => "unmodelled" | some n => showOptName n
  let pk := match publicKey cfg with | none => "unmodelled" | some b => showBytes b
  s!"pairs={pairs} uris={us} domains={ds} kd={kd} proto={pr} port={showSVal (port cfg)} wm={showSVal (watermark cfg)} trial={showBool (isTrial cfg)} pk={pk}"

/-! ### `g-*` streams: the definitions TRANSLATED from the source (Gen/PyBeacon.lean), rendered from `PyU.V` in the format of
the corresponding hand-model stream; a value of an unexpected shape is rendered `?…` (and so differs from the real code) -/

open PyU (V) in
def vText : V → String
  | .str cs => String.ofList (cs.map Char.ofNat)
  | _ => "?text"

open PyU (V) in
def vList (f : V → String) : V → String
  | .list xs => showList (xs.map f)
  | _ => "?list"

open PyU (V) in
def vTrItem : V → String
  | .tuple [n, v] =>
    (match n with | .none => "None" | .str _ => vText n | _ => "?name") ++ "=" ++
      (match v with
        | .bool true => "T"
        | .bytes b => showBytes b
        | .str _ => showStrHex (vText v)
        | _ => "?value")
  | _ => "?item"

open PyU (V) in
def vRcItem : V → String
  | .tuple [n, v] =>
    vText n ++ "=" ++ (match v with | .bool true => "T" | .int k => toString k | _ => "?value")
  | _ => "?item"

open PyU (V) in
def vExItem : V → String
  | .none => "none"
  | .str cs => showCps (some cs)
  | _ => "?item"

open PyU (V) in
def vItItem : V → String
  | .tuple [n, .bytes b] => vText n ++ "=" ++ showBytes b
  | _ => "?item"

open PyU (V) in
def vBytes : V → String
  | .bytes b => showBytes b
  | _ => "?bytes"

open PyU (V) in
def vLatin : V → String
  | .str cs => "s" ++ Hex.encode (cs.map fun c => UInt8.ofNat c)
  | _ => "?str"

/-- fuel for the translated loops: every iteration but the last consumes at least one byte -/
def gFuel (d : Bytes) : Nat := d.length + 2

def gstep : List String → String
  | ["gtr", build, d] =>
    match bytesTok d with
    | some d => showPy (vList vTrItem) (Gen.PyBeacon.parse_transform_binary (gFuel d) (.bytes d) (PyU.lit build))
    | none => "bad-op"
  | ["grc", d] =>
    match bytesTok d with
    | some d => showPy (vList vRcItem) (Gen.PyBeacon.parse_recover_binary (gFuel d) (.bytes d))
    | none => "bad-op"
  | ["gex", d] =>
    match bytesTok d with
    | some d => showPy (vList vExItem) (Gen.PyBeacon.parse_execute_list (gFuel d) (.bytes d))
    | none => "bad-op"
  | ["git", d] =>
    match bytesTok d with
    | some d => showPy (vList vItItem) (Gen.PyBeacon.parse_process_injection_transform_steps (.bytes d))
    | none => "bad-op"
  | ["ggg", d] =>
    match bytesTok d with
    | some d => showPy (vList vText) (Gen.PyBeacon.parse_gargle (gFuel d) (.bytes d))
    | none => "bad-op"
  | ["gpv", d] =>
    match bytesTok d with
    | some d => showPy vBytes (Gen.PyBeacon.parse_pivot_frame (.bytes d))
    | none => "bad-op"
  | ["gnts", d] =>
    match bytesTok d with
    | some d => showPy vLatin (Gen.PyBeacon.null_terminated_str (.bytes d))
    | none => "bad-op"
  | ["gntb", d] =>
    match bytesTok d with
    | some d => showPy vBytes (Gen.PyBeacon.null_terminated_bytes (.bytes d))
    | none => "bad-op"
  | _ => "bad-op"

def step : List String → String
  | ["tr", build, d] =>
    match bytesTok d with
    | some d => showTransform (parseTransform build d)
    | none => "bad-op"
  | ["rc", d] =>
    match bytesTok d with
    | some d => showRecover (parseRecover d)
    | none => "bad-op"
  | ["ex", d] =>
    match bytesTok d with
    | some d => showPy showExecute (parseExecute d)
    | none => "bad-op"
  | ["it", d] =>
    match bytesTok d with
    | some d => showInjT (parseInjTransform d)
    | none => "bad-op"
  | ["gg", d] =>
    match bytesTok d with
    | some d => showList (parseGargle d)
    | none => "bad-op"
  | ["pv", d] =>
    match bytesTok d with
    | some d => showBytes (parsePivot d)
    | none => "bad-op"
  | ["gate", d] =>
    match bytesTok d with
    | some d => showPy showGate (beaconGatePretty d)
    | none => "bad-op"
  | ["nts", d] =>
    match bytesTok d with
    | some d => "s" ++ Hex.encode (nullTerminatedStr d)
    | none => "bad-op"
  | ["ntb", d] =>
    match bytesTok d with
    | some d => showBytes (nullTerminatedBytes d)
    | none => "bad-op"
  | ["pk", d] =>
    -- the harness replaces hashlib.sha256 by the identity "hash": the observable is the pre-image
    match bytesTok d with
    | some d => "t" ++ sha256sumPubkey id d
    | none => "bad-op"
  | ["dns", n] =>
    match natTok n with
    | some n => showPy id (dnsIdle n)
    | none => "bad-op"
  | ["bof", n] =>
    match natTok n with
    | some n => showOptName (bofAllocatorName n)
    | none => "bad-op"
  | ["proto", n] =>
    match natTok n with
    | some n => showOptName (protocolName n)
    | none => "bad-op"
  | ["cfg", sha, i, t, v] =>
    match shaTok sha, natTok i, natTok t, bytesTok v with
    | some sha, some i, some t, some v =>
      showOptPy showPVal (prettyVal sha { index := i, type := t, value := v })
    | _, _, _, _ => "bad-op"
  | "der" :: rest =>
    match settingsTok rest with
    | some cfg => showDerived cfg
    | none => "bad-op"
  | ws => gstep ws

end C03

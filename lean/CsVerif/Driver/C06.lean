import CsVerif.Model.C06
import CsVerif.Model.C06Gen
import CsVerif.Model.PyUShow
/-!
Line-protocol driver for the C06 model.

A metadata value is 17 tokens in declaration order:
  magic size x<aes_rand> ansi_cp oem_cp bid pid port flag ver_major ver_minor ver_build ptr_x64 ptr_gmh ptr_gpa ip x<info>

Primitive results travel on the input line (computed by the harness with pycryptodome / hashlib called
directly): `dec` carries what `PKCS1_v1_5.new(key).decrypt(blob, None)` did (`V` = raised ValueError,
`none` = returned None, `x…` = returned these bytes), `derive` carries `hashlib.sha256(r).digest()`.
`enc` / `rt` run the model with the toy primitives of modulus length `k` (the real blob is random).
-/
namespace C06
open Proto

def metaToks : List String → Option Metadata
  | [magic, size, aes, ansi, oem, bid, pid, port, flag, vmaj, vmin, vbld, x64, gmh, gpa, ip, info] => do
    let magic ← natTok magic; let size ← natTok size; let aes ← bytesTok aes
    let ansi ← natTok ansi; let oem ← natTok oem; let bid ← natTok bid; let pid ← natTok pid
    let port ← natTok port; let flag ← natTok flag; let vmaj ← natTok vmaj; let vmin ← natTok vmin
    let vbld ← natTok vbld; let x64 ← natTok x64; let gmh ← natTok gmh; let gpa ← natTok gpa
    let ip ← natTok ip; let info ← bytesTok info
    some { magic := magic, size := size, aes_rand := aes, ansi_cp := ansi, oem_cp := oem, bid := bid,
           pid := pid, port := port, flag := flag, ver_major := vmaj, ver_minor := vmin, ver_build := vbld,
           ptr_x64 := x64, ptr_gmh := gmh, ptr_gpa := gpa, ip := ip, info := info }
  | _ => none

def showMeta (m : Metadata) : String :=
  s!"{m.magic} {m.size} {showBytes m.aes_rand} {m.ansi_cp} {m.oem_cp} {m.bid} {m.pid} {m.port} {m.flag} " ++
  s!"{m.ver_major} {m.ver_minor} {m.ver_build} {m.ptr_x64} {m.ptr_gmh} {m.ptr_gpa} {m.ip} {showBytes m.info}"

def showPyS (f : α → String) : PyS α → String
  | .ok a => "ok " ++ f a
  | .error e => "exc " ++ e.name

/-- result of the direct pycryptodome call, as passed on the line -/
def primTok (s : String) : Option (Py (Option Bytes)) :=
  if s == "V" then some (.error .valueError)
  else if s == "none" then some (.ok none)
  else (bytesTok s).map fun b => .ok (some b)

/-- primitives whose results are fixed by the input line -/
def lineCrypto (dec : Py (Option Bytes)) (digest : Bytes) : Crypto where
  rsaEnc := fun _ _ => .error .valueError
  rsaDec := fun _ => dec
  sha256 := fun _ => digest
  modulusBytes := 0

def showKeys (k : BeaconKeys) : String :=
  s!"{showBytes k.aes_key} {showBytes k.hmac_key} {showBytes k.iv}"

/-- `enc`: the model's `encrypt_metadata` under the toy primitives of modulus length `k`:
blob length, `metadata.size` afterwards, plaintext handed to RSA. -/
def encAns (k : Nat) (m : Metadata) : String :=
  let c := toyCrypto k
  match encryptMetadata c m [], sized m with
  | .ok blob, .ok m' =>
    match c.rsaDec blob with
    | .ok (some pt) => s!"ok {blob.length} {m'.size} {showBytes pt}"
    | _ => "model-error toy decrypt failed"
  | .error e, _ => "exc " ++ e.name
  | .ok _, .error e => "exc " ++ e.name

/-- `rt`: `decrypt_metadata(encrypt_metadata(m))` under the toy primitives. -/
def rtAns (k : Nat) (m : Metadata) : String :=
  let c := toyCrypto k
  match encryptMetadata c m [] with
  | .ok blob => showPy showMeta (decryptMetadata c blob)
  | .error e => "exc " ++ e.name

def step : List String → String
  | "dumps" :: rest =>
    match metaToks rest with
    | some m => showPyS (fun d => s!"{d.length} {showBytes d}") (dumpsMetadata m)
    | none => "bad-op"
  | ["parse", d] =>
    match bytesTok d with
    | some d => showPy showMeta (parseMetadata d)
    | none => "bad-op"
  | "enc" :: _key :: k :: rest =>
    match natTok k, metaToks rest with
    | some k, some m => encAns k m
    | _, _ => "bad-op"
  | ["dec", _key, blob, prim] =>
    match bytesTok blob, primTok prim with
    | some blob, some p => showPy showMeta (decryptMetadata (lineCrypto p []) blob)
    | _, _ => "bad-op"
  | "rt" :: _key :: k :: rest =>
    match natTok k, metaToks rest with
    | some k, some m => rtAns k m
    | _, _ => "bad-op"
  | ["derive", r, iv, digest] =>
    match bytesTok r, optTok bytesTok iv, bytesTok digest with
    | some r, some iv, some digest =>
      let c := lineCrypto (.error .valueError) digest
      let (a, h) := deriveKeys c r
      let m : Metadata := { magic := 0, size := 0, aes_rand := r, ansi_cp := 0, oem_cp := 0, bid := 0, pid := 0,
                            port := 0, flag := 0, ver_major := 0, ver_minor := 0, ver_build := 0, ptr_x64 := 0,
                            ptr_gmh := 0, ptr_gpa := 0, ip := 0, info := [] }
      let k1 := match iv with
        | some iv => BeaconKeys.fromAesRand c r iv
        | none => BeaconKeys.fromAesRand c r
      let k2 := match iv with
        | some iv => BeaconKeys.fromBeaconMetadata c m iv
        | none => BeaconKeys.fromBeaconMetadata c m
      s!"{showBytes a} {showBytes h} {showKeys k1} {showKeys k2}"
    | _, _, _ => "bad-op"
  | _ => "bad-op"

/-! ### histories: several calls in one line, separated by a `|` token

The library functions are modelled as pure functions, so the expected answer of every step is the
stateless single-call answer (`step`).  The only state is the *caller's* metadata object, which
`encrypt_metadata` mutates (`metadata.size = len(metadata) - 8`):
  `new M17` creates it, `set <field> <value>` assigns an attribute, `show` prints it,
  `eo <key> <k>` / `ro <key> <k>` are `enc` / `rt` on that same object. -/

def splitBar (ws : List String) : List (List String) :=
  ws.foldr (fun w acc =>
    if w == "|" then [] :: acc
    else match acc with
      | cur :: rest => (w :: cur) :: rest
      | [] => [[w]]) [[]]

def setField (m : Metadata) (name v : String) : Option Metadata :=
  if name == "aes_rand" then (bytesTok v).map fun b => { m with aes_rand := b }
  else if name == "info" then (bytesTok v).map fun b => { m with info := b }
  else (natTok v).bind fun n =>
    if name == "magic" then some { m with magic := n }
    else if name == "size" then some { m with size := n }
    else if name == "ansi_cp" then some { m with ansi_cp := n }
    else if name == "oem_cp" then some { m with oem_cp := n }
    else if name == "bid" then some { m with bid := n }
    else if name == "pid" then some { m with pid := n }
    else if name == "port" then some { m with port := n }
    else if name == "flag" then some { m with flag := n }
    else if name == "ver_major" then some { m with ver_major := n }
    else if name == "ver_minor" then some { m with ver_minor := n }
    else if name == "ver_build" then some { m with ver_build := n }
    else if name == "ptr_x64" then some { m with ptr_x64 := n }
    else if name == "ptr_gmh" then some { m with ptr_gmh := n }
    else if name == "ptr_gpa" then some { m with ptr_gpa := n }
    else if name == "ip" then some { m with ip := n }
    else none

/-- the caller's object after `encrypt_metadata(obj, …)`: size assigned unless `len(obj)` raised -/
def afterEncrypt (m : Metadata) : Metadata :=
  match sized m with
  | .ok m' => m'
  | .error _ => m

def histStep (cur : Option Metadata) (ws : List String) : String × Option Metadata :=
  match ws, cur with
  | "new" :: rest, _ =>
    match metaToks rest with
    | some m => ("ok", some m)
    | none => ("bad-op", cur)
  | ["set", name, v], some m =>
    match setField m name v with
    | some m' => ("ok", some m')
    | none => ("bad-op", cur)
  | ["show"], some m => ("ok " ++ showMeta m, cur)
  | ["eo", _key, k], some m =>
    match natTok k with
    | some k => (encAns k m, some (afterEncrypt m))
    | none => ("bad-op", cur)
  | ["ro", _key, k], some m =>
    match natTok k with
    | some k => (rtAns k m, some (afterEncrypt m))
    | none => ("bad-op", cur)
  | ws, _ => (step ws, cur)

def runHist : Option Metadata → List (List String) → List String
  | _, [] => []
  | cur, ws :: rest =>
    let (a, cur') := histStep cur ws
    a :: runHist cur' rest

/-! ### `g-*` streams: the definitions TRANSLATED from the source of `decrypt_metadata` / `encrypt_metadata` (Gen/PyC2M.lean, with
the external `cipher.decrypt` / `cipher.encrypt` instantiated as for the hand model: primitive results from the line / toy
primitives), and the run-time operations `BeaconMetadata(bytes)` / `.dumps()` / `len()` of Model/PyU_T07.lean on the same cases.
`gdumps` / `gparse` / `genc` / `gdec` / `grt` / `ghist` take the lines of `dumps` / `parse` / `enc` / `dec` / `rt` / `hist`;
`garg enc <k> <V>` / `garg dumps <V>` take any Python value in the notation of Model/PyUShow.lean (`I7701[…]` = a BeaconMetadata
object with arbitrary attribute values). -/

def showE (f : α → String) : PyU.T07PyE α → String
  | .ok a => "ok " ++ f a
  | .error (.py e) => "exc " ++ e.name
  | .error .structError => "exc error"

/-- a returned `BeaconMetadata` object, shown like `showMeta` -/
def vMeta (v : PyU.V) : String :=
  match C06Gen.decMeta? v with
  | some m => showMeta m
  | none => "?meta " ++ PyU.vShow v

def gclsOf (cid : Nat) : Option PyU.Cls :=
  if cid == Gen.PyC2M.BeaconMetadataCls.cid then some Gen.PyC2M.BeaconMetadataCls
  else if cid == Gen.PyC2M.Pkcs1Cipher.cid then some Gen.PyC2M.Pkcs1Cipher
  else none

def gvTok (s : String) : Option PyU.V := PyU.vTok (fun _ => none) gclsOf s

/-- the translated `encrypt_metadata` under the toy primitives of modulus length `k`, on any value: the answer of `enc` (blob
length, `size` attribute afterwards, plaintext handed to RSA) and the caller's object afterwards -/
def gencV (k : Nat) (obj : PyU.V) : String × Option PyU.V :=
  let c := toyCrypto k
  match C06Gen.encryptMetadataG c [] obj (PyU.lit "key") with
  | .ok (.tuple [.bytes blob, obj']) =>
    match c.rsaDec blob, PyU.getAttr obj' "size" with
    | .ok (some pt), .ok (.int sz) => (s!"ok {blob.length} {sz} {showBytes pt}", some obj')
    | _, _ => ("model-error toy decrypt failed", some obj')
  | .ok v => ("?enc " ++ PyU.vShow v, none)
  | .error (.py e) => ("exc " ++ e.name, none)
  | .error .structError => ("exc error", none)

/-- `decrypt_metadata(encrypt_metadata(m))` through the translated definitions -/
def grtV (k : Nat) (obj : PyU.V) : String × Option PyU.V :=
  let c := toyCrypto k
  match C06Gen.encryptMetadataG c [] obj (PyU.lit "key") with
  | .ok (.tuple [.bytes blob, obj']) => (showPy vMeta (C06Gen.decryptMetadataG c (.bytes blob) (PyU.lit "key")), some obj')
  | .ok v => ("?enc " ++ PyU.vShow v, none)
  | .error (.py e) => ("exc " ++ e.name, none)
  | .error .structError => ("exc error", none)

def gstep : List String → String
  | "gdumps" :: rest =>
    match metaToks rest with
    | some m =>
      match PyU.t07Len Gen.PyC2M.structs (C06Gen.encMeta m), PyU.t07Dumps Gen.PyC2M.structs (C06Gen.encMeta m) with
      | .ok (.int n), .ok (.bytes d) => s!"ok {n} {showBytes d}"
      | .error e, _ => showE (fun (_ : Unit) => "") (.error e)
      | _, .error e => showE (fun (_ : Unit) => "") (.error e)
      | _, _ => "?dumps"
    | none => "bad-op"
  | ["gparse", d] =>
    match bytesTok d with
    | some d => showPy vMeta (PyU.t07StructParse Gen.PyC2M.BeaconMetadata (.bytes d))
    | none => "bad-op"
  | "genc" :: _key :: k :: rest =>
    match natTok k, metaToks rest with
    | some k, some m => (gencV k (C06Gen.encMeta m)).1
    | _, _ => "bad-op"
  | ["gdec", key, blob, prim] =>
    match bytesTok blob, primTok prim with
    | some blob, some p => showPy vMeta (C06Gen.decryptMetadataG (lineCrypto p []) (.bytes blob) (PyU.lit key))
    | _, _ => "bad-op"
  | "grt" :: _key :: k :: rest =>
    match natTok k, metaToks rest with
    | some k, some m => (grtV k (C06Gen.encMeta m)).1
    | _, _ => "bad-op"
  | ["garg", "enc", k, v] =>
    match natTok k, gvTok v with
    | some k, some v =>
      match gencV k v with
      | (a, some obj') => a ++ " " ++ PyU.vShow obj'
      | (a, none) => a
    | _, _ => "bad-op"
  | ["garg", "dumps", v] =>
    match gvTok v with
    | some v =>
      match PyU.t07Len Gen.PyC2M.structs v, PyU.t07Dumps Gen.PyC2M.structs v with
      | .ok n, .ok d => s!"ok {PyU.vShow n} {PyU.vShow d}"
      | .error e, _ => showE (fun (_ : Unit) => "") (.error e)
      | _, .error e => showE (fun (_ : Unit) => "") (.error e)
    | none => "bad-op"
  | _ => "bad-op"

/-- a step of `ghist`: as `histStep`, every library call through the translated definitions; the caller's object is a Python
value threaded through `encrypt_metadata` -/
def ghistStep (cur : Option PyU.V) (ws : List String) : String × Option PyU.V :=
  match ws, cur with
  | "new" :: rest, _ =>
    match metaToks rest with
    | some m => ("ok", some (C06Gen.encMeta m))
    | none => ("bad-op", cur)
  | ["set", name, v], some obj =>
    let val : Option PyU.V := if name == "aes_rand" || name == "info" then (bytesTok v).map .bytes else (natTok v).map fun n => .int n
    match val with
    | some x =>
      match PyU.instSetAttr obj name x with
      | .ok obj' => ("ok", some obj')
      | .error _ => ("bad-op", cur)
    | none => ("bad-op", cur)
  | ["show"], some obj => ("ok " ++ vMeta obj, cur)
  | ["eo", _key, k], some obj =>
    match natTok k with
    | some k =>
      match gencV k obj with
      | (a, some obj') => (a, some obj')
      | (a, none) =>
        -- the call raised: the caller's object keeps the new size iff `len(obj)` succeeded (hand model: `afterEncrypt`)
        (a, (C06Gen.decMeta? obj).map fun m => C06Gen.encMeta (afterEncrypt m))
    | none => ("bad-op", cur)
  | ["ro", _key, k], some obj =>
    match natTok k with
    | some k =>
      match grtV k obj with
      | (a, some obj') => (a, some obj')
      | (a, none) => (a, (C06Gen.decMeta? obj).map fun m => C06Gen.encMeta (afterEncrypt m))
    | none => ("bad-op", cur)
  | op :: rest, _ =>
    if op == "derive" then (step (op :: rest), cur) else (gstep (("g" ++ op) :: rest), cur)
  | [], _ => ("bad-op", cur)

def runGHist : Option PyU.V → List (List String) → List String
  | _, [] => []
  | cur, ws :: rest =>
    let (a, cur') := ghistStep cur ws
    a :: runGHist cur' rest

/-! ### `pyu` stream: the run-time operations of Model/PyU_T07.lean on values of all kinds -/

def strOfV : PyU.V → Option String
  | .str cs => some (String.ofList (cs.map Char.ofNat))
  | _ => none

def pyuStep : List String → String
  | [op, a] =>
    match gvTok a with
    | some a =>
      match op with
      | "t07parse" => showPy PyU.vShow (PyU.t07StructParse Gen.PyC2M.BeaconMetadata a)
      | "t07dumps" => showE PyU.vShow (PyU.t07Dumps Gen.PyC2M.structs a)
      | "t07len" => showE PyU.vShow (PyU.t07Len Gen.PyC2M.structs a)
      | "t07any" => showPy PyU.vShow (PyU.t07Any a)
      | "t07all" => showPy PyU.vShow (PyU.t07All a)
      | "t07althex" => showPy (fun s => PyU.vShow (.str s)) (PyU.t07FmtAltHex a)
      | _ => "bad-op"
    | none => "bad-op"
  | [op, a, b] =>
    match gvTok a, gvTok b with
    | some a, some b =>
      match op with
      | "t07fmt" =>
        match b with
        | .int w => showPy (fun s => PyU.vShow (.str s)) (PyU.t07FmtZeroHex a w.toNat)
        | _ => "bad-op"
      | "t07startswith" => showPy PyU.vShow (PyU.t07Startswith a b)
      | "getattr" =>
        match strOfV b with
        | some n => showPy PyU.vShow (PyU.getAttr a n)
        | none => "bad-op"
      | _ => "bad-op"
    | _, _ => "bad-op"
  | ["setattr", a, n, b] =>
    match gvTok a, gvTok n, gvTok b with
    | some a, some n, some b =>
      match strOfV n with
      | some n => showPy PyU.vShow (PyU.instSetAttr a n b)
      | none => "bad-op"
    | _, _, _ => "bad-op"
  | _ => "bad-op"

def top : List String → String
  | "hist" :: rest =>
    let answers := runHist none (splitBar rest)
    if answers.isEmpty || answers.any (· == "bad-op") then "bad-op" else " | ".intercalate answers
  | "ghist" :: rest =>
    let answers := runGHist none (splitBar rest)
    if answers.isEmpty || answers.any (· == "bad-op") then "bad-op" else " | ".intercalate answers
  | "pyu" :: rest => pyuStep rest
  | w :: rest => if w.startsWith "g" then gstep (w :: rest) else step (w :: rest)
  | [] => "bad-op"

end C06

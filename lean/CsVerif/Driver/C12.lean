import CsVerif.Model.C12
import CsVerif.Gen.StrLit
/-! Line-protocol driver for the C12 model. -/
namespace C12
open Proto

def showScan : Option (Txt × Txt) → String
  | none => "none"
  | some (m, r) => showBytes m ++ " " ++ showBytes r

/-- template text: `%a`/`%b` = literal of A/B observed raw (`str(token)[1:-1]`), `%A`/`%B` = observed decoded,
`%x`/`%y` = literal of A/B present in the text but not observed (e.g. inside a comment) -/
inductive Seg
  | txt (c : UInt8)
  | lit (second : Bool) (mode : Nat)

def parseTemplate : Txt → Option (List Seg)
  | [] => some []
  | 37 :: k :: rest =>
    match (if k = 97 then some (Seg.lit false 0) else if k = 98 then some (Seg.lit true 0)
           else if k = 65 then some (Seg.lit false 1) else if k = 66 then some (Seg.lit true 1)
           else if k = 120 then some (Seg.lit false 2) else if k = 121 then some (Seg.lit true 2) else none),
          parseTemplate rest with
    | some s, some r => some (s :: r)
    | _, _ => none
  | [37] => none
  | c :: rest => (parseTemplate rest).map (Seg.txt c :: ·)

def renderSeg (la lb : Txt) : Seg → Txt
  | .txt c => [c]
  | .lit second _ => if second then lb else la

/-- walk the rendered profile text; at every literal position lex one STRING and read it -/
def walk (la lb : Txt) : List Seg → Option (List String)
  | [] => some []
  | .txt _ :: segs => walk la lb segs
  | .lit _ 2 :: segs => walk la lb segs
  | .lit second mode :: segs =>
    let tail := segs.flatMap (renderSeg la lb)
    match lexLiteral ((if second then lb else la) ++ tail), walk la lb segs with
    | some (body, dec, rest), some more =>
      if rest = tail then
        some ((if mode = 1 then showPy showBytes dec else "ok " ++ showBytes body) :: more)
      else none
    | _, _ => none

def embed (tpl : Txt) (a b : Bytes) : String :=
  match parseTemplate tpl with
  | none => "bad-op"
  | some segs =>
    match walk (valueToString a) (valueToString b) segs with
    | none => "split"
    | some outs => " ".intercalate outs

def step : List String → String
  | ["vts", v] =>
    match bytesTok v with
    | some v => showBytes (valueToString v)
    | none => "bad-op"
  | ["vtss", v] =>
    match bytesTok v with
    | some v => showBytes (valueToStringStr v)
    | none => "bad-op"
  | ["repr", v] =>
    match bytesTok v with
    | some v => showBytes (reprBytes v)
    | none => "bad-op"
  | ["repl", o, n, s] =>
    match bytesTok o, bytesTok n, bytesTok s with
    | some o, some n, some s => showBytes (strReplace o n s)
    | _, _, _ => "bad-op"
  | ["rt", v] =>
    match bytesTok v with
    | some v => showBytes (valueToString v) ++ " " ++ showPy showBytes (stringTokenToBytes (valueToString v))
                  ++ " " ++ showScan (scanString (valueToString v))
    | none => "bad-op"
  | ["tok", v, r] =>
    match bytesTok v, bytesTok r with
    | some v, some r => showScan (scanString (valueToString v ++ r))
    | _, _ => "bad-op"
  | ["dec", t] =>
    match bytesTok t with
    | some t => showPy showBytes (stringTokenToBytes t)
    | none => "bad-op"
  | ["deccp", t] =>
    match natsTok t with
    | some t => showPy showBytes (stringTokenToBytesCP t)
    | none => "bad-op"
  | ["inthex", t] =>
    match bytesTok t with
    | some t => if t.length ≤ 2 then showPy toString (pyIntHex t) else "bad-op"
    | none => "bad-op"
  | ["scan", t] =>
    match bytesTok t with
    | some t => showScan (scanString t)
    | none => "bad-op"
  | ["rx", t] =>
    match bytesTok t with
    | some t => showScan (rxMatch t)
    | none => "bad-op"
  | ["emb", tpl, a, b] =>
    match bytesTok tpl, bytesTok a, bytesTok b with
    | some tpl, some a, some b => embed tpl a b
    | _, _, _ => "bad-op"
  | ["pattern"] =>
    showNats Gen.StrLit.stringPatternCodes ++ " " ++ toString Gen.StrLit.globalRegexFlags
      ++ " " ++ toString Gen.StrLit.stringPatternFlags.length
  | _ => "bad-op"

end C12

import CsVerif.Model.C12
import CsVerif.Model.C12Gen
import CsVerif.Model.PyUShow
import CsVerif.Gen.StrLit
/-! Line-protocol driver for the C12 model.

`g<op> …` (streams `g-*`): the same case run through the definitions TRANSLATED from the source of `value_to_string`,
`string_token_to_bytes` and `StringIterator` (Gen/PyC2Prof.lean), rendered in the format of `<op>`; a value of an unexpected
shape is rendered `?…` (and so differs from the real code).
`garg vts|stb <value>`: the translated function on an argument of any kind (notation of Model/PyUShow.lean; `I0[type;value]` is a
`Token`), the result in the same notation.
`pyu <op> <operands>`: one operation of the run-time library added for c2profile.py (Model/PyU_T12.lean). -/
namespace C12
open Proto

def showScan : Option (Txt × Txt) → String
  | none => "none"
  | some (m, r) => showBytes m ++ " " ++ showBytes r

/-- template text: `%a`/`%b` = literal of A/B observed raw (`str(token)[1:-1]`), `%A`/`%B` = observed decoded,
`%x`/`%y` = literal of A/B present in the text but not observed (e.g. inside a comment) -/
inductive Seg
  | txt (c : UInt8)
  | lit (second : Bool) (mode : Nat)

def parseTemplate : Txt → Option (List Seg)
  | [] => some []
  | 37 :: k :: rest =>
    match (if k = 97 then some (Seg.lit false 0) else if k = 98 then some (Seg.lit true 0)
           else if k = 65 then some (Seg.lit false 1) else if k = 66 then some (Seg.lit true 1)
           else if k = 120 then some (Seg.lit false 2) else if k = 121 then some (Seg.lit true 2) else none),
          parseTemplate rest with
    | some s, some r => some (s :: r)
    | _, _ => none
  | [37] => none
  | c :: rest => (parseTemplate rest).map (Seg.txt c :: ·)

def renderSeg (la lb : Txt) : Seg → Txt
  | .txt c => [c]
  | .lit second _ => if second then lb else la

/-- walk the rendered profile text; at every literal position lex one STRING and read it -/
def walk (la lb : Txt) : List Seg → Option (List String)
  | [] => some []
  | .txt _ :: segs => walk la lb segs
  | .lit _ 2 :: segs => walk la lb segs
  | .lit second mode :: segs =>
    let tail := segs.flatMap (renderSeg la lb)
    match lexLiteral ((if second then lb else la) ++ tail), walk la lb segs with
    | some (body, dec, rest), some more =>
      if rest = tail then
        some ((if mode = 1 then showPy showBytes dec else "ok " ++ showBytes body) :: more)
      else none
    | _, _ => none

def embed (tpl : Txt) (a b : Bytes) : String :=
  match parseTemplate tpl with
  | none => "bad-op"
  | some segs =>
    match walk (valueToString a) (valueToString b) segs with
    | none => "split"
    | some outs => " ".intercalate outs

/-! ### `g-*` streams: the translated definitions -/

def showPyS {α : Type} (f : α → String) : PyU.PyS α → String
  | .ok a => "ok " ++ f a
  | .error (.py e) => "exc " ++ e.name
  | .error .stop => "exc StopIteration"

def vBytes (v : PyU.V) : String :=
  match v with
  | .bytes b => showBytes b
  | _ => "?bytes"

/-- translated `value_to_string` on any argument, as latin-1 text -/
def vtsG (arg : PyU.V) : Option Txt :=
  match Gen.PyC2Prof.value_to_string arg with
  | .ok v => C12Gen.txtOf v
  | .error _ => none

def showTxt? : Option Txt → String
  | some t => showBytes t
  | none => "?txt"

/-- translated `string_token_to_bytes(Token("STRING", text))` -/
def decG (text : List Nat) : String := showPyS vBytes (C12Gen.stringTokenToBytesG text)

def walkG (la lb : Txt) : List Seg → Option (List String)
  | [] => some []
  | .txt _ :: segs => walkG la lb segs
  | .lit _ 2 :: segs => walkG la lb segs
  | .lit second mode :: segs =>
    let tail := segs.flatMap (renderSeg la lb)
    match scanString ((if second then lb else la) ++ tail), walkG la lb segs with
    | some (tok, rest), some more =>
      if rest = tail then
        some ((if mode = 1 then decG (tok.map (·.toNat))
               else "ok " ++ showBytes (pySliceTo (pySliceFrom tok 1) (some (-1)))) :: more)
      else none
    | _, _ => none

def embedG (tpl : Txt) (a b : Bytes) : String :=
  match parseTemplate tpl, vtsG (.bytes a), vtsG (.bytes b) with
  | some segs, some la, some lb =>
    match walkG la lb segs with
    | none => "split"
    | some outs => " ".intercalate outs
  | none, _, _ => "bad-op"
  | _, _, _ => "?txt"

def classes : List PyU.Cls := [Gen.PyC2Prof.Token, Gen.PyC2Prof.StringIteratorCls]

def clsOf (cid : Nat) : Option PyU.Cls := classes.find? (·.cid == cid)

def vTok (s : String) : Option PyU.V := PyU.vTok (fun _ => none) clsOf s

def strOf : PyU.V → Option String
  | .str cs => some (String.ofList (cs.map Char.ofNat))
  | _ => none

open PyU in
def pyuStep : List String → String
  | [op, a] =>
    match vTok a with
    | none => "bad-op"
    | some a =>
      match op with
      | "reprv" => showPy vShow (reprV a)
      | "ord" => showPy vShow (PyU.ord a)
      | "chr" => showPy vShow (PyU.chr a)
      | "bytes" => showPy vShow (bytesOf a)
      | _ => "bad-op"
  | [op, a, b] =>
    match vTok a, vTok b with
    | some a, some b =>
      match op with
      | "intbase" => showPy vShow (intBase Gen.PyC2Prof.intTables a b)
      | "join" => showPy vShow (PyU.join a b)
      | _ => "bad-op"
    | _, _ => "bad-op"
  | [op, a, b, c] =>
    match vTok a, vTok b, vTok c with
    | some a, some b, some c =>
      match op with
      | "strreplace" => showPy vShow (PyU.strReplace a b c)
      | "setattr" =>
        match strOf b with
        | some n => showPy vShow (setAttrObj a n c)
        | none => "bad-op"
      | _ => "bad-op"
    | _, _, _ => "bad-op"
  | _ => "bad-op"

def gstep : List String → String
  | ["gvtss", v] =>
    match bytesTok v with
    | some v => showTxt? (vtsG (C12Gen.latin v))
    | none => "bad-op"
  | ["grt", v] =>
    match bytesTok v with
    | some v =>
      match vtsG (.bytes v) with
      | some t => showBytes t ++ " " ++ decG (t.map (·.toNat)) ++ " " ++ showScan (scanString t)
      | none => "?txt"
    | none => "bad-op"
  | ["gtok", v, r] =>
    match bytesTok v, bytesTok r with
    | some v, some r =>
      match vtsG (.bytes v) with
      | some t => showScan (scanString (t ++ r))
      | none => "?txt"
    | _, _ => "bad-op"
  | ["gdec", t] =>
    match bytesTok t with
    | some t => decG (t.map (·.toNat))
    | none => "bad-op"
  | ["gdeccp", t] =>
    match natsTok t with
    | some t => decG t
    | none => "bad-op"
  | ["gemb", tpl, a, b] =>
    match bytesTok tpl, bytesTok a, bytesTok b with
    | some tpl, some a, some b => embedG tpl a b
    | _, _, _ => "bad-op"
  | ["garg", "vts", a] =>
    match vTok a with
    | some a => showPy PyU.vShow (Gen.PyC2Prof.value_to_string a)
    | none => "bad-op"
  | ["garg", "stb", a] =>
    match vTok a with
    | some a => showPyS PyU.vShow (Gen.PyC2Prof.string_token_to_bytes 200 a)
    | none => "bad-op"
  | "pyu" :: rest => pyuStep rest
  | _ => "bad-op"

def step : List String → String
  | ["vts", v] =>
    match bytesTok v with
    | some v => showBytes (valueToString v)
    | none => "bad-op"
  | ["vtss", v] =>
    match bytesTok v with
    | some v => showBytes (valueToStringStr v)
    | none => "bad-op"
  | ["repr", v] =>
    match bytesTok v with
    | some v => showBytes (reprBytes v)
    | none => "bad-op"
  | ["repl", o, n, s] =>
    match bytesTok o, bytesTok n, bytesTok s with
    | some o, some n, some s => showBytes (strReplace o n s)
    | _, _, _ => "bad-op"
  | ["rt", v] =>
    match bytesTok v with
    | some v => showBytes (valueToString v) ++ " " ++ showPy showBytes (stringTokenToBytes (valueToString v))
                  ++ " " ++ showScan (scanString (valueToString v))
    | none => "bad-op"
  | ["tok", v, r] =>
    match bytesTok v, bytesTok r with
    | some v, some r => showScan (scanString (valueToString v ++ r))
    | _, _ => "bad-op"
  | ["dec", t] =>
    match bytesTok t with
    | some t => showPy showBytes (stringTokenToBytes t)
    | none => "bad-op"
  | ["deccp", t] =>
    match natsTok t with
    | some t => showPy showBytes (stringTokenToBytesCP t)
    | none => "bad-op"
  | ["inthex", t] =>
    match bytesTok t with
    | some t => if t.length ≤ 2 then showPy toString (pyIntHex t) else "bad-op"
    | none => "bad-op"
  | ["scan", t] =>
    match bytesTok t with
    | some t => showScan (scanString t)
    | none => "bad-op"
  | ["rx", t] =>
    match bytesTok t with
    | some t => showScan (rxMatch t)
    | none => "bad-op"
  | ["emb", tpl, a, b] =>
    match bytesTok tpl, bytesTok a, bytesTok b with
    | some tpl, some a, some b => embed tpl a b
    | _, _, _ => "bad-op"
  | ["pattern"] =>
    showNats Gen.StrLit.stringPatternCodes ++ " " ++ toString Gen.StrLit.globalRegexFlags
      ++ " " ++ toString Gen.StrLit.stringPatternFlags.length
  | ws => gstep ws

end C12

import CsVerif.Model.C04
import CsVerif.Model.C04Gen
import CsVerif.Model.PyUShow
/-! Line-protocol driver for the C04 model and reference (see tools/harness/c04.py for the encoding).

`g-*` streams: the definitions TRANSLATED from the source of `HttpDataTransform.__init__ / transform / recover`
(Gen/PyC2T.lean; base64 / getrandbits = the C04 sub-models, Model/C04Gen.lean) on Python values in the notation of
Model/PyUShow.lean:
  gi  <steps> <reverse> <build>                                   -> `ok I6[<tsteps>;<rsteps>]`
  gtr Q|S <steps> <reverse> <build> <c2data> <request> l<masks>   -> `T <request> R ok <c2data>` (recover from the request, or (S) from
                                                                     `HttpResponse(200, r.headers, b"OK", r.body)`)
  gr  <steps> <reverse> <build> <http>                            -> `ok <c2data>`
`pyu <op> <operands>` -> the run-time operations added for C04 (Model/PyU_T04.lean) on operands of all kinds. -/
namespace C04
open Proto

/-- one program token: a flat step or a structured static decoration -/
inductive Code
  | step (s : Step)
  | deco (d : Ref.Deco)

def argTok (s : String) : Option Arg :=
  match s.toList with
  | 'i' :: rest => (String.ofList rest).toInt?.map Arg.int
  | 'x' :: _ => (bytesTok s).map Arg.bytes
  | _ => none

def codeTok (s : String) : Option Code :=
  match s.splitOn "." with
  | ["b64"] => some (.step (.enc .base64))
  | ["b64u"] => some (.step (.enc .base64url))
  | ["nb"] => some (.step (.enc .netbios))
  | ["nbu"] => some (.step (.enc .netbiosu))
  | ["mask"] => some (.step (.enc .mask))
  | ["print"] => some (.step (.term .print))
  | ["uri"] => some (.step (.term .uriAppend))
  | ["Bo"] => some (.step (.build (some .output)))
  | ["Bi"] => some (.step (.build (some .id)))
  | ["Bm"] => some (.step (.build (some .metadata)))
  | ["Bx"] => some (.step (.build none))
  | ["unk"] => some (.step .unknown)
  | ["A", a] => (argTok a).map fun a => .step (.enc (.append a))
  | ["P", a] => (argTok a).map fun a => .step (.enc (.prepend a))
  | ["H", k] => (bytesTok k).map fun k => .step (.term (.header k))
  | ["Q", k] => (bytesTok k).map fun k => .step (.term (.parameter k))
  | ["_H", k] => (bytesTok k).map fun k => .step (.static (.header k))
  | ["_HH", k] => (bytesTok k).map fun k => .step (.static (.hostheader k))
  | ["_Q", k] => (bytesTok k).map fun k => .step (.static (.parameter k))
  | ["dH", n, v] => match bytesTok n, bytesTok v with
    | some n, some v => some (.deco (.header n v))
    | _, _ => none
  | ["dHH", n, v] => match bytesTok n, bytesTok v with
    | some n, some v => some (.deco (.hostheader n v))
    | _, _ => none
  | ["dQ", n, v] => match bytesTok n, bytesTok v with
    | some n, some v => some (.deco (.parameter n v))
    | _, _ => none
  | _ => none

/-- `s` followed by comma separated codes -/
def codesTok (s : String) : Option (List Code) :=
  match s.toList with
  | 's' :: rest =>
    let body := String.ofList rest
    if body.isEmpty then some [] else (body.splitOn ",").mapM codeTok
  | _ => none

def flatOf : List Code → Option (List Step)
  | [] => some []
  | .step s :: rest => (flatOf rest).map (s :: ·)
  | .deco _ :: _ => none

def encsOf : List Code → Option (List Enc)
  | [] => some []
  | .step (.enc e) :: rest => (encsOf rest).map (e :: ·)
  | _ :: _ => none

/-- group `B? enc* term` runs into blocks -/
def groupGo : List Code → Option (Field × List Enc) → Option Ref.Program
  | [], none => some []
  | [], some _ => none
  | .deco d :: rest, none => (groupGo rest none).map (.deco d :: ·)
  | .step (.build (some f)) :: rest, none => groupGo rest (some (f, []))
  | .step (.enc e) :: rest, some (f, es) => groupGo rest (some (f, e :: es))
  | .step (.term t) :: rest, some (f, es) => (groupGo rest none).map (.block ⟨f, es.reverse, t⟩ :: ·)
  | _ :: _, _ => none

def progTok (s : String) : Option Ref.Program := (codesTok s).bind (groupGo · none)

def dictTok (s : String) : Option Dict :=
  match s.toList with
  | 'd' :: rest =>
    let body := String.ofList rest
    if body.isEmpty then some []
    else (body.splitOn ",").mapM fun kv =>
      match kv.splitOn "." with
      | [k, v] => match Hex.decode k, Hex.decode v with
        | some k, some v => some (k, v)
        | _, _ => none
      | _ => none
  | _ => none

def showDict (d : Dict) : String :=
  "d" ++ ",".intercalate (d.map fun (k, v) => Hex.encode k ++ "." ++ Hex.encode v)

def showReq (r : Req) : String :=
  s!"{showBytes r.method} {showBytes r.uri} {showDict r.params} {showDict r.headers} {showBytes r.body}"

def showOB : Option Bytes → String
  | none => "none"
  | some b => showBytes b

def showC2 (c : C2Data) : String := s!"{showOB c.output} {showOB c.metadata} {showOB c.id}"

def showR (f : α → String) : R α → String
  | .ok a => "ok " ++ f a
  | .error e => "exc " ++ e.name

def showOpt (f : α → String) : Option α → String
  | some a => "ok " ++ f a
  | none => "none"

def c2Tok (o m i : String) : Option C2Data :=
  match optTok bytesTok o, optTok bytesTok m, optTok bytesTok i with
  | some o, some m, some i => some ⟨o, m, i⟩
  | _, _, _ => none

/-- `N` (None) or `Q method uri params headers body`; returns the remaining tokens -/
def reqToks : List String → Option (Option Req × List String)
  | "N" :: rest => some (none, rest)
  | "Q" :: m :: u :: p :: h :: b :: rest =>
    match bytesTok m, bytesTok u, dictTok p, dictTok h, bytesTok b with
    | some m, some u, some p, some h, some b => some (some ⟨m, u, p, h, b⟩, rest)
    | _, _, _, _, _ => none
  | _ => none

def httpToks : List String → Option (Http × List String)
  | "S" :: h :: b :: rest =>
    match dictTok h, bytesTok b with
    | some h, some b => some (.response h b, rest)
    | _, _ => none
  | toks => match reqToks toks with
    | some (some r, rest) => some (.request r, rest)
    | _ => none

def randTok (s : String) : Option Rand :=
  (natsTok s).map fun l => fun i => UInt32.ofNat (l.getD i 0)

def buildTok (s : String) : Option (Option (Option Field)) :=
  if s == "none" then some none
  else if s == "o" then some (some (some .output))
  else if s == "i" then some (some (some .id))
  else if s == "m" then some (some (some .metadata))
  else if s == "x" then some (some none)
  else none

/-- the `(transform, http-of-result, reference program)` triple of a structured case -/
def setup (form : String) (prog : String) : Option (Transform × Bool × Ref.Program) :=
  if form == "c" then
    (progTok prog).map fun p => (mkTransform (Ref.compile p) false none, false, p)
  else if form == "s" then
    ((codesTok prog).bind encsOf).map fun es =>
      (mkTransform (Ref.serverSteps es) true (some (some .output)), true, [.block ⟨.output, es, .print⟩])
  else none

def httpOf (server : Bool) (r : Req) : Http :=
  if server then .response r.headers r.body else .request r

def emptyC2 : C2Data := ⟨none, none, none⟩

/-- hypotheses of the round-trip theorems: `Ref.valid` and (uri-append ⇒ empty initial URI) -/
def inDomain (p : Ref.Program) (req : Option Req) : Bool :=
  Ref.valid p && (!Ref.usesUri p || (req.getD emptyReq).uri == [])

/-! ### `g-*` / `pyu` streams -/

def classes : List PyU.Cls :=
  [Gen.PyC2U.HttpRequest, Gen.PyC2U.HttpResponse, Gen.PyC2U.C2Data, Gen.PyC2U.ClientC2Data, Gen.PyC2U.ServerC2Data,
   Gen.PyC2U.SplitResultBytes, Gen.PyC2T.HttpDataTransform]

def clsOf (cid : Nat) : Option PyU.Cls := classes.find? (·.cid == cid)

def vTok (s : String) : Option PyU.V := PyU.vTok (fun _ => none) clsOf s

def showA (f : α → String) : PyU.PyA α → String
  | .ok a => "ok " ++ f a
  | .error (.py e) => "exc " ++ e.name
  | .error .assertion => "exc AssertionError"

/-- `HttpResponse(status=200, headers=r.headers, reason=b"OK", body=r.body)` of a transformed request -/
def responseOf (r : PyU.V) : PyU.V :=
  match PyU.getAttr r "headers", PyU.getAttr r "body" with
  | .ok h, .ok b => .inst Gen.PyC2U.HttpResponse [.int 200, h, .bytes [79, 75], b, .none]
  | _, _ => .none

def gstep : List String → String
  | ["gi", steps, rev, build] =>
    match vTok steps, vTok rev, vTok build with
    | some steps, some rev, some build => showPy PyU.vShow (C04Gen.initG steps rev build)
    | _, _, _ => "bad-op"
  | ["gtr", form, steps, rev, build, c2, req, rnd] =>
    match vTok steps, vTok rev, vTok build, vTok c2, vTok req, randTok rnd with
    | some steps, some rev, some build, some c2, some req, some rand =>
      match C04Gen.initG steps rev build with
      | .error e => "exc " ++ e.name
      | .ok self =>
        match C04Gen.transformG rand self c2 req with
        | .ok r =>
          let http := if form == "S" then responseOf r else r
          s!"T {PyU.vShow r} R {showA PyU.vShow (C04Gen.recoverG self http)}"
        | e => showA PyU.vShow e
    | _, _, _, _, _, _ => "bad-op"
  | ["gr", steps, rev, build, http] =>
    match vTok steps, vTok rev, vTok build, vTok http with
    | some steps, some rev, some build, some http =>
      match C04Gen.initG steps rev build with
      | .error e => "exc " ++ e.name
      | .ok self => showA PyU.vShow (C04Gen.recoverG self http)
    | _, _, _, _ => "bad-op"
  | ["pyu", op, a] =>
    match vTok a with
    | some a =>
      match op with
      | "nbenc" => showPy PyU.vShow (Gen.PyC2T.netbios_encode a)
      | "nbdec" => showPy PyU.vShow (Gen.PyC2T.netbios_decode a)
      | "p32be" => showPy PyU.vShow (Gen.PyC2T.p32be a)
      | _ => "bad-op"
    | none => "bad-op"
  | ["pyu", "xor", a, b] =>
    match vTok a, vTok b with
    | some a, some b => showPy PyU.vShow (Gen.PyC2T.xor a b)
    | _, _ => "bad-op"
  | _ => "bad-op"

def step : List String → String
  | "gi" :: rest => gstep ("gi" :: rest)
  | "gtr" :: rest => gstep ("gtr" :: rest)
  | "gr" :: rest => gstep ("gr" :: rest)
  | "pyu" :: rest => gstep ("pyu" :: rest)
  | "tr" :: form :: prog :: o :: m :: i :: rest =>
    match setup form prog, c2Tok o m i, reqToks rest with
    | some (t, server, p), some c2, some (req, [rnd]) =>
      match randTok rnd with
      | some rand =>
        match transform t rand c2 req with
        | .error e => s!"T exc {e.name} R - D -"
        | .ok r =>
          let p' : Ref.Program := if server then p.map fun
            | .block b => .block { b with encs := b.encs.map Ref.intForm }
            | it => it else p
          s!"T ok {showReq r} R {showR showC2 (recover t (httpOf server r))} D {showOpt showC2 (Ref.decode p' (httpOf server r) emptyC2)} V {showBool (inDomain p' req)}"
      | none => "bad-op"
    | _, _, _ => "bad-op"
  | "re" :: form :: prog :: o :: m :: i :: rest =>
    match setup form prog, c2Tok o m i, reqToks rest with
    | some (t, server, p), some c2, some (req, [rnd]) =>
      match randTok rnd with
      | some rand =>
        let r := Ref.encode p rand c2 (req.getD emptyReq)
        s!"E {showReq r} R {showR showC2 (recover t (httpOf server r))} V {showBool (inDomain p req)}"
      | none => "bad-op"
    | _, _, _ => "bad-op"
  | "trf" :: rev :: build :: prog :: o :: m :: i :: rest =>
    match boolTok rev, buildTok build, (codesTok prog).bind flatOf, c2Tok o m i, reqToks rest with
    | some rev, some build, some steps, some c2, some (req, [rnd]) =>
      match randTok rnd with
      | some rand =>
        let t := mkTransform steps rev build
        match transform t rand c2 req with
        | .error e => s!"exc {e.name}"
        | .ok r => s!"T ok {showReq r} R {showR showC2 (recover t (.request r))}"
      | none => "bad-op"
    | _, _, _, _, _ => "bad-op"
  | "rec" :: rev :: build :: prog :: rest =>
    match boolTok rev, buildTok build, (codesTok prog).bind flatOf, httpToks rest with
    | some rev, some build, some steps, some (http, []) =>
      showR showC2 (recover (mkTransform steps rev build) http)
    | _, _, _, _ => "bad-op"
  | ["b64e", d] => match bytesTok d with
    | some d => showBytes (b64encode d)
    | none => "bad-op"
  | ["u64e", d] => match bytesTok d with
    | some d => showBytes (urlsafeB64encode d)
    | none => "bad-op"
  | ["b64d", d] => match bytesTok d with
    | some d => showPy showBytes (b64decode d)
    | none => "bad-op"
  | ["u64d", d] => match bytesTok d with
    | some d => showPy showBytes (urlsafeB64decode d)
    | none => "bad-op"
  | ["rchain", prog, d] =>
    match (codesTok prog).bind encsOf, bytesTok d with
    | some es, some d => showOpt showBytes (Ref.decChain es d)
    | _, _ => "bad-op"
  | _ => "bad-op"

end C04

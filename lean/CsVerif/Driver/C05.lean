import CsVerif.Model.C05
import CsVerif.Gen.PyC2
/-! Line-protocol driver for the C05 model.

The primitives are NOT computed here.  Every line that needs them carries an *oracle table*:
groups of five tokens `kind key iv data result` (`kind` ∈ `H`,`E`,`D`; `iv` = `x` for `H`;
`result` = bytes token, or `!` when pycryptodome raises ValueError), computed by the harness with
pycryptodome / hmac called directly.  `Crypto` is instantiated with look-ups into that table; the
call log of the model is then checked against the table: a call whose arguments are not in the
table yields `oracle-miss` (the model asked for something the harness did not expect, e.g. a
different padding or a MAC over the wrong bytes). -/
namespace C05
open Proto hiding bytesTok

/-- Tail-recursive hex decoding (`Hex.decodeChars` of Basic.lean recurses once per byte, which
overflows the stack on the 100 kB plaintext lines). -/
def hexGo : List Char → Bytes → Option Bytes
  | [], acc => some acc.reverse
  | [_], _ => none
  | a :: b :: rest, acc =>
    match Hex.val a, Hex.val b with
    | some x, some y => hexGo rest (UInt8.ofNat (x * 16 + y) :: acc)
    | _, _ => none

/-- A byte-string token is `x` followed by lowercase hex (`x` alone = empty). -/
def bytesTok (s : String) : Option Bytes :=
  match s.toList with
  | 'x' :: rest => hexGo rest []
  | _ => none

structure Entry where
  kind : String
  key : Bytes
  iv : Bytes
  data : Bytes
  result : Option Bytes

def parseTable : List String → Option (List Entry)
  | [] => some []
  | kind :: key :: iv :: data :: res :: rest =>
    if kind ≠ "H" ∧ kind ≠ "E" ∧ kind ≠ "D" then none
    else
      match bytesTok key, bytesTok iv, bytesTok data, parseTable rest with
      | some key, some iv, some data, some tl =>
        if res == "!" then some (⟨kind, key, iv, data, none⟩ :: tl)
        else
          match bytesTok res with
          | some r => some (⟨kind, key, iv, data, some r⟩ :: tl)
          | none => none
      | _, _, _, _ => none
  | _ => none

def lookup (tbl : List Entry) (kind : String) (key iv data : Bytes) : Option (Option Bytes) :=
  match tbl.find? fun e => e.kind == kind && e.key == key && e.iv == iv && e.data == data with
  | some e => some e.result
  | none => none

def aesOf (tbl : List Entry) (kind : String) (key iv data : Bytes) : Py Bytes :=
  match lookup tbl kind key iv data with
  | some (some r) => .ok r
  | some none => .error .valueError
  | none => .error .timeoutDiverge   -- reported as `oracle-miss` through the call log

def oracleCrypto (tbl : List Entry) : Crypto where
  aesCbcEnc := aesOf tbl "E"
  aesCbcDec := aesOf tbl "D"
  hmacSha256 k m :=
    match lookup tbl "H" k [] m with
    | some (some r) => r
    | _ => []

def inTable (tbl : List Entry) : Call → Bool
  | .hmac k m => (lookup tbl "H" k [] m).isSome
  | .aesEnc k iv d => (lookup tbl "E" k iv d).isSome
  | .aesDec k iv d => (lookup tbl "D" k iv d).isSome

def showCall : Call → String
  | .hmac k m => s!"H:{showBytes k}:{showBytes m}"
  | .aesEnc k iv d => s!"E:{showBytes k}:{showBytes iv}:{showBytes d}"
  | .aesDec k iv d => s!"D:{showBytes k}:{showBytes iv}:{showBytes d}"

def showTraced (tbl : List Entry) (f : α → String) (r : Traced α) : String :=
  if r.2.all (inTable tbl) then
    showPy f r.1 ++ " calls" ++ String.join (r.2.map fun c => " " ++ showCall c)
  else "oracle-miss"

def showPacket (p : Packet) : String := showBytes p.ciphertext ++ " " ++ showBytes p.signature

def showPackets (ps : List Packet) : String :=
  toString ps.length ++ String.join (ps.map fun p => " " ++ showPacket p)

def showGen (r : GenResult Packet) : String :=
  match r.2 with
  | none => showPackets r.1 ++ " end"
  | some e => "exc " ++ e.name ++ " after " ++ showPackets r.1

def parsePackets : List String → Option (List Packet)
  | [] => some []
  | ct :: sig :: rest =>
    match bytesTok ct, bytesTok sig, parsePackets rest with
    | some ct, some sig, some tl => some (⟨ct, sig⟩ :: tl)
    | _, _, _ => none
  | _ => none

/-- encrypt then decrypt with the same keys; the log is the concatenation of both logs -/
def roundTripT (c : Crypto) (pt : Bytes) (ak hk : Option Bytes) (iv : Bytes) (verify : Bool) : Traced Bytes :=
  match encryptPacketT c pt ak hk iv with
  | (.error e, log) => (.error e, log)
  | (.ok pkt, log) =>
    let r := decryptPacketT c pkt ak hk iv verify
    (r.1, log ++ r.2)

def step : List String → String
  | ["pad", d] =>
    match bytesTok d with
    | some d => showBytes (pad d)
    | none => "bad-op"
  | ["padto", bs, d] =>
    match natTok bs, bytesTok d with
    | some bs, some d => if bs = 0 then "bad-op" else showBytes (padTo bs d)
    | _, _ => "bad-op"
  | "encd" :: d :: ak :: iv :: tbl =>
    match bytesTok d, optTok bytesTok ak, bytesTok iv, parseTable tbl with
    | some d, some ak, some iv, some tbl => showTraced tbl showBytes (encryptDataT (oracleCrypto tbl) d ak iv)
    | _, _, _, _ => "bad-op"
  | "decd" :: d :: ak :: iv :: tbl =>
    match bytesTok d, optTok bytesTok ak, bytesTok iv, parseTable tbl with
    | some d, some ak, some iv, some tbl => showTraced tbl showBytes (decryptDataT (oracleCrypto tbl) d ak iv)
    | _, _, _, _ => "bad-op"
  | "rfs" :: ct :: sig :: hk :: tbl =>
    match bytesTok ct, bytesTok sig, bytesTok hk, parseTable tbl with
    | some ct, some sig, some hk, some tbl =>
      showTraced tbl (fun _ => "None") (raiseForSignatureT (oracleCrypto tbl) ⟨ct, sig⟩ hk)
    | _, _, _, _ => "bad-op"
  | "enc" :: pt :: ak :: hk :: iv :: tbl =>
    match bytesTok pt, optTok bytesTok ak, optTok bytesTok hk, bytesTok iv, parseTable tbl with
    | some pt, some ak, some hk, some iv, some tbl =>
      showTraced tbl showPacket (encryptPacketT (oracleCrypto tbl) pt ak hk iv)
    | _, _, _, _, _ => "bad-op"
  | "dec" :: ct :: sig :: ak :: hk :: iv :: v :: tbl =>
    match bytesTok ct, bytesTok sig, optTok bytesTok ak, optTok bytesTok hk, bytesTok iv, boolTok v, parseTable tbl with
    | some ct, some sig, some ak, some hk, some iv, some v, some tbl =>
      showTraced tbl showBytes (decryptPacketT (oracleCrypto tbl) ⟨ct, sig⟩ ak hk iv v)
    | _, _, _, _, _, _, _ => "bad-op"
  | "rt" :: pt :: ak :: hk :: iv :: v :: tbl =>
    match bytesTok pt, optTok bytesTok ak, optTok bytesTok hk, bytesTok iv, boolTok v, parseTable tbl with
    | some pt, some ak, some hk, some iv, some v, some tbl =>
      showTraced tbl showBytes (roundTripT (oracleCrypto tbl) pt ak hk iv v)
    | _, _, _, _, _, _ => "bad-op"
  | ["p32be", n] =>
    match natTok n with
    | some n => showPy showBytes (p32be n)
    | none => "bad-op"
  | ["dumps", ct, sig] =>
    match bytesTok ct, bytesTok sig with
    | some ct, some sig => showPy showBytes (dumps ⟨ct, sig⟩)
    | _, _ => "bad-op"
  | ["cframes", d] =>
    match optTok bytesTok d with
    | some d => showGen (iterClient d)
    | none => "bad-op"
  | ["sframes", d] =>
    match optTok bytesTok d with
    | some d => showPackets (iterServerPacket d)
    | none => "bad-op"
  | "cfr" :: pkts =>
    match parsePackets pkts with
    | some ps =>
      match dumpsAll ps with
      | .error e => "exc " ++ e.name
      | .ok bs => showGen (iterClient (some bs))
    | none => "bad-op"
  | ["sfr", ct, sig] =>
    match bytesTok ct, bytesTok sig with
    | some ct, some sig => showPackets (iterServerPacket (some (ct ++ sig)))
    | _, _ => "bad-op"
  -- the definitions translated from the source text (Gen/PyC2.lean), run with the same oracle primitives (no call log)
  | ["gpad", d] =>
    match bytesTok d with
    | some d => showPy showBytes (Gen.PyC2.pad d 16)
    | none => "bad-op"
  | ["gpadto", bs, d] =>
    match intTok bs, bytesTok d with
    | some bs, some d => showPy showBytes (Gen.PyC2.pad d bs)
    | _, _ => "bad-op"
  | "gencd" :: d :: ak :: iv :: tbl =>
    match bytesTok d, optTok bytesTok ak, bytesTok iv, parseTable tbl with
    | some d, some ak, some iv, some tbl => showPy showBytes (Gen.PyC2.encrypt_data (oracleCrypto tbl).aesCbcEnc d ak iv)
    | _, _, _, _ => "bad-op"
  | "gdecd" :: d :: ak :: iv :: tbl =>
    match bytesTok d, optTok bytesTok ak, bytesTok iv, parseTable tbl with
    | some d, some ak, some iv, some tbl => showPy showBytes (Gen.PyC2.decrypt_data (oracleCrypto tbl).aesCbcDec d ak iv)
    | _, _, _, _ => "bad-op"
  | "grfs" :: ct :: sig :: hk :: tbl =>
    match bytesTok ct, bytesTok sig, bytesTok hk, parseTable tbl with
    | some ct, some sig, some hk, some tbl =>
      showPy (fun _ => "None") (Gen.PyC2.EncryptedPacket_raise_for_signature (oracleCrypto tbl).hmacSha256 ⟨ct, sig⟩ hk)
    | _, _, _, _ => "bad-op"
  | "genc" :: pt :: ak :: hk :: iv :: tbl =>
    match bytesTok pt, optTok bytesTok ak, bytesTok hk, bytesTok iv, parseTable tbl with
    | some pt, some ak, some hk, some iv, some tbl =>
      let c := oracleCrypto tbl
      showPy (fun p => showBytes p.ciphertext ++ " " ++ showBytes p.signature) (Gen.PyC2.encrypt_packet c.aesCbcEnc c.hmacSha256 pt ak hk iv)
    | _, _, _, _, _ => "bad-op"
  | "gdec" :: ct :: sig :: ak :: hk :: iv :: v :: tbl =>
    match bytesTok ct, bytesTok sig, optTok bytesTok ak, optTok bytesTok hk, bytesTok iv, boolTok v, parseTable tbl with
    | some ct, some sig, some ak, some hk, some iv, some v, some tbl =>
      let c := oracleCrypto tbl
      showPy showBytes (Gen.PyC2.decrypt_packet c.hmacSha256 c.aesCbcDec ⟨ct, sig⟩ ak hk iv v)
    | _, _, _, _, _, _, _ => "bad-op"
  | ["gdumps", ct, sig] =>
    match bytesTok ct, bytesTok sig with
    | some ct, some sig => showPy showBytes (Gen.PyC2.EncryptedPacket_dumps ⟨ct, sig⟩)
    | _, _ => "bad-op"
  | ["gderive", r, digest] =>
    match bytesTok r, bytesTok digest with
    | some r, some digest =>
      showPy (fun p => showBytes p.1 ++ " " ++ showBytes p.2) (Gen.PyC2.derive_aes_hmac_keys (fun _ => digest) r)
    | _, _ => "bad-op"
  | _ => "bad-op"

end C05

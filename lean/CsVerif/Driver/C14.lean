import CsVerif.Model.C14
import CsVerif.Model.C14R
/-! Line-protocol driver for the C14 model.

`hist <copies T|F> <flags: pubkeyOk trial protoHttp hasDomains as 4 chars T|F> <cfg token, ignored> <n> <setting>*n <op>*`

setting  = `nameKey,constKey,enumKey,unparsed,parsed,P`   with `P` = `s<id>` (scalar) or `l<id.id…>` (list, `l` = empty)
op       = `va:<view 0-3>` | `sm:<kind 0-2>:<pretty T|F>:<parse T|F>` | `c2:<key variant 0-4>` | `cl:<T|F>` | `pf`
         | `tr:<d>:<which 0-2>` | `rc:<d>:<which 0-2>` | `wr:<d>:<wire 0-2>` | `pr` | `pp` | `mu:v:<view>` | `mu:f:<kind>:<T|F>:<T|F>` | `sn`
answer   = one token `<result>;<aliased T|F>` per op, then `O:ok`. -/
namespace C14
open Proto

def dotNats (s : String) : Option (List Nat) :=
  if s.isEmpty then some [] else (s.splitOn ".").mapM (·.toNat?)

def showDots (xs : List Nat) : String := ".".intercalate (xs.map toString)

def pvalTok (s : String) : Option PVal :=
  match s.toList with
  | 's' :: rest => (String.ofList rest).toNat?.map .scalar
  | 'l' :: rest => (dotNats (String.ofList rest)).map .list
  | _ => none

def settingTok (s : String) : Option Setting :=
  match s.splitOn "," with
  | [a, b, c, d, e, p] =>
    match a.toNat?, b.toNat?, c.toNat?, d.toNat?, e.toNat?, pvalTok p with
    | some a, some b, some c, some d, some e, some p => some ⟨a, b, c, d, e, p⟩
    | _, _, _, _, _, _ => none
  | _ => none

def viewTok (s : String) : Option View :=
  match s with
  | "0" => some .settings
  | "1" => some .settingsByIndex
  | "2" => some .rawSettings
  | "3" => some .rawSettingsByIndex
  | _ => none

def kindTok (s : String) : Option KeyKind :=
  match s with
  | "0" => some .name
  | "1" => some .const
  | "2" => some .enum
  | _ => none

def variantTok (s : String) : Option KeyVariant :=
  match s with
  | "0" => some .aesHmac
  | "1" => some .aesRand
  | "2" => some .rsaPriv
  | "3" => some .noKey
  | "4" => some .aesRandRsa
  | _ => none

def wireTok (s : String) : Option Wire :=
  match s with
  | "0" => some .checkin
  | "1" => some .task
  | "2" => some .callback
  | "3" => some .unrelated
  | "4" => some .unrelated
  | _ => none

def whichTok (s : String) : Option Which :=
  match s with
  | "0" => some .submit
  | "1" => some .get
  | "2" => some .response
  | _ => none

def opTok (s : String) : Option Op :=
  match s.splitOn ":" with
  | ["va", v] => (viewTok v).map .viewAccess
  | ["sm", k, p, q] =>
    match kindTok k, boolTok p, boolTok q with
    | some k, some p, some q => some (.settingsMap k p q)
    | _, _, _ => none
  | ["c2", k] => (variantTok k).map .mkC2Http
  | ["cl", b] => (boolTok b).map .clientDryRun
  | ["cl", b, _bid] => (boolTok b).map .clientDryRun      -- third field: which (valid) beacon id the harness passes
  | ["pf"] => some .mkProfile
  | ["tr", d, w] =>
    match d.toNat?, whichTok w with
    | some d, some w => some (.transform d w)
    | _, _ => none
  | ["rc", d, w] =>
    match d.toNat?, whichTok w with
    | some d, some w => some (.recover d w)
    | _, _ => none
  | ["wr", d, w] =>
    match d.toNat?, wireTok w with
    | some d, some w => some (.recoverWire d w)
    | _, _ => none
  | ["pr"] => some .propsRaw
  | ["pp"] => some .propsPretty
  | ["mu", "v", v] => (viewTok v).map (fun v => .mutateAttempt (.view v))
  | ["mu", "f", k, p, q] =>
    match kindTok k, boolTok p, boolTok q with
    | some k, some p, some q => some (.mutateAttempt (.fresh k p q))
    | _, _, _ => none
  | ["sn"] => some .snapshotAll
  | _ => none

def showKey (k : Key) : String :=
  (match k.kind with | .name => "n" | .const => "c" | .enum => "e") ++ toString k.id

def showPVal : PVal → String
  | .scalar i => "s" ++ toString i
  | .list xs => "l" ++ showDots xs

def showDMapping (m : DMapping) : String :=
  ",".intercalate (m.map (fun p => showKey p.1 ++ "=" ++ showPVal p.2))

/-- snapshot rendering: number of entries, then the list-valued entries (the only mutable part) -/
def showSnapView (m : DMapping) : String :=
  toString m.length ++ ":" ++
    ",".intercalate ((m.filter (fun p => match p.2 with | .list _ => true | .scalar _ => false)).map
      (fun p => showKey p.1 ++ "=" ++ showPVal p.2))

def showDT (t : DTransform) : String := showDots t.1 ++ "/" ++ showDots t.2

def showDRes : DRes → String
  | .mapping m => "M:" ++ showDMapping m
  | .decoder d => "D:" ++ showDT d.1 ++ "/" ++ showDT d.2.1 ++ "/" ++ showDT d.2.2
  | .profile cells => "P:" ++ toString cells.length
  | .steps xs => "S:" ++ showDots xs
  | .packets ks => "W:" ++ showDots ks
  | .snap ms => "N:" ++ "|".intercalate (ms.map showSnapView)
  | .unit => "U"
  | .exc e => "E:" ++ e.name
  | .noDecoder => "X"
  | .dangling => "!"

def flagsTok (s : String) : Option (Bool × Bool × Bool × Bool) :=
  match s.toList.map (fun ch => boolTok (String.singleton ch)) with
  | [some a, some b, some c, some d] => some (a, b, c, d)
  | _ => none

/-- Stream `raising`: a configuration with a setting whose pretty function raises `exc`; the uses are run through
`Model/C14R.lean` (`C14R.outs` from the initial state).  One token per op: `M` (a mapping) or `E:<exc>`. -/
def raisingUse (op : String) : Option C14R.Use :=
  match op.splitOn ":" with
  | ["va", "0"] => some (.view .settings)
  | ["va", "1"] => some (.view .settingsByIndex)
  | ["va", "2"] => some (.view .rawSettings)
  | ["va", "3"] => some (.view .rawSettingsByIndex)
  | ["sm", _, "T", _] => some (.smap true)
  | ["sm", _, "F", _] => some (.smap false)
  | ["c2", k] => if k == "0" || k == "1" then some .c2http else none
  | ["pf"] => some .profile
  | ["cl", "T"] => some .client
  | _ => none

def showROut (exc : String) : C14R.Out → String
  | .mapping => "M"
  | .raises => "E:" ++ exc

def step' : List String → String
  | "rais" :: exc :: _ :: _cfg :: _n :: ops =>
    match ops.mapM raisingUse with
    | some us => " ".intercalate ((C14R.outs C14R.State.init us).map (showROut exc) ++ ["O:ok"])
    | none => "bad-op"
  | "hist" :: cp :: fl :: _cfg :: n :: rest =>
    match boolTok cp, flagsTok fl, n.toNat? with
    | some cp, some (a, b, c, d), some n =>
      match (rest.take n).mapM settingTok, (rest.drop n).mapM opTok with
      | some tuple, some ops =>
        if (rest.take n).length ≠ n then "bad-op"
        else
          let cfg : Config := ⟨tuple, a, b, c, d⟩
          let outs := runObs cp cfg State.init ops
          " ".intercalate (outs.map (fun p => showDRes p.1 ++ ";" ++ showBool p.2) ++ ["O:ok"])
      | _, _ => "bad-op"
    | _, _, _ => "bad-op"
  | _ => "bad-op"

end C14

import CsVerif.Model.C20
/-! Line-protocol driver for the C20 model. -/
namespace C20
open Proto

def orderTok (s : String) : Option Order :=
  if s == "little" then some .little else if s == "big" then some .big else none

def showOptTxt : Option Txt → String
  | none => "none"
  | some t => showNats t

def step : List String → String
  | ["xor", d, k] =>
    match bytesTok d, bytesTok k with
    | some d, some k => showBytes (xor d k)
    | _, _ => "bad-op"
  | ["xorbig", d, k] =>
    match bytesTok d, bytesTok k with
    | some d, some k => showBytes (xorBig d k)
    | _, _ => "bad-op"
  | ["nbenc", d, off] =>
    match bytesTok d, intTok off with
    | some d, some off => showPy showBytes (netbiosEncode d off)
    | _, _ => "bad-op"
  | ["nbdec", d, off] =>
    match bytesTok d, intTok off with
    | some d, some off => showPy showBytes (netbiosDecode d off)
    | _, _ => "bad-op"
  | ["pack", n, size, o, sg] =>
    match intTok n, optTok natTok size, orderTok o, boolTok sg with
    | some n, some size, some o, some sg => showPy showBytes (pack n size o sg)
    | _, _, _, _ => "bad-op"
  | ["unpack", d, size, o, sg] =>
    match bytesTok d, optTok intTok size, orderTok o, boolTok sg with
    | some d, some size, some o, some sg => toString (unpack d size o sg)
    | _, _, _, _ => "bad-op"
  | ["uri", t] =>
    match natsTok t with
    | some t => s!"{checksum8 t} {showBool (isStagerX86 t)} {showBool (isStagerX64 t)}"
    | none => "bad-op"
  | ["rsu", x64, len, cs] =>
    match boolTok x64, intTok len, natsTok cs with
    | some x64, some len, some cs => showPy showOptTxt (randomStagerUri x64 len cs)
    | _, _, _ => "bad-op"
  | ["gate", req, ext, _method] =>
    match optTok bytesTok req, boolTok ext with
    | some req, some ext =>
      match findStagedBeacon (req.map asciiIgnore) (if ext then some () else none) with
      | some _ => "config"
      | none => "none"
    | _, _ => "bad-op"
  | _ => "bad-op"

end C20

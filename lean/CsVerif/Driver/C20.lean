import CsVerif.Model.C20
import CsVerif.Gen.PyUtils
/-! Line-protocol driver for the C20 model. -/
namespace C20
open Proto

def orderTok (s : String) : Option Order :=
  if s == "little" then some .little else if s == "big" then some .big else none

def showOptTxt : Option Txt → String
  | none => "none"
  | some t => showNats t

def step : List String → String
  | ["xor", d, k] =>
    match bytesTok d, bytesTok k with
    | some d, some k => showBytes (xor d k)
    | _, _ => "bad-op"
  | ["xorbig", d, k] =>
    match bytesTok d, bytesTok k with
    | some d, some k => showBytes (xorBig d k)
    | _, _ => "bad-op"
  | ["nbenc", d, off] =>
    match bytesTok d, intTok off with
    | some d, some off => showPy showBytes (netbiosEncode d off)
    | _, _ => "bad-op"
  | ["nbdec", d, off] =>
    match bytesTok d, intTok off with
    | some d, some off => showPy showBytes (netbiosDecode d off)
    | _, _ => "bad-op"
  | ["pack", n, size, o, sg] =>
    match intTok n, optTok natTok size, orderTok o, boolTok sg with
    | some n, some size, some o, some sg => showPy showBytes (pack n size o sg)
    | _, _, _, _ => "bad-op"
  | ["unpack", d, size, o, sg] =>
    match bytesTok d, optTok intTok size, orderTok o, boolTok sg with
    | some d, some size, some o, some sg => toString (unpack d size o sg)
    | _, _, _, _ => "bad-op"
  | ["uri", t] =>
    match natsTok t with
    | some t => s!"{checksum8 t} {showBool (isStagerX86 t)} {showBool (isStagerX64 t)}"
    | none => "bad-op"
  | ["rsu", x64, len, cs] =>
    match boolTok x64, intTok len, natsTok cs with
    | some x64, some len, some cs => showPy showOptTxt (randomStagerUri x64 len cs)
    | _, _, _ => "bad-op"
  | ["gate", req, ext, _method] =>
    match optTok bytesTok req, boolTok ext with
    | some req, some ext =>
      match findStagedBeacon (req.map asciiIgnore) (if ext then some () else none) with
      | some _ => "config"
      | none => "none"
    | _, _ => "bad-op"
  -- the definitions translated from the source text (Gen/PyUtils.lean); byteorder is an arbitrary ASCII token here
  | ["gxor", d, k] =>
    match bytesTok d, bytesTok k with
    | some d, some k => showPy showBytes (Gen.PyUtils.xor d k)
    | _, _ => "bad-op"
  | ["gnbenc", d, off] =>
    match bytesTok d, intTok off with
    | some d, some off => showPy showBytes (Gen.PyUtils.netbios_encode d off)
    | _, _ => "bad-op"
  | ["gnbdec", d, off] =>
    match bytesTok d, intTok off with
    | some d, some off => showPy showBytes (Gen.PyUtils.netbios_decode d off)
    | _, _ => "bad-op"
  | ["gpack", n, size, o, sg] =>
    match intTok n, optTok intTok size, boolTok sg with
    | some n, some size, some sg => showPy showBytes (Gen.PyUtils.pack n size (PyRt.s o) sg)
    | _, _, _ => "bad-op"
  | ["gunpack", d, size, o, sg] =>
    match bytesTok d, optTok intTok size, boolTok sg with
    | some d, some size, some sg => showPy toString (Gen.PyUtils.unpack d size (PyRt.s o) sg)
    | _, _, _ => "bad-op"
  | ["guri", t] =>
    match natsTok t with
    | some t =>
      showPy id (do
        let c ← Gen.PyUtils.checksum8 t
        let a ← Gen.PyUtils.is_stager_x86 t
        let b ← Gen.PyUtils.is_stager_x64 t
        pure s!"{c} {showBool a} {showBool b}")
    | none => "bad-op"
  | ["gpart", name, arg, sg] =>
    -- the partial applications u8 … p64be: `arg` is bytes for u*, an int for p*
    match boolTok sg with
    | none => "bad-op"
    | some sg =>
      let u (f : Bytes → Bool → Py Int) : String := match bytesTok arg with | some d => showPy toString (f d sg) | none => "bad-op"
      let p (f : Int → Bool → Py Bytes) : String := match intTok arg with | some n => showPy showBytes (f n sg) | none => "bad-op"
      let le := PyRt.s "little"
      match name with
      | "u8" => u (Gen.PyUtils.u8 · le ·) | "u16" => u (Gen.PyUtils.u16 · le ·) | "u32" => u (Gen.PyUtils.u32 · le ·)
      | "u64" => u (Gen.PyUtils.u64 · le ·) | "u16be" => u Gen.PyUtils.u16be | "u32be" => u Gen.PyUtils.u32be
      | "u64be" => u Gen.PyUtils.u64be
      | "p8" => p (Gen.PyUtils.p8 · le ·) | "p16" => p (Gen.PyUtils.p16 · le ·) | "p32" => p (Gen.PyUtils.p32 · le ·)
      | "p64" => p (Gen.PyUtils.p64 · le ·) | "p16be" => p Gen.PyUtils.p16be | "p32be" => p Gen.PyUtils.p32be
      | "p64be" => p Gen.PyUtils.p64be
      | _ => "bad-op"
  | _ => "bad-op"

end C20

import CsVerif.Model.C13
import CsVerif.Model.C13Gen
/-! Line-protocol driver for the C13 model (matching encoders: tools/harness/c13.py).

payload :=  `U <n> (x<hex>|none)*  S <n> <setting>*`
setting :=  `<idx> i1|i2 <nat>` | `<idx> s x<hex>` | `<idx> b x<hex>` | `<idx> n`
          | `<idx> T <n> <tstep>*`   tstep := `B:x<hex>` | `E:<0..6>` | `A:<0..3>:x<hex>` | `S:<0..2>:x<hex>`
          | `<idx> R <n> <rstep>*`   rstep := `a<nat>` | `p<nat>` | `f<0..5>`
          | `<idx> X <n> (x<hex>|none)*` | `<idx> J <n> (P|A):x<hex>*` | `<idx> G <n> x<hex>*`
ops
  `gen <payload>`  the generated tree            `ok pv=T tree <tree>` | `exc <E>`
  `rt  <payload>`  printable?, dictionary of the re-parsed text   `ok text=T reparse=T dict <dict>` | `ok text=F` | `exc <E>`
  `chk <payload>`  the property instance         `wf=F` | `wf=T total=<b> valid=<b> faithful=<b> noempty=<b>`
  `ggen <payload>` the generated tree computed by the definition TRANSLATED from the source of `from_beacon_config`
                  (Gen/PyC2Gen.lean, builder API instantiated in Model/C13Gen.lean); same answer format as `gen`
  `gargs <settings_by_index> <uris>`  the translated definition on arbitrary values (notation: Model/PyUShow.lean)   `ok <value>` | `exc <E>`
  `pyu <op> <operands>`  one operation of Model/PyU_T13.lean (isbool, items, dditem, ddappend)
tree  := prefix form, node `n<hex label>:<arity>` (`nN:<arity>` for the label None), tokens `o<hex>` / `s<hex>`
dict  := entries `<hex key>=<v>;<v>…` sorted by key; v := `r<hex>` | `p<hex>,<hex>` | `t<hex>(,<hex>|,E)*`
-/
namespace C13
open Proto

def enSteps : List EnStep := [.base64, .base64url, .netbios, .netbiosu, .uriAppend, .print, .mask]
def argSteps : List ArgStep := [.header, .parameter, .append, .prepend]
def staticSteps : List StaticStep := [.hdr, .hostHdr, .param]

def tstepTok (w : String) : Option TStep :=
  match w.splitOn ":" with
  | ["B", x] => (bytesTok x).map TStep.build
  | ["E", i] => i.toNat?.bind fun n => enSteps[n]?.map TStep.en
  | ["A", i, x] => i.toNat?.bind fun n => argSteps[n]?.bind fun a => (bytesTok x).map (TStep.arg a)
  | ["S", i, x] => i.toNat?.bind fun n => staticSteps[n]?.bind fun a => (bytesTok x).map (TStep.static a)
  | _ => none

def rflags : List RStep := [.base64, .print, .netbios, .netbiosu, .base64url, .mask]

def rstepTok (w : String) : Option RStep :=
  match w.toList with
  | 'a' :: r => (String.ofList r).toNat?.map RStep.append
  | 'p' :: r => (String.ofList r).toNat?.map RStep.prepend
  | 'f' :: r => (String.ofList r).toNat?.bind fun n => rflags[n]?
  | _ => none

def injTok (w : String) : Option (Bool × Bytes) :=
  match w.splitOn ":" with
  | ["P", x] => (bytesTok x).map fun v => (true, v)
  | ["A", x] => (bytesTok x).map fun v => (false, v)
  | _ => none

/-- read `n` items with `f` -/
def takeN (f : String → Option α) : Nat → List String → Option (List α × List String)
  | 0, ws => some ([], ws)
  | n + 1, w :: ws =>
    match f w, takeN f n ws with
    | some a, some (as, r) => some (a :: as, r)
    | _, _ => none
  | _ + 1, [] => none

def valueTok : List String → Option (PVal × List String)
  | "i1" :: n :: r => n.toNat?.map fun x => (.int x, r)
  | "i2" :: n :: r => n.toNat?.map fun x => (.int x, r)
  | "s" :: x :: r => (bytesTok x).map fun v => (.str v, r)
  | "b" :: x :: r => (bytesTok x).map fun v => (.bytes v, r)
  | "n" :: r => some (.none, r)
  | "T" :: n :: r => n.toNat?.bind fun c => (takeN tstepTok c r).map fun p => (.transform p.1, p.2)
  | "R" :: n :: r => n.toNat?.bind fun c => (takeN rstepTok c r).map fun p => (.recover p.1, p.2)
  | "X" :: n :: r => n.toNat?.bind fun c => (takeN (optTok bytesTok) c r).map fun p => (.execute p.1, p.2)
  | "J" :: n :: r => n.toNat?.bind fun c => (takeN injTok c r).map fun p => (.inj p.1, p.2)
  | "G" :: n :: r => n.toNat?.bind fun c => (takeN bytesTok c r).map fun p => (.gate p.1, p.2)
  | _ => none

def settingsTok : Nat → List String → Option (List (Nat × PVal) × List String)
  | 0, ws => some ([], ws)
  | n + 1, i :: ws =>
    match i.toNat?, valueTok ws with
    | some idx, some (v, r) =>
      match settingsTok n r with
      | some (ss, r') => some ((idx, v) :: ss, r')
      | none => none
    | _, _ => none
  | _ + 1, [] => none

def payloadTok : List String → Option (List (Option Bytes) × List (Nat × PVal))
  | "U" :: n :: r =>
    match n.toNat?.bind fun c => takeN (optTok bytesTok) c r with
    | some (uris, "S" :: m :: r') =>
      match m.toNat?.bind fun c => settingsTok c r' with
      | some (cfg, []) => some (uris, settingsByIndex cfg)
      | _ => none
    | _ => none
  | _ => none

/-! output -/

def forestLen : PForest → Nat
  | .nil => 0
  | .tok _ _ r => forestLen r + 1
  | .node _ _ r => forestLen r + 1

def showLabel : Option Bytes → String
  | some l => Hex.encode l
  | none => "N"

def showForest : PForest → List String
  | .nil => []
  | .tok o t r => ((if o then "o" else "s") ++ Hex.encode t) :: showForest r
  | .node l ks r => s!"n{showLabel l}:{forestLen ks}" :: (showForest ks ++ showForest r)

def showTree (t : PTree) : String :=
  " ".intercalate (s!"n{showLabel t.label}:{forestLen t.kids}" :: showForest t.kids)

def showPyB : Py Bytes → String
  | .ok v => Hex.encode v
  | .error _ => "E"

def showDVal : DVal → String
  | .raw s => "r" ++ Hex.encode s
  | .kw s => "r" ++ Hex.encode s
  | .pair x y => "p" ++ Hex.encode x ++ "," ++ Hex.encode y
  | .tuple kw args => "t" ++ Hex.encode kw ++ String.join (args.map fun a => "," ++ showPyB a)

def keyStr (key : List Bytes) : String := Hex.encode (joinDot key)
where
  joinDot : List Bytes → Bytes
    | [] => []
    | [x] => x
    | x :: y :: r => x ++ [46] ++ joinDot (y :: r)

def insertSorted (x : String) : List String → List String
  | [] => [x]
  | y :: ys => if x < y || x == y then x :: y :: ys else y :: insertSorted x ys

def showDict (es : List Entry) : String :=
  let keys := ((es.map fun e => keyStr e.1).eraseDups).foldr insertSorted []
  " ".intercalate (keys.map fun key =>
    key ++ "=" ++ ";".intercalate ((es.filter fun e => keyStr e.1 == key).map fun e => showDVal e.2))

def showPyV : Py PyU.V → String
  | .ok v => "ok " ++ PyU.vShow v
  | .error e => "exc " ++ e.name

def vTokG (s : String) : Option PyU.V := PyU.vTok (fun _ => none) C13Gen.clsOf s

/-- `pyu <op> <operands>`: one operation of the run-time library added for `from_beacon_config` (Model/PyU_T13.lean) -/
def pyuStep : List String → String
  | ["isbool", a, b] =>
    match vTokG a, vTokG b with
    | some a, some (.bool b) => "ok " ++ (if PyU.t13IsBool a b then "T" else "F")
    | _, _ => "bad-op"
  | ["items", a] =>
    match vTokG a with
    | some a => showPyV (PyU.t13Items a)
    | none => "bad-op"
  | ["dditem", a, b] =>
    match vTokG a, vTokG b with
    | some a, some b => showPyV (PyU.t13DdItem a b)
    | _, _ => "bad-op"
  | ["ddappend", a, b, c] =>
    match vTokG a, vTokG b, vTokG c with
    | some a, some b, some c => showPyV (do let d ← PyU.t13DdItem a b; PyU.t13DdAppend d b c)
    | _, _, _ => "bad-op"
  | _ => "bad-op"

def step : List String → String
  | "pyu" :: rest => pyuStep rest
  | "gen" :: ws =>
    match payloadTok ws with
    | none => "bad-op"
    | some (uris, cfg) =>
      match fromBeaconConfig cfg uris with
      | .error e => "exc " ++ e.name
      | .ok t => "ok pv=T tree " ++ showTree t
  | "ggen" :: ws =>
    match payloadTok ws with
    | none => "bad-op"
    | some (uris, cfg) =>
      match C13Gen.fromBeaconConfigG cfg uris with
      | .error e => "exc " ++ e.name
      | .ok v => "ok pv=T tree " ++ C13Gen.showRootV v
  | ["gargs", a, b] =>
    match vTokG a, vTokG b with
    | some sbi, some uris => showPyV (C13Gen.fromBeaconConfigV (.inst Gen.PyC2Gen.BeaconConfigCls [sbi, uris]))
    | _, _ => "bad-op"
  | "rt" :: ws =>
    match payloadTok ws with
    | none => "bad-op"
    | some (uris, cfg) =>
      match fromBeaconConfig cfg uris with
      | .error e => "exc " ++ e.name
      | .ok t =>
        if !printable t then "ok text=F"
        else if !t.kids.commentsOneLine then "ok text=T reparse=F"
        else ("ok text=T reparse=T dict " ++ showDict (specDict t.reparsed)).trimAsciiEnd.toString
  | "chk" :: ws =>
    match payloadTok ws with
    | none => "bad-op"
    | some (uris, cfg) =>
      if !WellFormedCfg cfg then "wf=F"
      else
        match fromBeaconConfig cfg uris with
        | .error _ => "wf=T total=F valid=F faithful=F noempty=F"
        | .ok t =>
          s!"wf=T total=T valid={showBool (printable t)} faithful={showBool (specDict t.reparsed == expectedDict cfg uris)} noempty={showBool (printable t && noEmptyBlocks t.kids)}"
  | _ => "bad-op"

end C13

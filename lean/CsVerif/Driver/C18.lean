import CsVerif.Model.C18
/-! Line-protocol driver for the C18 model.

PE ops:   `<op> <kind B|O> <data xhex> <pos0> <start none|n> <maxrange> <expect (ignored)>`   with op ∈ mz arch stamps mmz mpe ppa
          answer = result tokens followed by the final `fh.tell()`
version:  `ver l<code points>`            → `ok none` | `exc ValueError` | `ok <tuple> <y> <m> <d> <version_only>`
          `tbl pe|enum <key>`             → looked-up text (code points) + the `ver` answer for it
          `cfg <stamp none|int> l<enums>` → `ok <text>` | `exc ValueError`   (BeaconConfig.version precedence)
          `fmt <maj> <min> <patch none|n> <y> <m> <d>` → formatted text + its `ver` answer
          `hist l<enums> <op|op|…>`       → outputs of the reads of a history on ONE BeaconConfig (ops r m s<v> c<v> a<v>), joined by ` | `
          `verhist <l..|l..|…>`           → `ver` answers of successive BeaconVersion constructions
          `pehist <kind> <data> <maxrange> <op:start:seek:expect|…>` → answers of successive pe.find_* calls on ONE file object
          `cls <lo> <hi>`                 → one character per code point in [lo, hi): `s` = `\s`, `0`..`9` = value of a `\d`, `-`
          `mono pe|enum <k1> <k2>`        → `T`/`F`: k1 < k2 ⇒ (tuple, date) of k1 ≤ those of k2 (both keys in the table)
-/
namespace C18
open Proto

def kindTok (s : String) : Option FileKind :=
  if s == "B" then some .bytesIO else if s == "O" then some .osFile else none

def showOptBytes : Option Bytes → String
  | none => "none"
  | some b => showBytes b

def showOptInt : Option Int → String
  | none => "none"
  | some i => toString i

def showOptNat : Option Nat → String
  | none => "none"
  | some i => toString i

def showVer : Py (Option VersionInfo) → String
  | .error e => "exc " ++ e.name
  | .ok none => "ok none"
  | .ok (some v) =>
    s!"ok {showNats v.tuple} {v.date.y} {v.date.m} {v.date.d} {showNats (versionOnly (some v))}"

def mkFile (k : FileKind) (d : Bytes) (pos : Nat) : PyFile := { data := d, pos := pos, kind := k }

def peOpTok (s : String) : Option PeOp :=
  match s with
  | "mz" => some .mz
  | "arch" => some .arch
  | "stamps" => some .stamps
  | "mmz" => some .mmz
  | "mpe" => some .mpe
  | "ppa" => some .ppa
  | _ => none

/-- result tokens followed by the final `fh.tell()`; an exception is rendered alone -/
def showPeOut (o : PeOut) (pos : Nat) : String :=
  match o with
  | .mz r => s!"{showOptNat r} {pos}"
  | .arch r => s!"{match r with | none => "none" | some a => a.name} {pos}"
  | .stamps (.error e) => "exc " ++ e.name
  | .stamps (.ok (c, x)) => s!"ok {showOptInt c} {showOptInt x} {pos}"
  | .mmz r => s!"{showOptBytes r} {pos}"
  | .mpe (.error e) => "exc " ++ e.name
  | .mpe (.ok m) => s!"ok {showOptBytes m} {pos}"
  | .ppa (.error e) => "exc " ++ e.name
  | .ppa (.ok (p, a)) => s!"ok {showOptBytes p} {showOptBytes a} {pos}"

def peOp (op : String) (f : PyFile) (start : Option Nat) (maxrange : Nat) : String :=
  match peOpTok op with
  | some o => let r := peCall f start maxrange o; showPeOut r.1 r.2.tell
  | none => "bad-op"

/-- items `op:start:seek:expect` (`seek` = `-` or an absolute `fh.seek` before the call) -/
def peCallTok (item : String) : Option PeCall :=
  match item.splitOn ":" with
  | [op, start, sk, _expect] =>
    match peOpTok op, optTok natTok start, (if sk == "-" then some none else (natTok sk).map some) with
    | some op, some start, some sk => some ⟨op, start, sk⟩
    | _, _, _ => none
  | _ => none

def archTok (s : String) : Option (Option Arch) :=
  if s == "none" then some none else if s == "x86" then some (some .x86) else if s == "x64" then some (some .x64) else none

/-- `r` read version, `m` read max_setting_enum, `s<int|none>` / `c<int|none>` / `a<x86|x64|none>` attribute assignments -/
def cfgOpTok (s : String) : Option CfgOp :=
  match s.toList with
  | ['r'] => some .readVersion
  | ['m'] => some .readMaxEnum
  | 's' :: r => (optTok intTok (String.ofList r)).map .setExportStamp
  | 'c' :: r => (optTok intTok (String.ofList r)).map .setCompileStamp
  | 'a' :: r => (archTok (String.ofList r)).map .setArch
  | _ => none

def showCfgOut : CfgOut → String
  | .version (.error e) => "exc " ++ e.name
  | .version (.ok t) => s!"{showNats t} {showVer (parseVersion t)}"
  | .maxEnum r => showPy toString r

def step : List String → String
  | ["fmt", maj, mn, patch, y, m, d] =>
    match natTok maj, natTok mn, optTok natTok patch, natTok y, natTok m, natTok d with
    | some maj, some mn, some patch, some y, some m, some d =>
      let t := formatVersion maj mn patch ⟨y, m, d⟩
      s!"{showNats t} {showVer (parseVersion t)}"
    | _, _, _, _, _, _ => "bad-op"
  | [op, k, d, pos, start, maxrange, _expect] =>
    match kindTok k, bytesTok d, natTok pos, optTok natTok start, natTok maxrange with
    | some k, some d, some pos, some start, some maxrange => peOp op (mkFile k d pos) start maxrange
    | _, _, _, _, _ => "bad-op"
  | ["ver", t] =>
    match natsTok t with
    | some t => showVer (parseVersion t)
    | none => "bad-op"
  | ["tbl", which, key] =>
    match intTok key with
    | some key =>
      let tbl := if which == "pe" then some Gen.Version.peExportStampEntries
        else if which == "enum" then some Gen.Version.maxEnumEntries else none
      match tbl with
      | some tbl => let t := lookup tbl key; s!"{showNats t} {showVer (parseVersion t)}"
      | none => "bad-op"
    | none => "bad-op"
  | ["mono", which, k1, k2] =>
    match intTok k1, intTok k2 with
    | some k1, some k2 =>
      if which == "pe" then showBool (monotoneAt Gen.Version.peExportStampEntries k1 k2)
      else if which == "enum" then showBool (monotoneAt Gen.Version.maxEnumEntries k1 k2)
      else "bad-op"
    | _, _ => "bad-op"
  | ["hist", enums, ops] =>
    match natsTok enums, (ops.splitOn "|").mapM cfgOpTok with
    | some enums, some ops => " | ".intercalate ((cfgRun enums {} ops).map showCfgOut)
    | _, _ => "bad-op"
  | ["verhist", ts] =>
    match (ts.splitOn "|").mapM natsTok with
    | some ts => " | ".intercalate (ts.map fun t => showVer (parseVersion t))
    | none => "bad-op"
  | ["pehist", k, d, maxrange, calls] =>
    match kindTok k, bytesTok d, natTok maxrange with
    | some k, some d, some maxrange =>
      match (calls.splitOn "|").mapM peCallTok with
      | some cs => " | ".intercalate ((peRun maxrange (mkFile k d 0) cs).map fun r => showPeOut r.1 r.2)
      | none => "bad-op"
    | _, _, _ => "bad-op"
  | ["cls", lo, hi] =>
    match natTok lo, natTok hi with
    | some lo, some hi =>
      String.ofList ((List.range (hi - lo)).map fun i =>
        let c := lo + i
        if isSpace c then 's' else
        match digitValue? c with
        | some v => Char.ofNat (48 + v)
        | none => '-')
    | _, _ => "bad-op"
  | ["stage", d, enums, _expect] =>
    -- `BeaconConfig.from_bytes` on a payload whose configuration block is found in the raw view: the PE artifacts are
    -- `find_compile_stamps(fh)` then `find_architecture(fh)` on the same file object (defaults 0 / 1024), the version follows
    match bytesTok d, natsTok enums with
    | some d, some enums =>
      let r1 := peCall (mkFile .bytesIO d 0) (some 0) 1024 .stamps
      match r1.1 with
      | .stamps (.error e) => "exc " ++ e.name
      | .stamps (.ok (c, x)) =>
        let r2 := peCall r1.2 (some 0) 1024 .arch
        match r2.1 with
        | .arch a =>
          let an := match a with | none => "none" | some a => a.name
          s!"ok {an} {showOptInt c} {showOptInt x} " ++ showPy showNats (configVersion x enums)
        | _ => "bad-op"
      | _ => "bad-op"
    | _, _ => "bad-op"
  | ["cfg", stamp, enums] =>
    match optTok intTok stamp, natsTok enums with
    | some stamp, some enums => showPy showNats (configVersion stamp enums)
    | _, _ => "bad-op"
  | _ => "bad-op"

end C18

import CsVerif.Model.C18
import CsVerif.Model.C18Gen
import CsVerif.Model.PyUShow
/-! Line-protocol driver for the C18 model.

PE ops:   `<op> <kind B|O> <data xhex> <pos0> <start none|n> <maxrange> <expect (ignored)>`   with op ∈ mz arch stamps mmz mpe ppa
          answer = result tokens followed by the final `fh.tell()`
version:  `ver l<code points>`            → `ok none` | `exc ValueError` | `ok <tuple> <y> <m> <d> <version_only>`
          `tbl pe|enum <key>`             → looked-up text (code points) + the `ver` answer for it
          `cfg <stamp none|int> l<enums>` → `ok <text>` | `exc ValueError`   (BeaconConfig.version precedence)
          `fmt <maj> <min> <patch none|n> <y> <m> <d>` → formatted text + its `ver` answer
          `hist l<enums> <op|op|…>`       → outputs of the reads of a history on ONE BeaconConfig (ops r m s<v> c<v> a<v>), joined by ` | `
          `verhist <l..|l..|…>`           → `ver` answers of successive BeaconVersion constructions
          `pehist <kind> <data> <maxrange> <op:start:seek:expect|…>` → answers of successive pe.find_* calls on ONE file object
          `cls <lo> <hi>`                 → one character per code point in [lo, hi): `s` = `\s`, `0`..`9` = value of a `\d`, `-`
          `mono pe|enum <k1> <k2>`        → `T`/`F`: k1 < k2 ⇒ (tuple, date) of k1 ≤ those of k2 (both keys in the table)
`g-*` streams — the definitions TRANSLATED from the source of pe.py (Gen/PyPe.lean):
          `g<op> <kind> <data> <pos0> <start none|n|dflt> <maxrange n|dflt> <expect>` → the same format as `<op>` (`dflt` = the argument is
                                             left out of the call: the default of the SOURCE is used; a value of an unexpected shape: `?…`)
          `gpehist <kind> <data> <maxrange> <op:start:seek:expect|…>` → as `pehist` (after an exception the file object of the hand model goes on)
          `garg <op> <file:V> <start:V> <maxrange:V>` → `ok <result:V> <final tell>` | `exc <E>`  (arguments of any kind, notation of PyUShow;
                                             a file object is `I9000[b<data>;i<pos>;i<kind>]`)
`pyu` stream — the operations of Model/PyU_T18.lean:
          `pyu sread <type> <file:V>` / `pyu sreadn <type> <file:V> <n:V>` → `ok <value:V> <tell>` | `eof <tell>` | `exc <E>`  (`Type(fh)`,
                                             `[Type(fh) for _ in range(n)]`; type names: `Gen.PyPe.typeTable`)
          `pyu tobytes <n:V> <len:V> <order:V>` → `ok <V>` | `exc <E>`
version:  `gtbl pe|enum <key>` / `gcfg <stamp> l<enums>` / `ghist l<enums> <ops>` → as `tbl` / `cfg` / `hist`, through the translated
          `BeaconVersion.from_*` / `BeaconConfig.version` (constructor = the model's `parseVersion`); `gargv pe|enum <key:V>` → as `tbl`
-/
namespace C18
open Proto

def kindTok (s : String) : Option FileKind :=
  if s == "B" then some .bytesIO else if s == "O" then some .osFile else none

def showOptBytes : Option Bytes → String
  | none => "none"
  | some b => showBytes b

def showOptInt : Option Int → String
  | none => "none"
  | some i => toString i

def showOptNat : Option Nat → String
  | none => "none"
  | some i => toString i

def showVer : Py (Option VersionInfo) → String
  | .error e => "exc " ++ e.name
  | .ok none => "ok none"
  | .ok (some v) =>
    s!"ok {showNats v.tuple} {v.date.y} {v.date.m} {v.date.d} {showNats (versionOnly (some v))}"

def mkFile (k : FileKind) (d : Bytes) (pos : Nat) : PyFile := { data := d, pos := pos, kind := k }

def peOpTok (s : String) : Option PeOp :=
  match s with
  | "mz" => some .mz
  | "arch" => some .arch
  | "stamps" => some .stamps
  | "mmz" => some .mmz
  | "mpe" => some .mpe
  | "ppa" => some .ppa
  | _ => none

/-- result tokens followed by the final `fh.tell()`; an exception is rendered alone -/
def showPeOut (o : PeOut) (pos : Nat) : String :=
  match o with
  | .mz r => s!"{showOptNat r} {pos}"
  | .arch r => s!"{match r with | none => "none" | some a => a.name} {pos}"
  | .stamps (.error e) => "exc " ++ e.name
  | .stamps (.ok (c, x)) => s!"ok {showOptInt c} {showOptInt x} {pos}"
  | .mmz r => s!"{showOptBytes r} {pos}"
  | .mpe (.error e) => "exc " ++ e.name
  | .mpe (.ok m) => s!"ok {showOptBytes m} {pos}"
  | .ppa (.error e) => "exc " ++ e.name
  | .ppa (.ok (p, a)) => s!"ok {showOptBytes p} {showOptBytes a} {pos}"

def peOp (op : String) (f : PyFile) (start : Option Nat) (maxrange : Nat) : String :=
  match peOpTok op with
  | some o => let r := peCall f start maxrange o; showPeOut r.1 r.2.tell
  | none => "bad-op"

/-- items `op:start:seek:expect` (`seek` = `-` or an absolute `fh.seek` before the call) -/
def peCallTok (item : String) : Option PeCall :=
  match item.splitOn ":" with
  | [op, start, sk, _expect] =>
    match peOpTok op, optTok natTok start, (if sk == "-" then some none else (natTok sk).map some) with
    | some op, some start, some sk => some ⟨op, start, sk⟩
    | _, _, _ => none
  | _ => none

def archTok (s : String) : Option (Option Arch) :=
  if s == "none" then some none else if s == "x86" then some (some .x86) else if s == "x64" then some (some .x64) else none

/-- `r` read version, `m` read max_setting_enum, `s<int|none>` / `c<int|none>` / `a<x86|x64|none>` attribute assignments -/
def cfgOpTok (s : String) : Option CfgOp :=
  match s.toList with
  | ['r'] => some .readVersion
  | ['m'] => some .readMaxEnum
  | 's' :: r => (optTok intTok (String.ofList r)).map .setExportStamp
  | 'c' :: r => (optTok intTok (String.ofList r)).map .setCompileStamp
  | 'a' :: r => (archTok (String.ofList r)).map .setArch
  | _ => none

def showCfgOut : CfgOut → String
  | .version (.error e) => "exc " ++ e.name
  | .version (.ok t) => s!"{showNats t} {showVer (parseVersion t)}"
  | .maxEnum r => showPy toString r

/-! ### `g-*` / `pyu` streams: the translated definitions -/

def vTell? (v : PyU.V) : Option Nat := (PyU.asFile v).map (·.2.1)

def vOptInt? : PyU.V → Option String
  | .none => some "none"
  | .int n => some (toString n)
  | _ => none

def vOptBytes? : PyU.V → Option String
  | .none => some "none"
  | .bytes b => some (showBytes b)
  | _ => none

def vOptStr? : PyU.V → Option String
  | .none => some "none"
  | .str cs => some (String.ofList (cs.map Char.ofNat))
  | _ => none

/-- the result tokens of a translated helper, in the format of `showPeOut` -/
def vPeTokens (op : PeOp) (x : PyU.V) : Option String :=
  match op, x with
  | .mz, x => vOptInt? x
  | .arch, x => vOptStr? x
  | .stamps, .tuple [c, e] => match vOptInt? c, vOptInt? e with
    | some c, some e => some s!"ok {c} {e}"
    | _, _ => none
  | .mmz, x => vOptBytes? x
  | .mpe, x => (vOptBytes? x).map ("ok " ++ ·)
  | .ppa, .tuple [p, a] => match vOptBytes? p, vOptBytes? a with
    | some p, some a => some s!"ok {p} {a}"
    | _, _ => none
  | _, _ => none

def showPeV (op : PeOp) (r : Py PyU.V) : String :=
  match r with
  | .error e => "exc " ++ e.name
  | .ok (.tuple [x, f]) =>
    match vPeTokens op x, vTell? f with
    | some t, some p => s!"{t} {p}"
    | _, _ => "?pe"
  | .ok _ => "?pe"

def clsOf (cid : Nat) : Option PyU.Cls := if cid == 9000 then some PyU.FileCls else none

def vTok (s : String) : Option PyU.V := PyU.vTok (fun _ => none) clsOf s

/-- `none`, an int, or `dflt` (the argument is left out: the default of the source) -/
def argTok (dflt : PyU.V) (s : String) : Option PyU.V :=
  if s == "dflt" then some dflt else if s == "none" then some .none else (intTok s).map .int

def vPair (r : PyU.V × PyU.V) : String :=
  match vTell? r.2 with
  | some t => s!"ok {PyU.vShow r.1} {t}"
  | none => s!"ok {PyU.vShow r.1} -"

def vOptPair (r : Option PyU.V × PyU.V) : String :=
  match r.1, vTell? r.2 with
  | some v, some t => s!"ok {PyU.vShow v} {t}"
  | none, some t => s!"eof {t}"
  | _, none => "?file"

def showPy' (f : α → String) : Py α → String
  | .ok a => f a
  | .error e => "exc " ++ e.name

/-- several translated calls on ONE file object; after an exception (the translated definition has discarded the file) the file of
the hand-written model goes on -/
def gpeRun (maxrange : Nat) : PyFile → List PeCall → List String
  | _, [] => []
  | f, c :: cs =>
    let f0 := seekOpt f c.seekTo
    let r := C18Gen.peCallG f0 c.start maxrange c.op
    let next : PyFile :=
      match r with
      | .ok (.tuple [_, fv]) =>
        match PyU.asFile fv with
        | some (d, p, _) => { data := d, pos := p, kind := f0.kind }
        | none => (peCall f0 c.start maxrange c.op).2
      | _ => (peCall f0 c.start maxrange c.op).2
    showPeV c.op r :: gpeRun maxrange next cs

/-- a `BeaconVersion` object of the model (`C18Gen.encVersion`): the text and what the constructor parsed -/
def vVersion? : PyU.V → Option (Txt × Option VersionInfo)
  | .inst c [.str t, .none, .none] => if c == C18Gen.BeaconVersionCls then some (t, none) else none
  | .inst c [.str t, .tuple tu, .tuple [.int y, .int m, .int dd]] =>
    if c == C18Gen.BeaconVersionCls then
      (tu.mapM fun (x : PyU.V) => match x with | PyU.V.int n => some n.toNat | _ => none).map fun l => (t, some ⟨l, ⟨y.toNat, m.toNat, dd.toNat⟩⟩)
    else none
  | _ => none

/-- `<text> <ver answer>` as the `tbl` stream shows it -/
def showVersionV (r : Py PyU.V) : String :=
  match r with
  | .error e => "exc " ++ e.name
  | .ok v =>
    match vVersion? v with
    | some (t, info) => s!"{showNats t} {showVer (.ok info)}"
    | none => "?version"

/-- a history on ONE BeaconConfig with the reads of `.version` done by the TRANSLATED property -/
def gcfgRun (enums : List Nat) : CfgState → List CfgOp → List String
  | _, [] => []
  | s, op :: ops =>
    (match op with
     | .readVersion => [showVersionV (C18Gen.configVersionG s.exportStamp enums)]
     | .readMaxEnum => [showCfgOut (.maxEnum (maxEnumOf enums))]
     | _ => []) ++ gcfgRun enums (cfgNext s op) ops

def gstep : List String → String
  | ["gtbl", which, key] =>
    match intTok key with
    | some key =>
      if which == "pe" then showVersionV (Gen.PyPe.from_pe_export_stamp C18Gen.beaconVersionM .none (.int key))
      else if which == "enum" then showVersionV (Gen.PyPe.from_max_setting_enum C18Gen.beaconVersionM .none (.int key))
      else "bad-op"
    | none => "bad-op"
  | ["gargv", which, key] =>
    match vTok key with
    | some key =>
      if which == "pe" then showVersionV (Gen.PyPe.from_pe_export_stamp C18Gen.beaconVersionM .none key)
      else if which == "enum" then showVersionV (Gen.PyPe.from_max_setting_enum C18Gen.beaconVersionM .none key)
      else "bad-op"
    | none => "bad-op"
  | ["gcfg", stamp, enums] =>
    match optTok intTok stamp, natsTok enums with
    | some stamp, some enums =>
      match C18Gen.configVersionG stamp enums with
      | .error e => "exc " ++ e.name
      | .ok v => match vVersion? v with
        | some (t, _) => "ok " ++ showNats t
        | none => "?version"
    | _, _ => "bad-op"
  | ["ghist", enums, ops] =>
    match natsTok enums, (ops.splitOn "|").mapM cfgOpTok with
    | some enums, some ops => " | ".intercalate (gcfgRun enums {} ops)
    | _, _ => "bad-op"
  | ["gpehist", k, d, maxrange, calls] =>
    match kindTok k, bytesTok d, natTok maxrange with
    | some k, some d, some maxrange =>
      match (calls.splitOn "|").mapM peCallTok with
      | some cs => " | ".intercalate (gpeRun maxrange (mkFile k d 0) cs)
      | none => "bad-op"
    | _, _, _ => "bad-op"
  | ["garg", op, f, s, m] =>
    match peOpTok op, vTok f, vTok s, vTok m with
    | some op, some f, some s, some m =>
      match C18Gen.peCallV f s m op with
      | .error e => "exc " ++ e.name
      | .ok (.tuple [x, f']) => vPair (x, f')
      | .ok _ => "?pe"
    | _, _, _, _ => "bad-op"
  | ["pyu", "sread", ty, f] =>
    match Gen.PyPe.typeTable.find? (·.1 == ty), vTok f with
    | some (_, ty), some f => showPy' vOptPair (PyU.t18ReadE ty f)
    | _, _ => "bad-op"
  | ["pyu", "sreadn", ty, f, n] =>
    match Gen.PyPe.typeTable.find? (·.1 == ty), vTok f, vTok n with
    | some (_, ty), some f, some n => showPy' vOptPair (PyU.t18ReadManyE ty f n)
    | _, _, _ => "bad-op"
  | ["pyu", "tobytes", n, l, o] =>
    match vTok n, vTok l, vTok o with
    | some n, some l, some o => showPy' (fun v => "ok " ++ PyU.vShow v) (PyU.t18ToBytes n l o)
    | _, _, _ => "bad-op"
  | [gop, k, d, pos, start, maxrange, _expect] =>
    match gop.toList with
    | 'g' :: opc =>
      match peOpTok (String.ofList opc) with
      | some op =>
        match kindTok k, bytesTok d, natTok pos, argTok (C18Gen.dfltStart op) start, argTok (C18Gen.dfltMaxrange op) maxrange with
        | some k, some d, some pos, some start, some maxrange =>
          showPeV op (C18Gen.peCallV (C15Gen.encFile (mkFile k d pos)) start maxrange op)
        | _, _, _, _, _ => "bad-op"
      | none => "bad-op"
    | _ => "bad-op"
  | _ => "bad-op"

def step : List String → String
  | ["fmt", maj, mn, patch, y, m, d] =>
    match natTok maj, natTok mn, optTok natTok patch, natTok y, natTok m, natTok d with
    | some maj, some mn, some patch, some y, some m, some d =>
      let t := formatVersion maj mn patch ⟨y, m, d⟩
      s!"{showNats t} {showVer (parseVersion t)}"
    | _, _, _, _, _, _ => "bad-op"
  | [op, k, d, pos, start, maxrange, expect] =>
    if (peOpTok op).isNone then gstep [op, k, d, pos, start, maxrange, expect] else
    match kindTok k, bytesTok d, natTok pos, optTok natTok start, natTok maxrange with
    | some k, some d, some pos, some start, some maxrange => peOp op (mkFile k d pos) start maxrange
    | _, _, _, _, _ => "bad-op"
  | ["ver", t] =>
    match natsTok t with
    | some t => showVer (parseVersion t)
    | none => "bad-op"
  | ["tbl", which, key] =>
    match intTok key with
    | some key =>
      let tbl := if which == "pe" then some Gen.Version.peExportStampEntries
        else if which == "enum" then some Gen.Version.maxEnumEntries else none
      match tbl with
      | some tbl => let t := lookup tbl key; s!"{showNats t} {showVer (parseVersion t)}"
      | none => "bad-op"
    | none => "bad-op"
  | ["mono", which, k1, k2] =>
    match intTok k1, intTok k2 with
    | some k1, some k2 =>
      if which == "pe" then showBool (monotoneAt Gen.Version.peExportStampEntries k1 k2)
      else if which == "enum" then showBool (monotoneAt Gen.Version.maxEnumEntries k1 k2)
      else "bad-op"
    | _, _ => "bad-op"
  | ["hist", enums, ops] =>
    match natsTok enums, (ops.splitOn "|").mapM cfgOpTok with
    | some enums, some ops => " | ".intercalate ((cfgRun enums {} ops).map showCfgOut)
    | _, _ => "bad-op"
  | ["verhist", ts] =>
    match (ts.splitOn "|").mapM natsTok with
    | some ts => " | ".intercalate (ts.map fun t => showVer (parseVersion t))
    | none => "bad-op"
  | ["pehist", k, d, maxrange, calls] =>
    match kindTok k, bytesTok d, natTok maxrange with
    | some k, some d, some maxrange =>
      match (calls.splitOn "|").mapM peCallTok with
      | some cs => " | ".intercalate ((peRun maxrange (mkFile k d 0) cs).map fun r => showPeOut r.1 r.2)
      | none => "bad-op"
    | _, _, _ => "bad-op"
  | ["cls", lo, hi] =>
    match natTok lo, natTok hi with
    | some lo, some hi =>
      String.ofList ((List.range (hi - lo)).map fun i =>
        let c := lo + i
        if isSpace c then 's' else
        match digitValue? c with
        | some v => Char.ofNat (48 + v)
        | none => '-')
    | _, _ => "bad-op"
  | ["stage", d, enums, _expect] =>
    -- `BeaconConfig.from_bytes` on a payload whose configuration block is found in the raw view: the PE artifacts are
    -- `find_compile_stamps(fh)` then `find_architecture(fh)` on the same file object (defaults 0 / 1024), the version follows
    match bytesTok d, natsTok enums with
    | some d, some enums =>
      let r1 := peCall (mkFile .bytesIO d 0) (some 0) 1024 .stamps
      match r1.1 with
      | .stamps (.error e) => "exc " ++ e.name
      | .stamps (.ok (c, x)) =>
        let r2 := peCall r1.2 (some 0) 1024 .arch
        match r2.1 with
        | .arch a =>
          let an := match a with | none => "none" | some a => a.name
          s!"ok {an} {showOptInt c} {showOptInt x} " ++ showPy showNats (configVersion x enums)
        | _ => "bad-op"
      | _ => "bad-op"
    | _, _ => "bad-op"
  | ["cfg", stamp, enums] =>
    match optTok intTok stamp, natsTok enums with
    | some stamp, some enums => showPy showNats (configVersion stamp enums)
    | _, _ => "bad-op"
  | ws => gstep ws

end C18

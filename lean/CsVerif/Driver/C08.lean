import CsVerif.Model.C08
/-! Line-protocol driver for the C08 model (entry points that accept untrusted bytes).

  ff     <b|F<pos>|o|p> <B> <allkeys T|F> <data>   BeaconConfig.from_bytes (`b`) / from_file on io.BytesIO standing at `pos` (`F`) /
                                                   from_file on an OS file opened "rb" (`o`) / from_path (`p`);  B = io.DEFAULT_BUFFER_SIZE
         → `ok cfg|guard <xorkey> <xorencoded T|F> <len>.<ck of block> <#settings> <compile> <export> <arch>` | `exc <E>`
  xor    <B|O> <B> <data>      XorEncodedFile.from_file          → `ok <nonce_offset>` | `exc <E>`
  mz arch stamps mmz mpe ppa   <B|O> <data>   pe.find_*(fh)      → `ok <value tokens>` | `exc <E>`
  ppaL   <L> <B|O> <data>      pe.find_stage_prepend_append on a file object whose `seek` accepts offsets ≤ L (the code as it
                               stands, fix ce8ae1d: a rejected final seek is caught and gives `(prepend, None)`)
  art    <B|O> <data>          list(iter_artifactkit_payloads)   → `ok <n> <ck>` | `exc <E>`
  http   <data>                parse_raw_http                    → `ok request <#params> <#headers> <|body|>` | `ok response <status> …` | `exc <E>`

`B` = io.BytesIO, `O` = OS file.  Every line ends with a `<tag>` token (generator class of the input), which is ignored.
-/
namespace C08
open Proto

def ck (b : Bytes) : Nat := b.foldl (fun a x => (a * 31 + x.toNat) % 4294967296) 7

def showBlk (b : Bytes) : String := s!"{b.length}.{ck b}"

def showOptBytes : Option Bytes → String
  | none => "none"
  | some b => showBytes b

def showOptInt : Option Int → String
  | none => "none"
  | some i => toString i

def showOptNat : Option Nat → String
  | none => "none"
  | some i => toString i

def showArch : Option C18.Arch → String
  | none => "none"
  | some a => a.name

def kindTok (s : String) : Option FileKind :=
  if s == "B" then some .bytesIO else if s == "O" then some .osFile else none

/-- `b` = from_bytes, `F<pos>` = from_file on a BytesIO standing at `pos`, `o` = from_file on an OS file, `p` = from_path -/
def ffKindTok (s : String) : Option (FileKind × Nat) :=
  if s == "b" then some (.bytesIO, 0)
  else if s == "o" then some (.osFile, 0)
  else if s == "p" then some (.osFile, 0)
  else
    match s.toList with
    | 'F' :: rest => if rest.isEmpty then some (.bytesIO, 0) else (String.ofList rest).toNat?.map fun p => (.bytesIO, p)
    | _ => none

def showExtracted (x : Extracted) : String :=
  s!"{if x.guardrails then "guard" else "cfg"} {showBytes x.xorkey} {showBool x.xorencoded} {showBlk x.block} {x.settings.length} {showOptInt x.compileStamp} {showOptInt x.exportStamp} {showArch x.arch}"

def hitCk (acc : Nat) (h : C15.Hit) : Nat :=
  (acc * 1000003 + h.offset * 7919 + h.size * 31 + h.payload.length * 3 + ck h.xorkey + ck h.hints) % 4294967296

def showHits (hs : List C15.Hit) : String := s!"{hs.length} {hs.foldl hitCk 0}"

def showMsg : C16.Msg → String
  | .request _ _ params headers body => s!"request {params.length} {headers.length} {body.length}"
  | .response status _ headers body => s!"response {status} {headers.length} {body.length}"

def peOp (op : String) (f : PyFile) : Option String :=
  match op with
  | "mz" => some (showPy showOptNat (peFindMzOffset f))
  | "arch" => some (showPy showArch (peFindArchitecture f))
  | "stamps" => some (showPy (fun r => s!"{showOptInt r.1} {showOptInt r.2}") (peFindCompileStamps f))
  | "mmz" => some (showPy showOptBytes (peFindMagicMz f))
  | "mpe" => some (showPy showOptBytes (peFindMagicPe f))
  | "ppa" => some (showPy (fun r => s!"{showOptBytes r.1} {showOptBytes r.2}") (peFindStagePrependAppend f))
  | _ => none

def step : List String → String
  | ["ff", k, b, ak, d, _tag] =>
    match ffKindTok k, natTok b, boolTok ak, bytesTok d with
    | some k, some b, some ak, some d =>
      if b = 0 then "bad-op" else showPy showExtracted (fromFile b { data := d, pos := k.2, kind := k.1 } [] ak)
    | _, _, _, _ => "bad-op"
  | ["xor", k, b, d, _tag] =>
    match kindTok k, natTok b, bytesTok d with
    | some k, some b, some d =>
      if b = 0 then "bad-op" else showPy toString (xorEncodedFromFile b { data := d, pos := 0, kind := k })
    | _, _, _ => "bad-op"
  | ["ppaL", l, k, d, _tag] =>
    match natTok l, kindTok k, bytesTok d with
    | some l, some k, some d =>
      showPy (fun r => s!"{showOptBytes r.1} {showOptBytes r.2}") (peFindStagePrependAppendL l { data := d, pos := 0, kind := k })
    | _, _, _ => "bad-op"
  | ["art", k, d, _tag] =>
    match kindTok k, bytesTok d with
    | some k, some d => showPy showHits (iterArtifactkitPayloads { data := d, pos := 0, kind := k })
    | _, _ => "bad-op"
  | ["http", d, _tag] =>
    match bytesTok d with
    | some d => showPy showMsg (parseRawHttp d)
    | none => "bad-op"
  | [op, k, d, _tag] =>
    match kindTok k, bytesTok d with
    | some k, some d =>
      match peOp op { data := d, pos := 0, kind := k } with
      | some s => s
      | none => "bad-op"
    | _, _ => "bad-op"
  | _ => "bad-op"

end C08

import CsVerif.Model.C16
/-! Line-protocol driver for the C16 model.

`p <data>` / `pw <data> <ignored…>` → `parse_raw_http(data)`:
  `ok req <method> <uri> <n> (<k> <v>)* <m> (<k> <v>)* <body>` /
  `ok resp <status> <reason> <m> (<k> <v>)* <body>` / `exc ValueError`
`us <url>`   → `urlsplit(url)`: `ok <scheme> <netloc> <path> <query> <fragment>`
`qsl <qs>`   → `parse_qsl(qs)`: `ok <n> (<k> <v>)*`
`int <b>`    → `int(b.decode())`
`uq <b>`     → `unquote_to_bytes(b)`
-/
namespace C16
open Proto

def showPairs (ps : List (Bytes × Bytes)) : String :=
  ps.foldl (fun s p => s ++ " " ++ showBytes p.1 ++ " " ++ showBytes p.2) (toString ps.length)

def showMsg : Msg → String
  | .request m u ps hs b =>
    s!"req {showBytes m} {showBytes u} {showPairs ps} {showPairs hs} {showBytes b}"
  | .response st r hs b =>
    s!"resp {st} {showBytes r} {showPairs hs} {showBytes b}"

def showSplit (r : SplitResult) : String :=
  s!"{showBytes r.scheme} {showBytes r.netloc} {showBytes r.path} {showBytes r.query} {showBytes r.fragment}"

def step : List String → String
  | ["p", d] =>
    match bytesTok d with
    | some d => showPy showMsg (parseRawHttp d)
    | none => "bad-op"
  | "pw" :: d :: _ =>
    match bytesTok d with
    | some d => showPy showMsg (parseRawHttp d)
    | none => "bad-op"
  | ["us", d] =>
    match bytesTok d with
    | some d => showPy showSplit (urlsplit d)
    | none => "bad-op"
  | ["qsl", d] =>
    match bytesTok d with
    | some d => "ok " ++ showPairs (parseQsl d)
    | none => "bad-op"
  | ["int", d] =>
    match bytesTok d with
    | some d => showPy toString (pyIntOfBytes d)
    | none => "bad-op"
  | ["uq", d] =>
    match bytesTok d with
    | some d => showBytes (unquote d)
    | none => "bad-op"
  | _ => "bad-op"

end C16

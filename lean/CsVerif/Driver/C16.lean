import CsVerif.Model.C16
import CsVerif.Model.C16Gen
import CsVerif.Model.PyUShow
/-! Line-protocol driver for the C16 model.

`p <data>` / `pw <data> <ignored…>` → `parse_raw_http(data)`:
  `ok req <method> <uri> <n> (<k> <v>)* <m> (<k> <v>)* <body>` /
  `ok resp <status> <reason> <m> (<k> <v>)* <body>` / `exc ValueError`
`us <url>`   → `urlsplit(url)`: `ok <scheme> <netloc> <path> <query> <fragment>`
`qsl <qs>`   → `parse_qsl(qs)`: `ok <n> (<k> <v>)*`
`int <b>`    → `int(b.decode())`
`uq <b>`     → `unquote_to_bytes(b)`
`gp <data>` / `gpw <data> <ignored…>` → the definition TRANSLATED from the source of `parse_raw_http` (Gen/PyC2U.lean, with the
  external functions urlsplit / parse_qsl instantiated by the sub-models), rendered from `PyU.V` in the format of `p`;
  a value of an unexpected shape is rendered `?…` (and so differs from the real code)
`pyu <op> <operands>` → one operation of the run-time library `PyU` (those added for c2.py) on operands in the notation of
  Model/PyUShow.lean
-/
namespace C16
open Proto

def showPairs (ps : List (Bytes × Bytes)) : String :=
  ps.foldl (fun s p => s ++ " " ++ showBytes p.1 ++ " " ++ showBytes p.2) (toString ps.length)

def showMsg : Msg → String
  | .request m u ps hs b =>
    s!"req {showBytes m} {showBytes u} {showPairs ps} {showPairs hs} {showBytes b}"
  | .response st r hs b =>
    s!"resp {st} {showBytes r} {showPairs hs} {showBytes b}"

def showSplit (r : SplitResult) : String :=
  s!"{showBytes r.scheme} {showBytes r.netloc} {showBytes r.path} {showBytes r.query} {showBytes r.fragment}"

/-! ### `g-*` streams: the translated definition -/

def vBytes? : PyU.V → Option Bytes
  | .bytes b => some b
  | _ => none

def vDict? : PyU.V → Option (List (Bytes × Bytes))
  | .dict ks vs =>
    if ks.length == vs.length then
      (ks.zip vs).mapM fun kv => do
        let k ← vBytes? kv.1
        let v ← vBytes? kv.2
        pure (k, v)
    else none
  | _ => none

def vMsg? : PyU.V → Option Msg
  | .inst c [a1, a2, a3, a4, a5] =>
    if c == Gen.PyC2U.HttpRequest then do
      let m ← vBytes? a1
      let u ← vBytes? a2
      let ps ← vDict? a3
      let hs ← vDict? a4
      let b ← vBytes? a5
      pure (.request m u ps hs b)
    else if c == Gen.PyC2U.HttpResponse then do
      let st ← (match a1 with | .int n => some n | _ => none)
      let hs ← vDict? a2
      let r ← vBytes? a3
      let b ← vBytes? a4
      if a5 == .none then pure (.response st r hs b) else none
    else none
  | _ => none

def vMsg (v : PyU.V) : String :=
  match vMsg? v with
  | some m => showMsg m
  | none => "?msg"

/-! ### `pyu` stream: the operations of PyU.lean added for c2.py, on operands of all kinds -/

def classes : List PyU.Cls :=
  [Gen.PyC2U.HttpRequest, Gen.PyC2U.HttpResponse, Gen.PyC2U.C2Data, Gen.PyC2U.ClientC2Data, Gen.PyC2U.ServerC2Data,
   Gen.PyC2U.SplitResultBytes]

def clsOf (cid : Nat) : Option PyU.Cls := classes.find? (·.cid == cid)

def vTok (s : String) : Option PyU.V := PyU.vTok (fun _ => none) clsOf s

def tyOf : PyU.V → Option PyU.Ty
  | .int 0 => some .int
  | .int 1 => some .bool
  | .int 2 => some .bytes
  | .int 3 => some .str
  | .int 4 => some .list
  | .int 5 => some .tuple
  | .int 6 => some .dict
  | .int n => if n ≥ 100 then (clsOf (n - 100).toNat).map .cls else none
  | _ => none

def strOf : PyU.V → Option String
  | .str cs => some (String.ofList (cs.map Char.ofNat))
  | _ => none

open PyU in
def pyuStep : List String → String
  | [op, a] =>
    match vTok a with
    | none => "bad-op"
    | some a =>
      match op with
      | "listof" => showPy vShow (listOf a)
      | "slicerev" => showPy vShow (sliceRev a)
      | "upper" => showPy vShow (PyU.upper a)
      | "lower" => showPy vShow (PyU.lower a)
      | "decascii" => showPy vShow (decodeAscii a)
      | "decasciiign" => showPy vShow (decodeAsciiIgnore a)
      | "encutf8" => showPy vShow (encodeUtf8 a)
      | "enclatin1" => showPy vShow (encodeLatin1 a)
      | "encascii" => showPy vShow (encodeAscii a)
      | "int" => showPy vShow (intOf Gen.PyC2U.intTables a)
      | "fmtr" => showPy (fun t => vShow (.str t)) (fmtR a)
      | "fmts" => showPy (fun t => vShow (.str t)) (fmtS a)
      | "truthy" => vShow (.bool (truthy a))
      | "len" => showPy vShow (PyU.len a)
      | "iter" => showPy (fun l => vShow (.list l)) (iterList a)
      | "hashable" => showPy (fun _ => "T") (mkDict [(a, .none)])
      | _ => "bad-op"
  | [op, a, b] =>
    match vTok a, vTok b with
    | some a, some b =>
      match op with
      | "split" => showPy vShow (PyU.split a b)
      | "startswith" => showPy vShow (startswith a b)
      | "eq" => vShow (.bool (PyU.eq a b))
      | "getitem" => showPy vShow (getItem a b)
      | "contains" => showPy (fun r => vShow (.bool r)) (contains a b)
      | "getattr" =>
        match strOf b with
        | some n => showPy vShow (getAttr a n)
        | none => "bad-op"
      | "isinstance" =>
        match b with
        | .list cs =>
          match cs.mapM tyOf with
          | some tys => vShow (.bool (isInstance a tys))
          | none => "bad-op"
        | _ => "bad-op"
      | _ => "bad-op"
    | _, _ => "bad-op"
  | [op, a, b, c] =>
    match vTok a, vTok b, vTok c with
    | some a, some b, some c =>
      match op with
      | "setitem" => showPy vShow (setItem a b c)
      | "insert" => showPy vShow (PyU.insert a b c)
      | "slice" => showPy vShow (PyU.slice a b c)
      | "replace" =>
        match strOf b with
        | some n => showPy vShow (replace a [(n, c)])
        | none => "bad-op"
      | _ => "bad-op"
    | _, _, _ => "bad-op"
  | _ => "bad-op"

def gstep : List String → String
  | ["gp", d] =>
    match bytesTok d with
    | some d => showPy vMsg (C16Gen.parseRawHttpG (.bytes d))
    | none => "bad-op"
  | "gpw" :: d :: _ =>
    match bytesTok d with
    | some d => showPy vMsg (C16Gen.parseRawHttpG (.bytes d))
    | none => "bad-op"
  | "pyu" :: rest => pyuStep rest
  | _ => "bad-op"

def step : List String → String
  | ["p", d] =>
    match bytesTok d with
    | some d => showPy showMsg (parseRawHttp d)
    | none => "bad-op"
  | "pw" :: d :: _ =>
    match bytesTok d with
    | some d => showPy showMsg (parseRawHttp d)
    | none => "bad-op"
  | ["us", d] =>
    match bytesTok d with
    | some d => showPy showSplit (urlsplit d)
    | none => "bad-op"
  | ["qsl", d] =>
    match bytesTok d with
    | some d => "ok " ++ showPairs (parseQsl d)
    | none => "bad-op"
  | ["int", d] =>
    match bytesTok d with
    | some d => showPy toString (pyIntOfBytes d)
    | none => "bad-op"
  | ["uq", d] =>
    match bytesTok d with
    | some d => showBytes (unquote d)
    | none => "bad-op"
  | ws => gstep ws

end C16

import CsVerif.Model.C09
import CsVerif.Model.C09Gen
import CsVerif.Model.PyUShow
/-! Line-protocol driver for the C09 model.

  hist|histret|histeof|histwild <B|F|U> <nonceOff> <raw> <ops>     ops = comma separated: s<whence>:<off>  r<n>|rn  t
      answer: one item per op: `b<hex>` (read) `p<int>` (tell) `s` / `s<raw>` (seek; value only for histret)
      `e<Exc>` (the op raised; object unchanged)
  nonce <B|F> <nonceOff> <raw> <rawpos>          read_nonce() at raw position → `<hex> <rawpos after>`
  ino <B|F> <realsize|none> <maxrange> <raw>     list(iter_nonce_offsets) → `ok l.. <rawpos after>`
  counter l..                                    Counter(xs).most_common() → keys, counts
  mz <B|F> <nonceOff> <raw>                      pe.find_mz_offset(view) → `ok none|<int>`
  detect <B|F> <maxrange> <raw> <hits l..> <passing l..>   from_file, needle hits and MZ verdicts given
  detectm <B|F> <maxrange> <raw> <hits l..>                from_file, needle hits given, MZ check modelled
  detectfull <B|F> <maxrange> <raw> <bufsize>              from_file entirely modelled (`fromFileReal`: real block scanner, C15)
  detectlog <B|F> <maxrange> <raw> <bufsize>               the same plus what from_file logs at DEBUG level:
      `<detect answer> <eof_shellcode_offsets l..> <nonce_offsets l..> <tried offsets l..> <their counts l..>`
  histneg <B|F|U> <nonceOff> <raw> <ops>                   histories with seeks to negative logical positions (as histret)
`g-*` streams — the definitions TRANSLATED from the source of `iter_nonce_offsets` and of `XorEncodedFile.__init__ / read_nonce /
tell / seek / read` (Gen/PyXor.lean); `read` runs with the fuel `C09Gen.fuelOfV` (= len(raw file) + 1):
  ghist|ghistret|ghisteof|ghistwild|ghistneg, gnonce, gino <same operands>   → same format (constructor and every operation
      through the translated methods; a value of an unexpected shape: `?…`)
  gargi <file:V> <real_size:V> <maxrange:V>                → ok <list:V> <final tell | -> | exc <E>     (arguments of any kind,
  gargm <B|F> <nonceOff> <raw> <rawpos> seek <off:V> <whence:V> | read <n:V> | new <nonce_offset:V>      notation of PyUShow)
                                                           → ok <result:V> <raw tell> | exc <E>
-/
namespace C09
open Proto

def kindTok (s : String) : Option FileKind :=
  if s == "B" then some .bytesIO else if s == "F" || s == "U" then some .osFile else none

def opTok (s : String) : Option Op :=
  match s.toList with
  | ['t'] => some .tell
  | 'r' :: rest =>
    if rest == ['n'] then some (.read none) else (String.ofList rest).toInt?.map fun n => .read (some n)
  | 's' :: rest =>
    match (String.ofList rest).splitOn ":" with
    | [w, o] =>
      match w.toNat?, o.toInt? with
      | some w, some o => some (.seek o w)
      | _, _ => none
    | _ => none
  | _ => none

def opsTok (s : String) : Option (List Op) := (s.splitOn ",").mapM opTok

def showOut (withRet : Bool) : Py Out → String
  | .error e => "e" ++ e.name
  | .ok (.seek v) => if withRet then s!"s{v}" else "s"
  | .ok (.bytes b) => "b" ++ Hex.encode b
  | .ok (.pos p) => s!"p{p}"

def histLine (withRet : Bool) (k off raw ops : String) : String :=
  match kindTok k, natTok off, bytesTok raw, opsTok ops with
  | some k, some off, some raw, some ops =>
    match mk' { data := raw, pos := 0, kind := k } off with
    | .error e => "exc " ++ e.name
    | .ok x => " ".intercalate ((runTrace x ops).map (showOut withRet))
  | _, _, _, _ => "bad-op"

def showDetect : Py XorFile → String
  | .error e => "exc " ++ e.name
  | .ok x =>
    -- what the view returned by the detection then decodes: its first 12 bytes (a detector that hands back a view
    -- with stale decoding state has the right offset and the wrong bytes)
    let head := match read x (some 12) with
      | .ok (bs, _) => showBytes bs
      | .error e => "exc" ++ e.name
    s!"ok {x.nonceOff} {x.fh.tell} {tell x} {head}"

/-! ### `g-*` streams: the translated definitions -/

def clsOfG (cid : Nat) : Option PyU.Cls :=
  if cid == 9000 then some PyU.FileCls else if cid == 1 then some Gen.PyXor.XorEncodedFile else none

def vTokG (s : String) : Option PyU.V := PyU.vTok (fun _ => none) clsOfG s

/-- the raw position of the file inside an instance / of a file object -/
def vRawTell? : PyU.V → Option Nat
  | .inst c (f :: rest) => if c == PyU.FileCls then (PyU.asFile (.inst c (f :: rest))).map (·.2.1) else (PyU.asFile f).map (·.2.1)
  | _ => none

/-- one output of a history through the translated methods, in the format of `showOut` -/
def showOutG (withRet : Bool) (op : Op) (r : Py PyU.V) : String :=
  match r, op with
  | .error e, _ => "e" ++ e.name
  | .ok (.int v), .seek _ _ => if withRet then s!"s{v}" else "s"
  | .ok (.bytes b), .read _ => "b" ++ Hex.encode b
  | .ok (.int p), .tell => s!"p{p}"
  | .ok _, _ => "?out"

def ghistLine (withRet : Bool) (k off raw ops : String) : String :=
  match kindTok k, natTok off, bytesTok raw, opsTok ops with
  | some k, some off, some raw, some ops =>
    match Gen.PyXor.XorEncodedFile_new (C15Gen.encFile { data := raw, pos := 0, kind := k }) (.int (off : Int)) with
    | .error e => "exc " ++ e.name
    | .ok self =>
      " ".intercalate ((ops.zip (C09Gen.runTraceG (C09Gen.fuelOfV self) self ops)).map fun p => showOutG withRet p.1 p.2)
  | _, _, _, _ => "bad-op"

/-- the instance with the raw file moved to `pos` (what `fh.seek(pos)` on the underlying file does) -/
def setRawPos (self : PyU.V) (pos : Nat) : PyU.V :=
  match self with
  | .inst c (f :: rest) =>
    match PyU.asFile f with
    | some (d, _, k) => .inst c (PyU.mkFile d pos k :: rest)
    | none => self
  | v => v

def showResG (r : Py PyU.V) : String :=
  match C09Gen.unpackRes r with
  | .error e => "exc " ++ e.name
  | .ok (v, s) =>
    match vRawTell? s with
    | some t => s!"ok {PyU.vShow v} {t}"
    | none => "?res"

def gstep : List String → String
  | ["ghist", k, off, raw, ops] => ghistLine false k off raw ops
  | ["ghistret", k, off, raw, ops] => ghistLine true k off raw ops
  | ["ghisteof", k, off, raw, ops] => ghistLine false k off raw ops
  | ["ghistwild", k, off, raw, ops] => ghistLine true k off raw ops
  | ["ghistneg", k, off, raw, ops] => ghistLine true k off raw ops
  | ["gnonce", k, off, raw, pos] =>
    match kindTok k, natTok off, bytesTok raw, natTok pos with
    | some k, some off, some raw, some pos =>
      match Gen.PyXor.XorEncodedFile_new (C15Gen.encFile { data := raw, pos := 0, kind := k }) (.int (off : Int)) with
      | .error e => "exc " ++ e.name
      | .ok self =>
        match C09Gen.unpackRes (Gen.PyXor.XorEncodedFile_read_nonce (setRawPos self pos)) with
        | .error e => "exc " ++ e.name
        | .ok (.bytes n, s) =>
          match vRawTell? s with
          | some t => s!"{showBytes n} {t}"
          | none => "?nonce"
        | .ok _ => "?nonce"
    | _, _, _, _ => "bad-op"
  | ["gino", k, rs, mr, raw] =>
    match kindTok k, optTok intTok rs, natTok mr, bytesTok raw with
    | some k, some rs, some mr, some raw =>
      match Gen.PyXor.iter_nonce_offsets (C15Gen.encFile { data := raw, pos := 0, kind := k }) (C15Gen.encOptInt rs) (.int (mr : Int)) with
      | .error e => "exc " ++ e.name
      | .ok (.tuple [.list l, f]) =>
        match l.mapM (fun v => match v with | .int n => some n | _ => none), vRawTell? f with
        | some xs, some t => s!"ok {showInts xs} {t}"
        | _, _ => "?ino"
      | .ok _ => "?ino"
    | _, _, _, _ => "bad-op"
  | ["gargi", f, rs, mr] =>
    match vTokG f, vTokG rs, vTokG mr with
    | some f, some rs, some mr =>
      match Gen.PyXor.iter_nonce_offsets f rs mr with
      | .error e => "exc " ++ e.name
      | .ok (.tuple [l, f']) => s!"ok {PyU.vShow l} " ++ (match vRawTell? f' with | some t => toString t | none => "-")
      | .ok _ => "?gen"
    | _, _, _ => "bad-op"
  | "gargm" :: k :: off :: raw :: pos :: rest =>
    match kindTok k, natTok off, bytesTok raw, natTok pos with
    | some k, some off, some raw, some pos =>
      let file := C15Gen.encFile { data := raw, pos := 0, kind := k }
      match rest with
      | ["new", o] =>
        match vTokG o with
        | some o =>
          match Gen.PyXor.XorEncodedFile_new file o with
          | .error e => "exc " ++ e.name
          | .ok self =>
            match self, vRawTell? self with
            | .inst _ [_, a, b, c], some t => s!"ok {PyU.vShow (.tuple [a, b, c])} {t}"
            | _, _ => "?new"
        | none => "bad-op"
      | _ =>
        match Gen.PyXor.XorEncodedFile_new file (.int (off : Int)) with
        | .error e => "exc " ++ e.name
        | .ok self0 =>
          let self := setRawPos self0 pos
          match rest with
          | ["seek", o, w] =>
            match vTokG o, vTokG w with
            | some o, some w => showResG (Gen.PyXor.XorEncodedFile_seek self o w)
            | _, _ => "bad-op"
          | ["read", n] =>
            match vTokG n with
            | some n => showResG (Gen.PyXor.XorEncodedFile_read (C09Gen.fuelOfV self) self n)
            | none => "bad-op"
          | _ => "bad-op"
    | _, _, _, _ => "bad-op"
  | _ => "bad-op"

def step : List String → String
  | ["hist", k, off, raw, ops] => histLine false k off raw ops
  | ["histret", k, off, raw, ops] => histLine true k off raw ops
  | ["histeof", k, off, raw, ops] => histLine false k off raw ops
  | ["histwild", k, off, raw, ops] => histLine true k off raw ops
  | ["histneg", k, off, raw, ops] => histLine true k off raw ops
  | ["nonce", k, off, raw, pos] =>
    match kindTok k, natTok off, bytesTok raw, natTok pos with
    | some k, some off, some raw, some pos =>
      match mk' { data := raw, pos := 0, kind := k } off with
      | .error e => "exc " ++ e.name
      | .ok x =>
        match readNonce { x with fh := { x.fh with pos := pos } } with
        | .error e => "exc " ++ e.name
        | .ok (n, x') => s!"{showBytes n} {x'.fh.tell}"
    | _, _, _, _ => "bad-op"
  | ["ino", k, rs, mr, raw] =>
    match kindTok k, optTok intTok rs, natTok mr, bytesTok raw with
    | some k, some rs, some mr, some raw =>
      match iterNonceOffsets { data := raw, pos := 0, kind := k } rs mr with
      | .error e => "exc " ++ e.name
      | .ok (l, f) => s!"ok {showNats l} {f.tell}"
    | _, _, _, _ => "bad-op"
  | ["counter", xs] =>
    match natsTok xs with
    | some xs =>
      let mc := mostCommon (counter xs)
      s!"{showNats (mc.map (·.1))} {showNats (mc.map (·.2))}"
    | none => "bad-op"
  | ["mz", k, off, raw] =>
    match kindTok k, natTok off, bytesTok raw with
    | some k, some off, some raw =>
      match mk' { data := raw, pos := 0, kind := k } off with
      | .error e => "exc " ++ e.name
      | .ok x =>
        match findMzOffset x with
        | .error e => "exc " ++ e.name
        | .ok (none, _) => "ok none"
        | .ok (some r, _) => s!"ok {r}"
    | _, _, _ => "bad-op"
  | ["detect", k, mr, raw, hits, passing, _tag] =>
    match kindTok k, natTok mr, bytesTok raw, natsTok hits, natsTok passing with
    | some k, some mr, some raw, some hits, some passing =>
      showDetect (fromFile { data := raw, pos := 0, kind := k } mr hits (fun c => passing.contains c))
    | _, _, _, _, _ => "bad-op"
  | ["detectm", k, mr, raw, hits, _tag] =>
    match kindTok k, natTok mr, bytesTok raw, natsTok hits with
    | some k, some mr, some raw, some hits =>
      showDetect (fromFileFull { data := raw, pos := 0, kind := k } mr hits)
    | _, _, _, _ => "bad-op"
  | ["detectfull", k, mr, raw, bs, _tag] =>
    match kindTok k, natTok mr, bytesTok raw, natTok bs with
    | some k, some mr, some raw, some bs =>
      showDetect (fromFileReal bs { data := raw, pos := 0, kind := k } mr)
    | _, _, _, _ => "bad-op"
  | ["detectlog", k, mr, raw, bs, _tag] =>
    match kindTok k, natTok mr, bytesTok raw, natTok bs with
    | some k, some mr, some raw, some bs =>
      let f : PyFile := { data := raw, pos := 0, kind := k }
      -- the two lists `from_file` logs, computed exactly as `fromFileReal` computes them
      match iterNonceOffsets f none mr with
      | .error e => "exc " ++ e.name
      | .ok (offs, f1) =>
        match markerScan bs f1 mr with
        | .error e => "exc " ++ e.name
        | .ok (hits, _) =>
          let ranked := mostCommon (counter ((hits.map Int.toNat).map (· + 3) ++ offs))
          let res := fromFileReal bs f mr
          -- "Found common nonce offset" is logged for every candidate up to and including the one returned
          -- (`detect_sound_real`: every candidate ranked before the returned one failed the MZ check)
          let tried : List (Nat × Nat) := match res with
            | .ok x => ranked.takeWhile (fun e => e.1 != x.nonceOff) ++ ranked.filter (fun e => e.1 == x.nonceOff)
            | .error _ => ranked
          s!"{showDetect res} {showInts (hits.map (· + 3))} {showNats offs} {showNats (tried.map (·.1))} {showNats (tried.map (·.2))}"
    | _, _, _, _ => "bad-op"
  | ws => gstep ws

end C09

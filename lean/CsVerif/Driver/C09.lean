import CsVerif.Model.C09
/-! Line-protocol driver for the C09 model.

  hist|histret|histeof|histwild <B|F|U> <nonceOff> <raw> <ops>     ops = comma separated: s<whence>:<off>  r<n>|rn  t
      answer: one item per op: `b<hex>` (read) `p<int>` (tell) `s` / `s<raw>` (seek; value only for histret)
      `e<Exc>` (the op raised; object unchanged)
  nonce <B|F> <nonceOff> <raw> <rawpos>          read_nonce() at raw position → `<hex> <rawpos after>`
  ino <B|F> <realsize|none> <maxrange> <raw>     list(iter_nonce_offsets) → `ok l.. <rawpos after>`
  counter l..                                    Counter(xs).most_common() → keys, counts
  mz <B|F> <nonceOff> <raw>                      pe.find_mz_offset(view) → `ok none|<int>`
  detect <B|F> <maxrange> <raw> <hits l..> <passing l..>   from_file, needle hits and MZ verdicts given
  detectm <B|F> <maxrange> <raw> <hits l..>                from_file, needle hits given, MZ check modelled
  detectfull <B|F> <maxrange> <raw> <bufsize>              from_file entirely modelled (`fromFileReal`: real block scanner, C15)
  detectlog <B|F> <maxrange> <raw> <bufsize>               the same plus what from_file logs at DEBUG level:
      `<detect answer> <eof_shellcode_offsets l..> <nonce_offsets l..> <tried offsets l..> <their counts l..>`
  histneg <B|F|U> <nonceOff> <raw> <ops>                   histories with seeks to negative logical positions (as histret)
-/
namespace C09
open Proto

def kindTok (s : String) : Option FileKind :=
  if s == "B" then some .bytesIO else if s == "F" || s == "U" then some .osFile else none

def opTok (s : String) : Option Op :=
  match s.toList with
  | ['t'] => some .tell
  | 'r' :: rest =>
    if rest == ['n'] then some (.read none) else (String.ofList rest).toInt?.map fun n => .read (some n)
  | 's' :: rest =>
    match (String.ofList rest).splitOn ":" with
    | [w, o] =>
      match w.toNat?, o.toInt? with
      | some w, some o => some (.seek o w)
      | _, _ => none
    | _ => none
  | _ => none

def opsTok (s : String) : Option (List Op) := (s.splitOn ",").mapM opTok

def showOut (withRet : Bool) : Py Out → String
  | .error e => "e" ++ e.name
  | .ok (.seek v) => if withRet then s!"s{v}" else "s"
  | .ok (.bytes b) => "b" ++ Hex.encode b
  | .ok (.pos p) => s!"p{p}"

def histLine (withRet : Bool) (k off raw ops : String) : String :=
  match kindTok k, natTok off, bytesTok raw, opsTok ops with
  | some k, some off, some raw, some ops =>
    match mk' { data := raw, pos := 0, kind := k } off with
    | .error e => "exc " ++ e.name
    | .ok x => " ".intercalate ((runTrace x ops).map (showOut withRet))
  | _, _, _, _ => "bad-op"

def showDetect : Py XorFile → String
  | .error e => "exc " ++ e.name
  | .ok x =>
    -- what the view returned by the detection then decodes: its first 12 bytes (a detector that hands back a view
    -- with stale decoding state has the right offset and the wrong bytes)
    let head := match read x (some 12) with
      | .ok (bs, _) => showBytes bs
      | .error e => "exc" ++ e.name
    s!"ok {x.nonceOff} {x.fh.tell} {tell x} {head}"

def step : List String → String
  | ["hist", k, off, raw, ops] => histLine false k off raw ops
  | ["histret", k, off, raw, ops] => histLine true k off raw ops
  | ["histeof", k, off, raw, ops] => histLine false k off raw ops
  | ["histwild", k, off, raw, ops] => histLine true k off raw ops
  | ["histneg", k, off, raw, ops] => histLine true k off raw ops
  | ["nonce", k, off, raw, pos] =>
    match kindTok k, natTok off, bytesTok raw, natTok pos with
    | some k, some off, some raw, some pos =>
      match mk' { data := raw, pos := 0, kind := k } off with
      | .error e => "exc " ++ e.name
      | .ok x =>
        match readNonce { x with fh := { x.fh with pos := pos } } with
        | .error e => "exc " ++ e.name
        | .ok (n, x') => s!"{showBytes n} {x'.fh.tell}"
    | _, _, _, _ => "bad-op"
  | ["ino", k, rs, mr, raw] =>
    match kindTok k, optTok intTok rs, natTok mr, bytesTok raw with
    | some k, some rs, some mr, some raw =>
      match iterNonceOffsets { data := raw, pos := 0, kind := k } rs mr with
      | .error e => "exc " ++ e.name
      | .ok (l, f) => s!"ok {showNats l} {f.tell}"
    | _, _, _, _ => "bad-op"
  | ["counter", xs] =>
    match natsTok xs with
    | some xs =>
      let mc := mostCommon (counter xs)
      s!"{showNats (mc.map (·.1))} {showNats (mc.map (·.2))}"
    | none => "bad-op"
  | ["mz", k, off, raw] =>
    match kindTok k, natTok off, bytesTok raw with
    | some k, some off, some raw =>
      match mk' { data := raw, pos := 0, kind := k } off with
      | .error e => "exc " ++ e.name
      | .ok x =>
        match findMzOffset x with
        | .error e => "exc " ++ e.name
        | .ok (none, _) => "ok none"
        | .ok (some r, _) => s!"ok {r}"
    | _, _, _ => "bad-op"
  | ["detect", k, mr, raw, hits, passing, _tag] =>
    match kindTok k, natTok mr, bytesTok raw, natsTok hits, natsTok passing with
    | some k, some mr, some raw, some hits, some passing =>
      showDetect (fromFile { data := raw, pos := 0, kind := k } mr hits (fun c => passing.contains c))
    | _, _, _, _, _ => "bad-op"
  | ["detectm", k, mr, raw, hits, _tag] =>
    match kindTok k, natTok mr, bytesTok raw, natsTok hits with
    | some k, some mr, some raw, some hits =>
      showDetect (fromFileFull { data := raw, pos := 0, kind := k } mr hits)
    | _, _, _, _ => "bad-op"
  | ["detectfull", k, mr, raw, bs, _tag] =>
    match kindTok k, natTok mr, bytesTok raw, natTok bs with
    | some k, some mr, some raw, some bs =>
      showDetect (fromFileReal bs { data := raw, pos := 0, kind := k } mr)
    | _, _, _, _ => "bad-op"
  | ["detectlog", k, mr, raw, bs, _tag] =>
    match kindTok k, natTok mr, bytesTok raw, natTok bs with
    | some k, some mr, some raw, some bs =>
      let f : PyFile := { data := raw, pos := 0, kind := k }
      -- the two lists `from_file` logs, computed exactly as `fromFileReal` computes them
      match iterNonceOffsets f none mr with
      | .error e => "exc " ++ e.name
      | .ok (offs, f1) =>
        match markerScan bs f1 mr with
        | .error e => "exc " ++ e.name
        | .ok (hits, _) =>
          let ranked := mostCommon (counter ((hits.map Int.toNat).map (· + 3) ++ offs))
          let res := fromFileReal bs f mr
          -- "Found common nonce offset" is logged for every candidate up to and including the one returned
          -- (`detect_sound_real`: every candidate ranked before the returned one failed the MZ check)
          let tried : List (Nat × Nat) := match res with
            | .ok x => ranked.takeWhile (fun e => e.1 != x.nonceOff) ++ ranked.filter (fun e => e.1 == x.nonceOff)
            | .error _ => ranked
          s!"{showDetect res} {showInts (hits.map (· + 3))} {showNats offs} {showNats (tried.map (·.1))} {showNats (tried.map (·.2))}"
    | _, _, _, _ => "bad-op"
  | _ => "bad-op"

end C09

import CsVerif.Model.C07
import CsVerif.Model.C07Gen
import CsVerif.Model.PyUShow
/-!
Line-protocol driver for the C07 model (see tools/harness/c07.py for the encoding).

The primitives are NOT computed here.  Every line carries an *oracle table* after the token `TB`: groups
  `H key msg digest` · `E key iv data ct|!` · `D key iv ct pt|!`            (HMAC-SHA256, AES-CBC; `!` = ValueError)
  `RD blob pt|none|V` · `RE msg rand blob|V` · `S data digest`               (PKCS#1 v1.5 decrypt / encrypt, SHA-256)
computed by the harness with pycryptodome / hashlib / hmac called directly.  A primitive call whose arguments are
not in the table answers `Timeout` (AES, RSA) or the marker bytes `MISS` (HMAC, SHA-256), which shows up as a
difference.

  ctor CFG … KEY …                      → `ok <aes> <hmac> <iv> <hasPriv> <verify>` | `exc <Name>`   (C2Http.__init__)
  route CFG … <method> <uri>            → `get` | `submit` | `none`
  sess CFG … KEY … CL … EV n <event>… TB <table>
     events:  G <rsaRand> <maskRand> <wire request> <resp headers> <resp body> <wire response>
              C k (<callback id> <data>)… <maskRand> <wire request> <wire response>
              M <wire bytes>                                   (a message not made by the library client)
     answer:  for G: `Q <request|exc>  D <decode request>  D <decode response>  R <get_task result>`
              for C: `Q <request|exc>  D <decode request>  D <decode response>`
              for M: `D <decode>`
              then `K <aes> <hmac> <iv> <n> <cached blobs…>`
-/
namespace C07
open Proto

/-! ### token stream -/

abbrev P (α : Type) := StateT (List String) Option α

def next : P String := fun
  | [] => none
  | t :: ts => some (t, ts)

def tok (f : String → Option α) : P α := do
  let t ← next
  match f t with
  | some a => pure a
  | none => failure

def expect (s : String) : P Unit := do
  let t ← next
  if t == s then pure () else failure

def many (n : Nat) (p : P α) : P (List α) :=
  match n with
  | 0 => pure []
  | n + 1 => do
    let a ← p
    let as ← many n p
    pure (a :: as)

/-! ### programs (flat step codes of the C04 protocol) -/

def argTok (s : String) : Option C04.Arg :=
  match s.toList with
  | 'i' :: rest => (String.ofList rest).toInt?.map C04.Arg.int
  | 'x' :: _ => (bytesTok s).map C04.Arg.bytes
  | _ => none

def stepTok (s : String) : Option C04.Step :=
  match s.splitOn "." with
  | ["b64"] => some (.enc .base64)
  | ["b64u"] => some (.enc .base64url)
  | ["nb"] => some (.enc .netbios)
  | ["nbu"] => some (.enc .netbiosu)
  | ["mask"] => some (.enc .mask)
  | ["print"] => some (.term .print)
  | ["uri"] => some (.term .uriAppend)
  | ["Bo"] => some (.build (some .output))
  | ["Bi"] => some (.build (some .id))
  | ["Bm"] => some (.build (some .metadata))
  | ["Bx"] => some (.build none)
  | ["unk"] => some .unknown
  | ["A", a] => (argTok a).map fun a => .enc (.append a)
  | ["P", a] => (argTok a).map fun a => .enc (.prepend a)
  | ["H", k] => (bytesTok k).map fun k => .term (.header k)
  | ["Q", k] => (bytesTok k).map fun k => .term (.parameter k)
  | ["_H", k] => (bytesTok k).map fun k => .static (.header k)
  | ["_HH", k] => (bytesTok k).map fun k => .static (.hostheader k)
  | ["_Q", k] => (bytesTok k).map fun k => .static (.parameter k)
  | _ => none

/-- `s` followed by comma separated codes -/
def stepsTok (s : String) : Option (List C04.Step) :=
  match s.toList with
  | 's' :: rest =>
    let body := String.ofList rest
    if body.isEmpty then some [] else (body.splitOn ",").mapM stepTok
  | _ => none

/-- `u` followed by comma separated hex strings (a tuple of byte strings; `u` alone = empty tuple, `u-` = one empty string) -/
def bytesListTok (s : String) : Option (List Bytes) :=
  match s.toList with
  | 'u' :: rest =>
    let body := String.ofList rest
    if body.isEmpty then some []
    else (body.splitOn ",").mapM fun h => if h == "-" then some [] else Hex.decode h
  | _ => none

def dictTok (s : String) : Option C04.Dict :=
  match s.toList with
  | 'd' :: rest =>
    let body := String.ofList rest
    if body.isEmpty then some []
    else (body.splitOn ",").mapM fun kv =>
      match kv.splitOn "." with
      | [k, v] => match Hex.decode k, Hex.decode v with
        | some k, some v => some (k, v)
        | _, _ => none
      | _ => none
  | _ => none

def showDict (d : C04.Dict) : String :=
  "d" ++ ",".intercalate (d.map fun (k, v) => Hex.encode k ++ "." ++ Hex.encode v)

def showReq (r : C04.Req) : String :=
  s!"{showBytes r.method} {showBytes r.uri} {showDict r.params} {showDict r.headers} {showBytes r.body}"

def randTok (s : String) : Option C04.Rand :=
  (natsTok s).map fun l => fun i => UInt32.ofNat (l.getD i 0)

/-! ### sections -/

/-- `IM n t1 … tn`: tokens only the implementation adapter reads -/
def skipImP : P Unit := do
  expect "IM"
  let n ← tok natTok
  let _ ← many n next
  pure ()

def cfgP : P HttpCfg := do
  expect "CFG"
  let gv ← tok bytesTok
  let gu ← tok bytesListTok
  let sv ← tok bytesTok
  let su ← tok bytesTok
  let gp ← tok stepsTok
  let pp ← tok stepsTok
  let rp ← tok stepsTok
  pure ⟨gv, gu, sv, su, gp, pp, rp⟩

def privTok (s : String) : Option (Option Bool) :=
  if s == "N" then some none else if s == "T" then some (some true) else if s == "F" then some (some false) else none

structure KeySec where
  args : KeyArgs
  pubOk : Bool
  trial : Bool

def keyP : P KeySec := do
  expect "KEY"
  let ak ← tok (optTok bytesTok)
  let hk ← tok (optTok bytesTok)
  let ar ← tok (optTok bytesTok)
  let pr ← tok privTok
  let vf ← tok boolTok
  let po ← tok boolTok
  let tr ← tok boolTok
  pure ⟨⟨ak, hk, ar, pr, vf⟩, po, tr⟩

def metaP : P C06.Metadata := do
  let magic ← tok natTok; let size ← tok natTok; let aes ← tok bytesTok
  let ansi ← tok natTok; let oem ← tok natTok; let bid ← tok natTok; let pid ← tok natTok
  let port ← tok natTok; let flag ← tok natTok; let vmaj ← tok natTok; let vmin ← tok natTok
  let vbld ← tok natTok; let x64 ← tok natTok; let gmh ← tok natTok; let gpa ← tok natTok
  let ip ← tok natTok; let info ← tok bytesTok
  pure { magic := magic, size := size, aes_rand := aes, ansi_cp := ansi, oem_cp := oem, bid := bid,
         pid := pid, port := port, flag := flag, ver_major := vmaj, ver_minor := vmin, ver_build := vbld,
         ptr_x64 := x64, ptr_gmh := gmh, ptr_gpa := gpa, ip := ip, info := info }

def clientP (cfg : HttpCfg) : P Client := do
  expect "CL"
  let m ← metaP
  let bid ← tok natTok
  let ak ← tok (optTok bytesTok)
  let hk ← tok (optTok bytesTok)
  let gu ← tok bytesTok
  let ua ← tok bytesTok
  let hh ← tok bytesTok
  let ctr ← tok natTok
  pure { cfg := cfg, metadata := m, beaconId := bid, keys := { aesKey := ak, hmacKey := hk }, getUri := gu,
         userAgent := ua, hostHeader := hh, counter := ctr }

inductive Ev
  | get (rsaRand : Bytes) (rand : C04.Rand) (wreq : Bytes) (rhdr : C04.Dict) (rbody : Bytes) (wresp : Bytes)
  | post (cbs : List (Nat × Bytes)) (rand : C04.Rand) (wreq wresp : Bytes)
  | msg (w : Bytes)

def evP : P Ev := do
  let k ← next
  if k == "G" then do
    let rr ← tok bytesTok
    let rand ← tok randTok
    let wq ← tok bytesTok
    let rh ← tok dictTok
    let rb ← tok bytesTok
    let wr ← tok bytesTok
    pure (.get rr rand wq rh rb wr)
  else if k == "C" then do
    let n ← tok natTok
    let cbs ← many n (do
      let id ← tok natTok
      let d ← tok bytesTok
      pure (id, d))
    let rand ← tok randTok
    let wq ← tok bytesTok
    let wr ← tok bytesTok
    pure (.post cbs rand wq wr)
  else if k == "M" then do
    let w ← tok bytesTok
    pure (.msg w)
  else failure

/-! ### oracle table -/

inductive Entry
  | hmac (key msg digest : Bytes)
  | aes (enc : Bool) (key iv data : Bytes) (res : Option Bytes)
  | rsaDec (blob : Bytes) (res : Py (Option Bytes))
  | rsaEnc (msg rand : Bytes) (res : Option Bytes)
  | sha (data digest : Bytes)

def resTok (s : String) : Option (Option Bytes) :=
  if s == "!" then some none else (bytesTok s).map some

def rdTok (s : String) : Option (Py (Option Bytes)) :=
  if s == "V" then some (.error .valueError)
  else if s == "none" then some (.ok none)
  else (bytesTok s).map fun b => .ok (some b)

def entryP : P Entry := do
  let k ← next
  if k == "H" then do
    let key ← tok bytesTok; let m ← tok bytesTok; let d ← tok bytesTok
    pure (.hmac key m d)
  else if k == "E" || k == "D" then do
    let key ← tok bytesTok; let iv ← tok bytesTok; let d ← tok bytesTok; let r ← tok resTok
    pure (.aes (k == "E") key iv d r)
  else if k == "RD" then do
    let b ← tok bytesTok; let r ← tok rdTok
    pure (.rsaDec b r)
  else if k == "RE" then do
    let m ← tok bytesTok; let rr ← tok bytesTok
    let r ← tok (fun s => if s == "V" then some none else (bytesTok s).map some)
    pure (.rsaEnc m rr r)
  else if k == "S" then do
    let d ← tok bytesTok; let g ← tok bytesTok
    pure (.sha d g)
  else failure

partial def tableP : P (List Entry) := do
  let s ← get
  if s.isEmpty then pure []
  else do
    let e ← entryP
    let es ← tableP
    pure (e :: es)

def missMarker : Bytes := [77, 73, 83, 83]

def oracleCrypto (tbl : List Entry) : Crypto where
  sym := {
    aesCbcEnc := fun k iv d =>
      match tbl.findSome? fun
        | .aes true k' iv' d' r => if k' == k && iv' == iv && d' == d then some r else none
        | _ => none with
      | some (some r) => .ok r
      | some none => .error .valueError
      | none => .error .timeoutDiverge
    aesCbcDec := fun k iv d =>
      match tbl.findSome? fun
        | .aes false k' iv' d' r => if k' == k && iv' == iv && d' == d then some r else none
        | _ => none with
      | some (some r) => .ok r
      | some none => .error .valueError
      | none => .error .timeoutDiverge
    hmacSha256 := fun k m =>
      match tbl.findSome? fun
        | .hmac k' m' d => if k' == k && m' == m then some d else none
        | _ => none with
      | some d => d
      | none => missMarker }
  asym := {
    rsaEnc := fun m r =>
      match tbl.findSome? fun
        | .rsaEnc m' r' res => if m' == m && r' == r then some res else none
        | _ => none with
      | some (some b) => .ok b
      | some none => .error .valueError
      | none => .error .timeoutDiverge
    rsaDec := fun b =>
      match tbl.findSome? fun
        | .rsaDec b' res => if b' == b then some res else none
        | _ => none with
      | some r => r
      | none => .error .timeoutDiverge
    sha256 := fun x =>
      match tbl.findSome? fun
        | .sha x' d => if x' == x then some d else none
        | _ => none with
      | some d => d
      | none => missMarker
    modulusBytes := 0 }

/-! ### rendering of answers -/

def showOB : Option Bytes → String
  | none => "none"
  | some b => showBytes b

def showMeta (m : C06.Metadata) : String :=
  s!"{m.magic} {m.size} {showBytes m.aes_rand} {m.ansi_cp} {m.oem_cp} {m.bid} {m.pid} {m.port} {m.flag} " ++
  s!"{m.ver_major} {m.ver_minor} {m.ver_build} {m.ptr_x64} {m.ptr_gmh} {m.ptr_gpa} {m.ip} {showBytes m.info}"

def showTask (t : Task) : String := s!"T {t.epoch} {t.totalSize} {t.command} {t.size} {showBytes t.data}"

def showItem : Item → String
  | .metadata m => "M " ++ showMeta m
  | .task t => showTask t
  | .callback cb => s!"C {cb.counter} {cb.size} {cb.callback} {showBytes cb.data}"

def showOut (o : Out) : String :=
  let items := String.join (o.items.map fun it => " " ++ showItem it)
  match o.exc with
  | none => s!"ok {o.items.length}{items}"
  | some e => s!"exc {e.name} {o.items.length}{items}"

def showX (f : α → String) : X α → String
  | .ok a => "ok " ++ f a
  | .error e => "exc " ++ e.name

def showKeys (k : Keys) : String := s!"{showOB k.aesKey} {showOB k.hmacKey} {showBytes k.iv}"

def showState (d : Decoder) : String :=
  s!"K {showKeys d.keys} {d.cache.length}" ++ String.join (d.cache.map fun p => " " ++ showBytes p.1)

/-! ### running a session -/

structure St where
  dec : Decoder
  cl : Client
  out : List String

def decodeRaw (c : Crypto) (st : St) (w : Bytes) : St :=
  let o := iterRecoverHttp c st.dec (.raw w)
  { st with dec := o.dec, out := st.out ++ ["D " ++ showOut o] }

def runEv (c : Crypto) (st : St) : Ev → St
  | .get rr rand wq rh rb wr =>
    let q := getTaskRequest c st.cl rr rand
    let st := match q with
      | .ok (r, cl') => { st with cl := cl', out := st.out ++ ["Q ok " ++ showReq r] }
      | .error e => { st with out := st.out ++ ["Q exc " ++ e.name] }
    let st := decodeRaw c st wq
    let st := decodeRaw c st wr
    -- `get_task()`: an exception while building the request propagates; otherwise the response is decoded
    let res : X (Option Task) := match q with
      | .error e => .error e
      | .ok _ => getTaskResult c st.cl rh rb
    { st with out := st.out ++ ["R " ++ showX (fun
      | none => "none"
      | some t => showTask t) res] }
  | .post cbs rand wq wr =>
    let q := callbackRequest c st.cl cbs rand
    let st := match q with
      | .ok (r, cl') => { st with cl := cl', out := st.out ++ ["Q ok " ++ showReq r] }
      | .error e => { st with out := st.out ++ ["Q exc " ++ e.name] }
    let st := decodeRaw c st wq
    decodeRaw c st wr
  | .msg w => decodeRaw c st w

def sessP : P String := do
  skipImP
  let cfg ← cfgP
  let ks ← keyP
  let cl ← clientP cfg
  expect "EV"
  let n ← tok natTok
  let evs ← many n evP
  expect "TB"
  let tbl ← tableP
  let c := oracleCrypto tbl
  match mkDecoder c cfg ks.args ks.pubOk ks.trial with
  | .error e => pure ("exc " ++ e.name)
  | .ok dec =>
    let st := evs.foldl (runEv c) ⟨dec, cl, []⟩
    pure (" ".intercalate (["cap=T", "ext=T"] ++ st.out ++ [showState st.dec]))

def ctorP : P String := do
  skipImP
  let cfg ← cfgP
  let ks ← keyP
  expect "TB"
  let tbl ← tableP
  let c := oracleCrypto tbl
  match mkDecoder c cfg ks.args ks.pubOk ks.trial with
  | .error e => pure ("exc " ++ e.name)
  | .ok d => pure s!"ok {showKeys d.keys} {showBool d.hasPriv} {showBool d.verify}"

def routeP : P String := do
  skipImP
  let cfg ← cfgP
  let m ← tok bytesTok
  let u ← tok bytesTok
  pure (match routeRequest cfg m u with
    | some .get => "get"
    | some .submit => "submit"
    | some .response => "response"
    | none => "none")

/-! ### `g-*` streams: the definitions TRANSLATED from the source of `C2Http.get_transform_for_http` / `C2Http.__init__`
(Gen/PyC2H.lean; external functions as in Model/C07Gen.lean)

  groute CFG … <method> <uri>              the line of `route`: the translated method on an instance with the routing attributes
                                           of CFG and on `HttpRequest(method, uri, {}, {}, b"")` → `get` | `submit` | `none`
  grarg CFG … <V>                          the same on ANY Python value (notation of Model/PyUShow.lean; `I0[…]` an HttpRequest,
                                           `I1[…]` an HttpResponse, `b…` raw bytes) → `get` | `submit` | `response` | `none` | `exc <Name>`
  gctor CFG … KEY … GV <settings> <uris> <npub> <npriv|N> <sha256(aes_rand)|none>
                                           the translated constructor call on the record of the reads of `bconfig`
                                           → `ok <attributes of the instance but bconfig>` | `exc <Name>` -/

def gclsOf (cid : Nat) : Option PyU.Cls :=
  [Gen.PyC2U.HttpRequest, Gen.PyC2U.HttpResponse, Gen.PyC2U.C2Data, Gen.PyC2U.ClientC2Data, Gen.PyC2U.ServerC2Data,
   Gen.PyC2T.HttpDataTransform, Gen.PyC2H.C2Http, Gen.PyC2H.BeaconKeys, C07Gen.RsaKeyCls, C07Gen.BConfigCls].find? (·.cid == cid)

def gvTok (s : String) : Option PyU.V := PyU.vTok (fun _ => none) gclsOf s

def showRoute : Py PyU.V → String
  | .ok (.str s) => String.ofList (s.map Char.ofNat)
  | .ok v => "?" ++ PyU.vShow v
  | .error .valueError => "none"
  | .error e => "exc " ++ e.name

def routeSelf (cfg : HttpCfg) : PyU.V := C07Gen.encSelf cfg (PyU.lit "get") (PyU.lit "submit") (PyU.lit "response") {}

def grouteP : P String := do
  skipImP
  let cfg ← cfgP
  let m ← tok bytesTok
  let u ← tok bytesTok
  pure (showRoute (C07Gen.getTransformG (routeSelf cfg) (C04Gen.encReq ⟨m, u, [], [], []⟩)))

def grargP : P String := do
  skipImP
  let cfg ← cfgP
  let v ← tok gvTok
  pure (showRoute (C07Gen.getTransformG (routeSelf cfg) v))

def gctorP : P String := do
  skipImP
  let _cfg ← cfgP
  let ks ← keyP
  expect "GV"
  let settings ← tok gvTok
  let uris ← tok gvTok
  let npub ← tok intTok
  let npriv ← tok (optTok intTok)
  let digest ← tok (optTok bytesTok)
  let ob : Option Bytes → PyU.V := C04Gen.encOB
  let priv : PyU.V := match ks.args.priv, npriv with
    | some _, some n => C07Gen.encKey n
    | _, _ => .none
  let r := C07Gen.initG (fun _ => digest.getD []) (if ks.pubOk then some (C07Gen.encKey npub) else none)
    (C07Gen.encBConfig settings uris (.bytes []) (.bool ks.trial)) (ob ks.args.aesKey) (ob ks.args.hmacKey) (ob ks.args.aesRand) priv
    (.bool ks.args.verify)
  pure (match r with
    | .ok (.inst _ (_ :: vals)) => "ok " ++ PyU.vShowL vals
    | .ok v => "?" ++ PyU.vShow v
    | .error (.py e) => "exc " ++ e.name
    | .error .assertion => "exc AssertionError")

/-! ### `g-sess`: the sessions of `sess` decoded by the definition TRANSLATED from the source of `C2Http.iter_recover_http`

`gsess …` takes the line of `sess` (and of the other session streams).  The instance `self` is a Python value threaded through the
calls: built from the hand model's decoder object (`selfOf`: routing attributes of CFG, the three transform objects made by the
translated `HttpDataTransform` constructor from the step lists of CFG, keys, cache), then updated by the translated generator.
When the translated generator ends with an exception its answer is just that exception; the packets yielded before it and the state
of the instance at that point are then taken from the hand model (`G!` marks a message where the two disagree about the exception).
The client side (`Q`, `R`) is the hand model's, as in `sess`. -/

def argV : C04.Arg → PyU.V
  | .bytes b => .bytes b
  | .int n => .int n

def stepV : C04.Step → PyU.V
  | .enc (.append a) => .tuple [PyU.lit "append", argV a]
  | .enc (.prepend a) => .tuple [PyU.lit "prepend", argV a]
  | .enc .base64 => .tuple [PyU.lit "base64", .bool true]
  | .enc .base64url => .tuple [PyU.lit "base64url", .bool true]
  | .enc .netbios => .tuple [PyU.lit "netbios", .bool true]
  | .enc .netbiosu => .tuple [PyU.lit "netbiosu", .bool true]
  | .enc .mask => .tuple [PyU.lit "mask", .bool true]
  | .term .print => .tuple [PyU.lit "print", .bool true]
  | .term (.header k) => .tuple [PyU.lit "header", .bytes k]
  | .term .uriAppend => .tuple [PyU.lit "uri_append", .bool true]
  | .term (.parameter k) => .tuple [PyU.lit "parameter", .bytes k]
  | .static (.header k) => .tuple [PyU.lit "_header", .bytes k]
  | .static (.hostheader k) => .tuple [PyU.lit "_hostheader", .bytes k]
  | .static (.parameter k) => .tuple [PyU.lit "_parameter", .bytes k]
  | .build (some .output) => .tuple [PyU.lit "BUILD", PyU.lit "output"]
  | .build (some .id) => .tuple [PyU.lit "BUILD", PyU.lit "id"]
  | .build (some .metadata) => .tuple [PyU.lit "BUILD", PyU.lit "metadata"]
  | .build none => .tuple [PyU.lit "BUILD", PyU.lit "other"]
  | .unknown => .tuple [PyU.lit "unknownstep", .bool true]

def transformV (prog : List C04.Step) (reverse : Bool) (build : PyU.V) : PyU.V :=
  match C04Gen.initG (.list (prog.map stepV)) (.bool reverse) build with
  | .ok t => t
  | .error _ => .none

def keysV (k : Keys) : PyU.V := .inst Gen.PyC2H.BeaconKeys [C04Gen.encOB k.aesKey, C04Gen.encOB k.hmacKey, .bytes k.iv]

/-- the `C2Http` instance of a decoder object of the hand model -/
def selfOf (d : Decoder) : PyU.V :=
  C07Gen.encSelf d.cfg (transformV d.cfg.getProg false .none) (transformV d.cfg.postProg false .none)
    (transformV d.cfg.recoverProg true (PyU.lit "output"))
    { aes_key := C04Gen.encOB d.keys.aesKey, hmac_key := C04Gen.encOB d.keys.hmacKey, verify_hmac := .bool d.verify,
      priv := if d.hasPriv then C07Gen.encKey 1 else .none,
      metadata_cache := .dict (d.cache.map fun p => .bytes p.1) (d.cache.map fun p => C06Gen.encMeta p.2),
      beacon_keys := keysV d.keys }

def vItem? (v : PyU.V) : Option Item :=
  match C06Gen.decMeta? v with
  | some m => some (.metadata m)
  | none =>
    match v with
    | .inst c [.int a, .int b, .int k, .bytes d] =>
      if c.cid == C07Gen.CallbackPacketCls.cid then some (.callback ⟨a.toNat, b.toNat, k.toNat, d⟩) else none
    | .inst c [.int a, .int b, .int k, .int z, .bytes d] =>
      if c.cid == C07Gen.TaskPacketCls.cid then some (.task ⟨a.toNat, b.toNat, k.toNat, z.toNat, d⟩) else none
    | _ => none

def optBytesV : PyU.V → Option (Option Bytes)
  | .none => some none
  | .bytes b => some (some b)
  | _ => none

/-- the `K …` state line read off the instance -/
def showStateV (self : PyU.V) : String :=
  match PyU.getAttr self "beacon_keys", PyU.getAttr self "metadata_cache" with
  | .ok (.inst _ [ak, hk, .bytes iv]), .ok (.dict ks _) =>
    match optBytesV ak, optBytesV hk with
    | some a, some h =>
      let blobs := ks.map fun k => match k with | .bytes b => " " ++ showBytes b | v => " ?" ++ PyU.vShow v
      s!"K {showOB a} {showOB h} {showBytes iv} {ks.length}" ++ String.join blobs
    | _, _ => "K ?keys"
  | _, _ => "K ?self"

structure GSt where
  dec : Decoder
  self : PyU.V
  cl : Client
  out : List String

def gdecodeRaw (c : Crypto) (st : GSt) (w : Bytes) : GSt :=
  let o := iterRecoverHttp c st.dec (.raw w)
  match C07Gen.iterRecoverG c st.self (.bytes w) .none with
  | .ok (.tuple [.list ys, self']) =>
    match ys.mapM vItem? with
    | some items =>
      let txt := String.join (items.map fun it => " " ++ showItem it)
      { st with dec := o.dec, self := self', out := st.out ++ [s!"D ok {items.length}{txt}"] }
    | none => { st with dec := o.dec, self := self', out := st.out ++ ["D ?items " ++ PyU.vShowL ys] }
  | .ok v => { st with dec := o.dec, out := st.out ++ ["D ?result " ++ PyU.vShow v] }
  | .error e =>
    let name := match e with | .py e => e.name | .assertion => "AssertionError"
    -- the translated generator answers only the exception: items before it and the state are the hand model's
    let agree := o.exc.map Exc.name == some name
    { st with dec := o.dec, self := selfOf o.dec, out := st.out ++ [(if agree then "D " else s!"G! {name} D ") ++ showOut o] }

def grunEv (c : Crypto) (st : GSt) : Ev → GSt
  | .get rr rand wq rh rb wr =>
    let q := getTaskRequest c st.cl rr rand
    let st := match q with
      | .ok (r, cl') => { st with cl := cl', out := st.out ++ ["Q ok " ++ showReq r] }
      | .error e => { st with out := st.out ++ ["Q exc " ++ e.name] }
    let st := gdecodeRaw c st wq
    let st := gdecodeRaw c st wr
    let res : X (Option Task) := match q with
      | .error e => .error e
      | .ok _ => getTaskResult c st.cl rh rb
    { st with out := st.out ++ ["R " ++ showX (fun
      | none => "none"
      | some t => showTask t) res] }
  | .post cbs rand wq wr =>
    let q := callbackRequest c st.cl cbs rand
    let st := match q with
      | .ok (r, cl') => { st with cl := cl', out := st.out ++ ["Q ok " ++ showReq r] }
      | .error e => { st with out := st.out ++ ["Q exc " ++ e.name] }
    let st := gdecodeRaw c st wq
    gdecodeRaw c st wr
  | .msg w => gdecodeRaw c st w

def gsessP : P String := do
  skipImP
  let cfg ← cfgP
  let ks ← keyP
  let cl ← clientP cfg
  expect "EV"
  let n ← tok natTok
  let evs ← many n evP
  expect "TB"
  let tbl ← tableP
  let c := oracleCrypto tbl
  match mkDecoder c cfg ks.args ks.pubOk ks.trial with
  | .error e => pure ("exc " ++ e.name)
  | .ok dec =>
    let st := evs.foldl (grunEv c) ⟨dec, selfOf dec, cl, []⟩
    pure (" ".intercalate (["cap=T", "ext=T"] ++ st.out ++ [showStateV st.self]))

def runP (p : P String) (ws : List String) : String :=
  match p ws with
  | some (s, []) => s
  | _ => "bad-op"

def step : List String → String
  | "sess" :: rest => runP sessP rest
  | "ctor" :: rest => runP ctorP rest
  | "route" :: rest => runP routeP rest
  | "groute" :: rest => runP grouteP rest
  | "grarg" :: rest => runP grargP rest
  | "gctor" :: rest => runP gctorP rest
  | "gsess" :: rest => runP gsessP rest
  | _ => "bad-op"

end C07

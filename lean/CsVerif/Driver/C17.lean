import CsVerif.Model.C17
import CsVerif.Gen.PyGuard
import CsVerif.Model.C17Gen
import CsVerif.Model.PyUShow
/-! Line-protocol driver for the C17 model.

  scan  <payload> <xorkey>   iter_guardrail_configs(BytesIO(payload), xorkey)
  wb    <payload> <bufsize>  iter_guardrail_configs_with_beacon(BytesIO(payload))   (io.DEFAULT_BUFFER_SIZE = bufsize)
  ff    <payload> <bufsize> [tag]  Guardrails fallback of BeaconConfig.from_file (tag = ground truth for the oracle, ignored)
  ffx   <payload> <bufsize> <tag> <nonce>  the same on the XorEncoded container of <payload> (harness encodes it; the model
                             runs on the decoded view, i.e. XorEncodedFile is assumed to present <payload>, see C09)
  cands <data> <bufsize>     find_xor_key_candidates(BytesIO(data))
  cks   <data>               payload_checksum(data)

A metadata record is rendered as
  `bco gco |mb| |mg| beacon_xor_key guardrail_xor_key checksum payload_xor_key unmasked_config unmasked_guard n (opt type len value)*`.

`g-*` streams — the definitions TRANSLATED from the source of the three generator functions (Gen/PyGuardU.lean), run with the fuel
of Model/C17Gen.lean; a result is `<records as above, with |mb| and |mg| followed by :<s1>:<s2> (two running sums of the bytes)> <tell>`:
  gscan  <payload> <xorkey>    the translated iter_guardrail_configs on BytesIO(payload)
  gcands <data> <bufsize>      the translated find_xor_key_candidates on BytesIO(data)
  gwb    <payload> <bufsize>   the translated iter_guardrail_configs_with_beacon over the other two translated definitions
  gsel   <file:V> <records:V> <cands:V>   the translated selection loop with the EXTERNAL functions answering `records` / `cands`
  garg scan <file:V> <xorkey:V> | garg cands <bufsize:V> <file:V>    the translated definitions on arguments of any kind
`pyu` stream — the operations of Model/PyU_T17.lean on operands of all kinds (values in the notation of Model/PyUShow.lean):
  pyu range2 <a> <b> | pyu grouper <it> <n> <fill> | pyu bytes <x> | pyu cks <x> | pyu newreader <x>
  pyu counter <keys:L[…]> <n>          Counter().update(keys) item by item, then most_common(n): `<counter> <result>`
  pyu reader <data:b…> <op>*           ops on io.BufferedReader(io.BytesIO(data)): `p<n:V>` = peek(n)[:2], `s` = GuardrailSetting(reader)
-/
namespace C17
open Proto

def showOptBytes : Option Bytes → String
  | none => "none"
  | some b => showBytes b

def showSetting (s : Setting) : String :=
  s!"{s.option} {s.type} {s.length} {showBytes s.value}"

def showMeta (m : Meta) : String :=
  let head := s!"{m.beaconConfigOffset} {m.guardConfigOffset} {m.maskedBeaconConfig.length} {m.maskedGuardConfig.length} {showBytes m.beaconXorKey} {showBytes m.guardrailXorKey} {m.checksum} {showOptBytes m.payloadXorKey} {showOptBytes m.unmaskedBeaconConfig} {showBytes m.unmaskedGuardConfig} {m.settings.length}"
  " ".intercalate (head :: m.settings.map showSetting)

def showMetas (ms : List Meta) : String :=
  " | ".intercalate (toString ms.length :: ms.map showMeta)

/-! ### `g-*` / `pyu` streams: the translated definitions and the operations of Model/PyU_T17.lean -/

/-- two running sums of a byte string (what the `g-*` streams print for the two masked areas instead of their content) -/
def sums (b : Bytes) : String :=
  let r := b.foldl (fun (p : Nat × Nat) x => ((p.1 + x.toNat) % 65521, (p.2 + p.1 + x.toNat) % 65521)) (0, 0)
  s!"{b.length}:{r.1}:{r.2}"

def vOptBytes? : PyU.V → Option (Option Bytes)
  | .none => some none
  | .bytes b => some (some b)
  | _ => none

def vSetting? : PyU.V → Option Setting
  | .inst c [.enum c1 o, .enum c2 t, .int l, .bytes v] =>
    if c == Gen.PyGuardU.GuardrailSettingCls ∧ c1 == Gen.PyGuardU.GuardOption ∧ c2 == Gen.PyGuardU.SettingsType ∧ 0 ≤ o ∧ 0 ≤ t ∧ 0 ≤ l then
      some { option := o.toNat, type := t.toNat, length := l.toNat, value := v }
    else none
  | _ => none

/-- a metadata record of the expected shape, in the format of `showMeta` (lengths of the masked areas followed by their sums) -/
def vMeta? : PyU.V → Option String
  | .inst c [.int bco, .int gco, .bytes mb, .bytes mg, .bytes bk, .bytes gk, .bytes ug, .int ck, pk, ub, .list st] =>
    match vOptBytes? pk, vOptBytes? ub, st.mapM vSetting? with
    | some pk, some ub, some st =>
      if c == Gen.PyGuardU.GuardrailMetadata then
        let head := s!"{bco} {gco} {sums mb} {sums mg} {showBytes bk} {showBytes gk} {ck} {showOptBytes pk} {showOptBytes ub} {showBytes ug} {st.length}"
        some (" ".intercalate (head :: st.map showSetting))
      else none
    | _, _, _ => none
  | _ => none

def vTell? (v : PyU.V) : Option Nat := (PyU.asFile v).map (·.2.1)

/-- `(list of records, file)`: the records as above (any other shape: the generic notation), then the position of the file -/
def vMetas (v : PyU.V) : String :=
  match v with
  | .tuple [.list ms, f] =>
    match vTell? f with
    | some t =>
      match ms.mapM vMeta? with
      | some shown => " | ".intercalate (toString ms.length :: shown) ++ s!" @{t}"
      | none => PyU.vShow (.list ms) ++ s!" @{t}"
    | none => "?file"
  | _ => "?gen"

def vCands (v : PyU.V) : String :=
  match v with
  | .tuple [.list ks, f] =>
    match vTell? f, ks.mapM (fun k => match k with | .bytes b => some b | _ => none) with
    | some t, some bs => " ".intercalate (toString bs.length :: bs.map showBytes) ++ s!" @{t}"
    | some t, none => PyU.vShow (.list ks) ++ s!" @{t}"
    | none, _ => "?file"
  | _ => "?gen"

def enumOf (cid : Nat) : Option PyU.EnumCls :=
  if cid == 30 then some Gen.PyGuardU.GuardOption else if cid == 31 then some Gen.PyGuardU.SettingsType else none

def clsOf (cid : Nat) : Option PyU.Cls :=
  if cid == 9000 then some PyU.FileCls
  else if cid == 32 then some Gen.PyGuardU.GuardrailSettingCls
  else if cid == 33 then some Gen.PyGuardU.GuardrailMetadata
  else none

def vTok (s : String) : Option PyU.V := PyU.vTok enumOf clsOf s

/-- fuel for a run on arguments of any kind -/
def fuelOfV (f : PyU.V) : Nat :=
  match PyU.asFile f with
  | some (d, _, _) => d.length + C17Gen.settingsFuel + 2
  | none => C17Gen.settingsFuel + 2

/-- `Counter().update(keys)`, item by item -/
def counterOf : List PyU.V → PyU.V → Py PyU.V
  | [], c => .ok c
  | k :: ks, c =>
    match PyU.counterIncr c k with
    | .ok c' => counterOf ks c'
    | .error e => .error e

/-- the operations of the `pyu reader` line; stops at the first exception (the state of the reader is not modelled after it) -/
def readerOps : List String → PyU.V → List String → String
  | [], _, acc => "ok " ++ " ".intercalate acc.reverse
  | op :: ops, r, acc =>
    if op == "s" then
      match PyU.structRead Gen.PyGuardU.GuardrailSetting r with
      | .ok (v, r') => readerOps ops r' (PyU.vShow v :: acc)
      | .error e => " ".intercalate (acc.reverse ++ [showPy (fun (_ : Unit) => "") (.error e)])
    else
      match vTok (String.ofList (op.toList.drop 1)) with
      | none => "bad-op"
      | some n =>
        match (do let p ← PyU.peek r n; PyU.slice p .none (.int 2) : Py PyU.V) with
        | .ok v => readerOps ops r (PyU.vShow v :: acc)
        | .error e => " ".intercalate (acc.reverse ++ [showPy (fun (_ : Unit) => "") (.error e)])

def gstep : List String → String
  | ["gscan", p, k] =>
    match bytesTok p, bytesTok k with
    | some p, some k => showPy vMetas (C17Gen.iterGuardrailConfigsG (PyFile.ofBytes p) k)
    | _, _ => "bad-op"
  | ["gcands", d, n] =>
    match bytesTok d, natTok n with
    | some d, some n => showPy vCands (C17Gen.findXorKeyCandidatesG n (PyFile.ofBytes d))
    | _, _ => "bad-op"
  | ["gwb", p, n] =>
    match bytesTok p, natTok n with
    | some p, some n => showPy vMetas (C17Gen.iterGuardrailConfigsWithBeaconG n (PyFile.ofBytes p))
    | _, _ => "bad-op"
  | ["gsel", f, rs, cs] =>
    match vTok f, vTok rs, vTok cs with
    | some f, some rs, some cs =>
      showPy vMetas (Gen.PyGuardU.iter_guardrail_configs_with_beacon (fun fh => .ok (.tuple [rs, fh])) (fun _ => .ok cs) f)
    | _, _, _ => "bad-op"
  | ["garg", "scan", f, k] =>
    match vTok f, vTok k with
    | some f, some k => showPy vMetas (Gen.PyGuardU.iter_guardrail_configs (fuelOfV f) f k)
    | _, _ => "bad-op"
  | ["garg", "cands", b, f] =>
    match vTok b, vTok f with
    | some b, some f => showPy vCands (Gen.PyGuardU.find_xor_key_candidates b (fuelOfV f) f)
    | _, _ => "bad-op"
  | ["pyu", "range2", a, b] =>
    match vTok a, vTok b with
    | some a, some b => showPy PyU.vShow (PyU.range2V a b)
    | _, _ => "bad-op"
  | ["pyu", "grouper", it, n, fill] =>
    match vTok it, vTok n, vTok fill with
    | some it, some n, some fill => showPy PyU.vShow (PyU.grouper it n fill)
    | _, _, _ => "bad-op"
  | ["pyu", "bytes", x] =>
    match vTok x with
    | some x => showPy PyU.vShow (PyU.bytesOf17 x)
    | none => "bad-op"
  | ["pyu", "cks", x] =>
    match vTok x with
    | some x => showPy PyU.vShow (Gen.PyGuardU.payload_checksum x)
    | none => "bad-op"
  | ["pyu", "newreader", x] =>
    match vTok x with
    | some x => showPy (fun _ => "reader") (PyU.newBufReader x)
    | none => "bad-op"
  | ["pyu", "counter", ks, n] =>
    match vTok ks, vTok n with
    | some (.list ks), some n =>
      showPy (fun (p : PyU.V × PyU.V) => PyU.vShow p.1 ++ " " ++ PyU.vShow p.2)
        (do let c ← counterOf ks (.dict [] []); let r ← PyU.mostCommon c n; pure (c, r))
    | _, _ => "bad-op"
  | "pyu" :: "reader" :: d :: ops =>
    match vTok d with
    | some (.bytes d) =>
      match (do let b ← PyU.newBytesIO (.bytes d); PyU.newBufReader b : Py PyU.V) with
      | .ok r => readerOps ops r []
      | .error e => showPy (fun (_ : Unit) => "") (.error e)
    | _ => "bad-op"
  | _ => "bad-op"

def step : List String → String
  | ["scan", p, k] =>
    match bytesTok p, bytesTok k with
    | some p, some k => showPy showMetas (iterGuardrailConfigs (PyFile.ofBytes p) k)
    | _, _ => "bad-op"
  | ["wb", p, n] =>
    match bytesTok p, natTok n with
    | some p, some n => showPy showMetas (iterGuardrailConfigsWithBeacon (PyFile.ofBytes p) n)
    | _, _ => "bad-op"
  | ["ff", p, n] =>
    match bytesTok p, natTok n with
    | some p, some n => showPy showMeta (fromFileFallback (PyFile.ofBytes p) n)
    | _, _ => "bad-op"
  | ["ff", p, n, _tag] =>
    match bytesTok p, natTok n with
    | some p, some n => showPy showMeta (fromFileFallback (PyFile.ofBytes p) n)
    | _, _ => "bad-op"
  | ["ff", p, n, _tag, _warmup] =>     -- the harness extracts `_warmup` (the intact twin of a corrupted payload) first, in the same process
    match bytesTok p, natTok n with
    | some p, some n => showPy showMeta (fromFileFallback (PyFile.ofBytes p) n)
    | _, _ => "bad-op"
  | ["ffx", p, n, _tag, _nonce] =>
    match bytesTok p, natTok n with
    | some p, some n => showPy showMeta (fromFileFallback (PyFile.ofBytes p) n)
    | _, _ => "bad-op"
  | ["ffx", p, n, _tag, _nonce, _stub] =>   -- the container behind a shellcode stub of 0..1023 bytes: the decoded view is the same
    match bytesTok p, natTok n with
    | some p, some n => showPy showMeta (fromFileFallback (PyFile.ofBytes p) n)
    | _, _ => "bad-op"
  | ["cands", d, n] =>
    match bytesTok d, natTok n with
    | some d, some n =>
      let cs := findXorKeyCandidates d n
      " ".intercalate (toString cs.length :: cs.map showBytes)
    | _, _ => "bad-op"
  | ["cks", d] =>
    match bytesTok d with
    | some d => toString (payloadChecksum d)
    | none => "bad-op"
  | ["gcks", d] =>     -- the definition translated from the source text (Gen/PyGuard.lean), as generated (see Model/C17Fast.lean)
    match bytesTok d with
    | some d => showPy toString (C17Gen.payloadChecksumT d)
    | none => "bad-op"
  | ws => gstep ws

end C17

import CsVerif.Model.C17
import CsVerif.Gen.PyGuard
/-! Line-protocol driver for the C17 model.

  scan  <payload> <xorkey>   iter_guardrail_configs(BytesIO(payload), xorkey)
  wb    <payload> <bufsize>  iter_guardrail_configs_with_beacon(BytesIO(payload))   (io.DEFAULT_BUFFER_SIZE = bufsize)
  ff    <payload> <bufsize> [tag]  Guardrails fallback of BeaconConfig.from_file (tag = ground truth for the oracle, ignored)
  ffx   <payload> <bufsize> <tag> <nonce>  the same on the XorEncoded container of <payload> (harness encodes it; the model
                             runs on the decoded view, i.e. XorEncodedFile is assumed to present <payload>, see C09)
  cands <data> <bufsize>     find_xor_key_candidates(BytesIO(data))
  cks   <data>               payload_checksum(data)

A metadata record is rendered as
  `bco gco |mb| |mg| beacon_xor_key guardrail_xor_key checksum payload_xor_key unmasked_config unmasked_guard n (opt type len value)*`.
-/
namespace C17
open Proto

def showOptBytes : Option Bytes → String
  | none => "none"
  | some b => showBytes b

def showSetting (s : Setting) : String :=
  s!"{s.option} {s.type} {s.length} {showBytes s.value}"

def showMeta (m : Meta) : String :=
  let head := s!"{m.beaconConfigOffset} {m.guardConfigOffset} {m.maskedBeaconConfig.length} {m.maskedGuardConfig.length} {showBytes m.beaconXorKey} {showBytes m.guardrailXorKey} {m.checksum} {showOptBytes m.payloadXorKey} {showOptBytes m.unmaskedBeaconConfig} {showBytes m.unmaskedGuardConfig} {m.settings.length}"
  " ".intercalate (head :: m.settings.map showSetting)

def showMetas (ms : List Meta) : String :=
  " | ".intercalate (toString ms.length :: ms.map showMeta)

def step : List String → String
  | ["scan", p, k] =>
    match bytesTok p, bytesTok k with
    | some p, some k => showPy showMetas (iterGuardrailConfigs (PyFile.ofBytes p) k)
    | _, _ => "bad-op"
  | ["wb", p, n] =>
    match bytesTok p, natTok n with
    | some p, some n => showPy showMetas (iterGuardrailConfigsWithBeacon (PyFile.ofBytes p) n)
    | _, _ => "bad-op"
  | ["ff", p, n] =>
    match bytesTok p, natTok n with
    | some p, some n => showPy showMeta (fromFileFallback (PyFile.ofBytes p) n)
    | _, _ => "bad-op"
  | ["ff", p, n, _tag] =>
    match bytesTok p, natTok n with
    | some p, some n => showPy showMeta (fromFileFallback (PyFile.ofBytes p) n)
    | _, _ => "bad-op"
  | ["ff", p, n, _tag, _warmup] =>     -- the harness extracts `_warmup` (the intact twin of a corrupted payload) first, in the same process
    match bytesTok p, natTok n with
    | some p, some n => showPy showMeta (fromFileFallback (PyFile.ofBytes p) n)
    | _, _ => "bad-op"
  | ["ffx", p, n, _tag, _nonce] =>
    match bytesTok p, natTok n with
    | some p, some n => showPy showMeta (fromFileFallback (PyFile.ofBytes p) n)
    | _, _ => "bad-op"
  | ["cands", d, n] =>
    match bytesTok d, natTok n with
    | some d, some n =>
      let cs := findXorKeyCandidates d n
      " ".intercalate (toString cs.length :: cs.map showBytes)
    | _, _ => "bad-op"
  | ["cks", d] =>
    match bytesTok d with
    | some d => toString (payloadChecksum d)
    | none => "bad-op"
  | ["gcks", d] =>     -- the definition translated from the source text (Gen/PyGuard.lean)
    match bytesTok d with
    | some d => showPy toString (Gen.PyGuard.payload_checksum d)
    | none => "bad-op"
  | _ => "bad-op"

end C17

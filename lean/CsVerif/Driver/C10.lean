import CsVerif.Model.C10
import CsVerif.Model.C10Gen
import CsVerif.Model.PyUShow
/-! Line-protocol driver for the C10 model.

Encodings (all inside one line, words separated by single blanks)
* text            `x<hex of UTF-8>`
* tree / children prefix form: a node is `n<label>:<arity>` followed by its children, a token `t<term>:x<hex>`
* token list      `k<kw id>` / `t<term>:x<hex>`

Operations
* `rt x<src>`      lex+parse the source with the model, print the tree, regenerate, re-lex, re-parse
* `txt x<src>`     the regenerated text itself
* `hist s1 s2 …`   a history of steps `p:x<src>` (from_text), `a` (as_text again), `d:<k>` (delete a child of the
                   tree), `t:x<src>` (replace the tree of the same object); one answer per step, joined by ` | `
* `tree <tree>`    `printTree` / `asText` on an arbitrary tree (hand-made trees included)
* `lex x<text>`    `lexProfile` on arbitrary text
* `pp <n> x.. x..` `postproc` + join on an arbitrary item list
* `bad x<src>`     accept / reject only
* `gpp …` / `gtxt …` / `gtree …`  (streams `g-*`) the same as `pp` / `txt` / `tree` with the generator `postproc` TRANSLATED from its
                   source (Gen/PyC2Text.lean) in place of the model's `postproc`; `?postproc` when the translated definition
                   raises or yields something that is not a `str`
* `gppv <value>`   `list(postproc(value))` through the translated definition for an argument of any kind (notation of
                   Model/PyUShow.lean)
-/
namespace C10
open Proto

def textOfBytes (bs : Bytes) : Option Text :=
  (String.fromUTF8? (ByteArray.mk bs.toArray)).map fun s => s.toList.map Char.toNat

def bytesOfText (t : Text) : Bytes :=
  (String.ofList (t.map Char.ofNat)).toUTF8.toList

def textTok (s : String) : Option Text := (bytesTok s).bind textOfBytes
def showText (t : Text) : String := showBytes (bytesOfText t)

/-- identifier-continue test of `lark.utils.is_id_continue`, exact on ASCII; irrelevant for `postproc`
output (lemma `joinItems_postproc`) -/
def idc (c : Nat) : Bool :=
  c == 95 || (48 ≤ c && c ≤ 57) || (65 ≤ c && c ≤ 90) || (97 ≤ c && c ≤ 122) || c ≥ 128

def showTok : Tok → String
  | .kw k => s!"k{k}"
  | .named t s => s!"t{t}:{showText s}"

def showToks (ts : List Tok) : String := " ".intercalate (ts.map showTok)

def forestLen : Forest → Nat
  | .nil => 0
  | .leaf _ _ r => forestLen r + 1
  | .node _ _ r => forestLen r + 1

def showForest : Forest → List String
  | .nil => []
  | .leaf t s r => s!"t{t}:{showText s}" :: showForest r
  | .node l ks r => s!"n{l}:{forestLen ks}" :: (showForest ks ++ showForest r)

def showTree (t : Tree) : String := " ".intercalate (s!"n{t.label}:{forestLen t.kids}" :: showForest t.kids)

/-- `n12:3` / `t5:xab` -/
def splitWord (w : String) : Option (Char × Nat × String) :=
  match w.toList with
  | c :: rest =>
    match (String.ofList rest).splitOn ":" with
    | [a, b] => a.toNat?.map fun n => (c, n, b)
    | _ => none
  | [] => none

/-- parse `count` children from the word list -/
def readForest : Nat → Nat → List String → Option (Forest × List String)
  | _, 0, ws => some (.nil, ws)
  | 0, _ + 1, _ => none
  | fuel + 1, cnt + 1, w :: ws =>
    match splitWord w with
    | some ('t', t, payload) =>
      match textTok payload, readForest fuel cnt ws with
      | some s, some (r, ws') => some (.leaf t s r, ws')
      | _, _ => none
    | some ('n', l, ar) =>
      match ar.toNat? with
      | none => none
      | some a =>
        match readForest fuel a ws with
        | none => none
        | some (ks, ws') =>
          match readForest fuel cnt ws' with
          | none => none
          | some (r, ws'') => some (.node l ks r, ws'')
    | _ => none
  | _ + 1, _ + 1, [] => none

def readTree (ws : List String) : Option Tree :=
  match readForest (ws.length + 1) 1 ws with
  | some (.node l ks .nil, []) => some ⟨l, ks⟩
  | _ => none

def G : Table := gen

def showPR : PR Deriv → String
  | .fail => "exc LarkError"
  | .fuel => "fuel"
  | .ok _ => "ok"

def rt (src : Text) : String :=
  match parseText G src with
  | .fail => "exc LarkError"
  | .fuel => "fuel"
  | .ok d =>
    let t := toTree d
    let srcToks := (lexProfile G.words src).getD []
    let yieldOk := d.yield.map G.tokText == srcToks
    match printTree G t with
    | none => s!"ok wf={showBool (d.WF G)} yield={showBool yieldOk} tree {showTree t} print none"
    | some out =>
      let text := asTextOf G idc out
      let relex := lexProfile G.words text == some (out.map G.tokText)
      let reparse := match parseText G text with
        | .ok d' => toTree d' == t
        | _ => false
      s!"ok wf={showBool (d.WF G)} yield={showBool yieldOk} tree {showTree t} print {showToks out} relex={showBool relex} reparse={showBool reparse}"

def txt (src : Text) : String :=
  match parseText G src with
  | .fail => "exc LarkError"
  | .fuel => "fuel"
  | .ok d =>
    match asText G idc (toTree d) with
    | none => "none"
    | some text => s!"text {showText text}"

/-- `p:x<src>` | `a` | `d:<k>` | `t:x<src>` -/
def readHStep (w : String) : Option HStep :=
  if w == "a" then some .again
  else match w.splitOn ":" with
    | ["p", x] => (textTok x).map HStep.parse
    | ["t", x] => (textTok x).map HStep.setTree
    | ["d", k] => k.toNat?.map HStep.delete
    | _ => none

def showHAnswer : HAnswer → String
  | .err => "exc LarkError"
  | .noProfile => "nop"
  | .ans srcToks t printed =>
    match printed with
    | none => s!"ok tree {showTree t} print none"
    | some out =>
      let text := asTextOf G idc out
      let yieldFlag := match srcToks with
        | none => "-"
        | some ts => showBool (out.map G.tokText == ts)
      let relex := lexProfile G.words text == some (out.map G.tokText)
      let reparse := match parseText G text with
        | .ok d' => toTree d' == t
        | _ => false
      s!"ok yield={yieldFlag} tree {showTree t} print {showToks out} relex={showBool relex} reparse={showBool reparse}"

/-! ### `g-*` streams: the translated `postproc` -/

def gstep : List String → String
  | "gpp" :: ws =>
    match ws.mapM textTok with
    | none => "bad-op"
    | some items =>
      match C10Gen.postprocG items with
      | some out => showText (joinItems idc out)
      | none => "?postproc"
  | ["gtxt", s] =>
    match textTok s with
    | none => "bad-op"
    | some src =>
      match parseText G src with
      | .fail => "exc LarkError"
      | .fuel => "fuel"
      | .ok d =>
        match printTree G (toTree d) with
        | none => "none"
        | some out =>
          match C10Gen.asTextOfG G idc out with
          | some text => s!"text {showText text}"
          | none => "?postproc"
  | "gtree" :: ws =>
    match readTree ws with
    | none => "bad-op"
    | some t =>
      match printTree G t with
      | none => "none"
      | some out =>
        match C10Gen.asTextOfG G idc out with
        | some text => s!"print {showToks out} text {showText text}"
        | none => "?postproc"
  | ["gppv", a] =>
    match PyU.vTok (fun _ => none) (fun _ => none) a with
    | some a => showPy PyU.vShow (Gen.PyC2Text.as_text_postproc a)
    | none => "bad-op"
  | _ => "bad-op"

def step : List String → String
  | ["rt", s] =>
    match textTok s with
    | some src => rt src
    | none => "bad-op"
  | "hist" :: ws =>
    match ws.mapM readHStep with
    | none => "bad-op"
    | some hs => " | ".intercalate ((runHistory G none hs).map showHAnswer)
  | ["txt", s] =>
    match textTok s with
    | some src => txt src
    | none => "bad-op"
  | ["bad", s] =>
    match textTok s with
    | some src => showPR (parseText G src)
    | none => "bad-op"
  | "tree" :: ws =>
    match readTree ws with
    | none => "bad-op"
    | some t =>
      match printTree G t with
      | none => "none"
      | some out => s!"print {showToks out} text {showText (asTextOf G idc out)}"
  | ["lex", s] =>
    match textTok s with
    | none => "bad-op"
    | some src =>
      match lexProfile G.words src with
      | none => "none"
      | some ts => " ".intercalate ("ok" :: ts.map showText)
  | "pp" :: ws =>
    match ws.mapM textTok with
    | none => "bad-op"
    | some items => showText (joinItems idc (postproc items))
  | ws => gstep ws

end C10

import CsVerif.Model.C19
import CsVerif.Model.C19Gen
import CsVerif.Model.PyUShow
/-!
Line-protocol driver for the C19 model.

  id <int>                                           normaliseId
  idr <int>                                          beacon_id=None with random.getrandbits(32) scripted
  run <id> <computer> <user> <process> <aesrand> <digest>
                                                     run(dry_run=True): id, keys, info, len(metadata)
                                                     (names = `l`-lists of code points; aesrand/digest = the values of the
                                                      primitives `aesRand`/`sha256`, supplied by the harness)
  enc <l code points> / dec <x bytes>                str.encode() / bytes.decode(errors="ignore")
  sleep <sleeptime> <jitter> <un> <ud>               get_sleep_time with the uniform draw u = un/ud (reduced fraction)
  loop <T|F silent> <n> <reg>*n <tasks>              registrations, then the beacon loop over scripted get_task() results
  lspec <T|F silent> <n> <reg>*n <tasks>             the declarative specification of the same
  gh <n> <reg>*n <keys>                              registrations, then get_handlers(k) for each key
  hist <step>+                                       a history on ONE client object; one answer per step, then task_map
     steps: S<int> | J<int>                          assign sleeptime / jitter
            R/<id>/<s>/<j>/<computer>/<user>/<process>/<expected bid|n>/<aesrand hex>/<digest hex>   run(dry_run=True, …)
            U<un>/<ud>                               get_sleep_time with the draw un/ud
            G<key> | T<T|F><key>                     get_handlers(key) | one loop iteration (silent flag, get_task result)
            I                                        metadata.bid : aes_rand : aes key : hmac key : info
            <reg>                                    a registration (lower-case first letter)

  g<line of id / idr / run / gh / loop>              the same case run through the definitions TRANSLATED from the source of
                                                     client.py (Gen/PyClient.lean; glue Model/C19Gen.lean): `normalise_beacon_id`,
                                                     `session_keys`, `make_info`; the registration code, `get_handlers`, `dispatch`
  gidv <v> / ginfov <v> <v> <v>                      translated `normalise_beacon_id` / `make_info` on arguments of any kind
                                                     (value notation: Model/PyUShow.lean)
  pyu <op> <operands>                                one operation of Model/PyU_T19.lean

  handler code = id*32 + callable + 2*truthy + 4*raises + 8*responds + 16*form   (form: harness only)
  reg  = h/<arg>/<hc> | r/<key>/<hc> | c/<hc> | a/<name>/<hc> | k/<name>/<hc>
  arg  = n | i<int> | e<int> | v<int> | vn | p        key = n | <int>      name = code points joined by '.'
  tasks/keys = 't' + comma separated (n | <int>)
-/
namespace C19
open Proto

def handlerOfCode (n : Nat) : Handler :=
  { id := n / 32, callable := n % 2 == 1, truthy := n / 2 % 2 == 1, raises := n / 4 % 2 == 1, responds := n / 8 % 2 == 1 }

def keyTok (s : String) : Option Key :=
  if s == "n" then some none else (s.toInt?).map some

def nameTok (s : String) : Option Txt :=
  if s.isEmpty then some [] else (s.splitOn ".").mapM (·.toNat?)

def argTok (s : String) : Option CmdArg :=
  match s.toList with
  | ['n'] => some .none
  | ['p'] => some .plainObj
  | 'i' :: r => (String.ofList r).toInt?.map .int
  | 'e' :: r => (String.ofList r).toInt?.map .int
  | 'v' :: r => (keyTok (String.ofList r)).map .valueObj
  | _ => none

def regTok (s : String) : Option Reg :=
  match s.splitOn "/" with
  | ["h", a, h] => do
    let a ← argTok a
    let h ← h.toNat?
    pure (.handle a (handlerOfCode h))
  | ["r", k, h] => do
    let k ← keyTok k
    let h ← h.toNat?
    pure (.register k (handlerOfCode h))
  | ["c", h] => do
    let h ← h.toNat?
    pure (.catchAll (handlerOfCode h))
  | ["a", n, h] => do
    let n ← nameTok n
    let h ← h.toNat?
    pure (.instAttr n (handlerOfCode h))
  | ["k", n, h] => do
    let n ← nameTok n
    let h ← h.toNat?
    pure (.classAttr n (handlerOfCode h))
  | _ => none

def tasksTok (s : String) : Option (List (Option Int)) :=
  match s.toList with
  | 't' :: rest =>
    let body := String.ofList rest
    if body.isEmpty then some [] else (body.splitOn ",").mapM keyTok
  | _ => none

def showEvent : Event → String
  | .call i => s!"c{i}"
  | .send i => s!"s{i}"
  | .sleep => "z"

def showEvents (es : List Event) : String :=
  if es.isEmpty then "-" else ",".intercalate (es.map showEvent)

def showOutcome : Option PyExc → String
  | none => "end"
  | some e => "exc:" ++ e.name

def showKey : Key → String
  | none => "n"
  | some v => toString v

def showIds (hs : List Handler) : String :=
  if hs.isEmpty then "~" else ".".intercalate (hs.map fun h => toString h.id)

def showView (v : List (Key × List Handler)) : String :=
  if v.isEmpty then "-" else ",".intercalate (v.map fun kh => showKey kh.1 ++ ":" ++ showIds kh.2)

def showRegErrs (es : List (Option PyExc)) : String :=
  if es.isEmpty then "-"
  else String.ofList (es.map fun e => match e with
    | none => '.'
    | some .attributeError => 'A'
    | some _ => '?')

def showFrac (f : Frac) : String :=
  let g := Nat.gcd f.num.natAbs f.den
  if g == 0 then s!"{f.num} {f.den}" else s!"{f.num / (g : Int)} {f.den / g}"

/-- parse `<n> <reg>*n <last>` -/
def regsAndLast (ws : List String) : Option (List Reg × String) :=
  match ws with
  | n :: rest =>
    match n.toNat? with
    | some n =>
      if rest.length == n + 1 then
        match (rest.take n).mapM regTok with
        | some regs => some (regs, rest.getD n "")
        | none => none
      else none
    | none => none
  | [] => none

/-- `get_handlers` for each key in turn on the same client -/
def ghAll (c : Client) : List Key → List String × Client
  | [] => ([], c)
  | k :: ks =>
    let (c1, hr) := getHandlers c k
    let (o, c') := ghAll c1 ks
    (showIds (c1.readList hr) :: o, c')

def excChar : PyExc → String
  | .attributeError => "A"
  | .valueError => "E"
  | _ => "?"

def histStepTok (s : String) : Option HStep :=
  match s.toList with
  | 'S' :: r => (String.ofList r).toInt?.map .setSleep
  | 'J' :: r => (String.ofList r).toInt?.map .setJitter
  | 'U' :: r =>
    match (String.ofList r).splitOn "/" with
    | [a, b] => do
      let a ← a.toInt?
      let b ← b.toNat?
      if b == 0 then none else pure (.sleep ⟨a, b⟩)
    | _ => none
  | 'G' :: r => (keyTok (String.ofList r)).map .getHandlers
  | 'T' :: 'T' :: r => (keyTok (String.ofList r)).map (.task true)
  | 'T' :: 'F' :: r => (keyTok (String.ofList r)).map (.task false)
  | ['I'] => some .show
  | 'R' :: _ =>
    match s.splitOn "/" with
    | [_, i, sl, j, c, u, q, _, _, _] => do
      let i ← i.toInt?
      let sl ← sl.toInt?
      let j ← j.toInt?
      let c ← nameTok c
      let u ← nameTok u
      let q ← nameTok q
      pure (.run i sl j c u q)
    | _ => none
  | _ => (regTok s).map .reg

/-- the values of the primitives supplied with an `R` step: (expected presented id, aes_rand, digest) -/
def primRow (s : String) : Option (Option (Int × Bytes × Bytes)) :=
  match s.toList with
  | 'R' :: _ =>
    match s.splitOn "/" with
    | [_, _, _, _, _, _, _, b, ar, dg] =>
      if b == "n" then some none
      else do
        let b ← b.toInt?
        let ar ← Hex.decode ar
        let dg ← Hex.decode dg
        pure (some (b, ar, dg))
    | _ => none
  | _ => some none

def primsOfRows (rows : List (Int × Bytes × Bytes)) : Prims :=
  { aesRand := fun b => match rows.find? (fun r => r.1 == b) with
      | some r => r.2.1
      | none => []
    sha256 := fun x => match rows.find? (fun r => r.2.1 == x) with
      | some r => r.2.2
      | none => [] }

def showAnswer : HAnswer → String
  | .done => "."
  | .exc e => excChar e
  | .frac f => (showFrac f).replace " " "/"
  | .handlers hs => showIds hs
  | .events es none => showEvents es
  | .events es (some e) => showEvents es ++ "!" ++ excChar e
  | .ident a =>
    s!"{a.beaconId}:{Hex.encode a.keys.aesRand}:{Hex.encode a.keys.aesKey}:{Hex.encode a.keys.hmacKey}:{Hex.encode a.info}"


/-! ### `g-*` streams: the definitions translated from the source of client.py -/

open PyU (V) in
def showIntV : V → String
  | .int n => toString n
  | v => "?" ++ PyU.vShow v

open PyU (V) in
def bytesV? : V → Option Bytes
  | .bytes b => some b
  | _ => none

open PyU (V) in
/-- the answer of `run` from the value of `C19Gen.runG` -/
def showRunG : V → String
  | .tuple [.int bid, .tuple [.bytes ar, .bytes ak, .bytes hk], .bytes info] =>
    s!"{bid} {showBytes ar} {showBytes ak} {showBytes hk} {showBytes info} {metadataLen info}"
  | v => "?" ++ PyU.vShow v

open PyU (V) in
def showIdsV : V → String
  | .list xs =>
    if xs.isEmpty then "~"
    else ".".intercalate (xs.map fun x => match C19Gen.decH x with | some h => toString h.id | none => "?")
  | v => "?" ++ PyU.vShow v

open PyU (V) in
def keyOfV : V → String
  | .none => "n"
  | .int n => toString n
  | v => "?" ++ PyU.vShow v

open PyU (V) in
/-- `task_map` of the client value -/
def showViewV : V → String
  | .inst _ [.dict ks vs] =>
    if ks.isEmpty then "-" else ",".intercalate ((ks.zip vs).map fun kv => keyOfV kv.1 ++ ":" ++ showIdsV kv.2)
  | v => "?" ++ PyU.vShow v

open PyU (V) in
def showEventV : V → String
  | .tuple [.int 0, .int i] => s!"c{i}"
  | .tuple [.int 1, .int i] => s!"s{i}"
  | .tuple [.int 2] => "z"
  | v => "?" ++ PyU.vShow v

open PyU (V) in
/-- `get_handlers` for each key in turn (the translated method does not change the client value) -/
def ghAllG (c : Client) (cv : V) (ks : List Key) : List String :=
  ks.map fun k =>
    match Gen.PyClient.get_handlers (C19Gen.getattrX C19Gen.encH c) cv (C19Gen.encKey k) with
    | .ok v => showIdsV v
    | .error e => "exc:" ++ e.name

open PyU (V) in
/-- the loop over scripted `get_task()` results: the empty-task / silent test and the final sleep as in the (shape-checked) rest of
`_beacon_loop`, the dispatch part TRANSLATED -/
def runLoopG (silent : Bool) (c : Client) (cv : V) : List (Option Int) → List String × Option PyExc
  | [] => ([], none)
  | t :: ts =>
    if t = none ∧ ¬ silent then
      let (evs, r) := runLoopG silent c cv ts
      ("z" :: evs, r)
    else
      match Gen.PyClient.dispatch (C19Gen.getattrX C19Gen.encH c) C19Gen.callableH C19Gen.invokeH cv (C19Gen.encTask t) with
      | .error e => ([], some e)
      | .ok v =>
        match C19Gen.flattenEvents v with
        | none => (["?" ++ PyU.vShow v], none)
        | some es =>
          let (evs, r) := runLoopG silent c cv ts
          (es.map showEventV ++ "z" :: evs, r)

def classesG : List PyU.Cls :=
  [Gen.PyClient.HttpBeaconClientCls, C19Gen.ValueObjCls, C19Gen.CommandCls, C19Gen.TaskCls, C19Gen.HandlerCls]

def vTokG (s : String) : Option PyU.V :=
  PyU.vTok (fun cid => if cid == Gen.PyClient.BeaconCommand.cid then some Gen.PyClient.BeaconCommand else none)
    (fun cid => classesG.find? (·.cid == cid)) s

def strOfV : PyU.V → Option String
  | .str cs => some (String.ofList (cs.map Char.ofNat))
  | _ => none

open PyU in
def pyuStep : List String → String
  | [op, a] =>
    match vTokG a with
    | none => "bad-op"
    | some a =>
      match op with
      | "decutf8ign" => showPy vShow (decodeUtf8Ignore a)
      | "intenum" => showPy vShow (intEnumCall Gen.PyClient.BeaconCommand a)
      | "enumname" => showPy vShow (do let m ← intEnumCall Gen.PyClient.BeaconCommand a; let n ← getAttr m "name"; pure (.tuple [n, .bool (truthy m)]))
      | _ => "bad-op"
  | [op, a, b, c] =>
    match vTokG a, vTokG b, vTokG c with
    | some a, some b, some c =>
      match op with
      | "tobytes" => showPy vShow (toBytes a b c)
      | "replace2" => showPy vShow (strReplace a b c)
      | "setattr" =>
        match strOfV b with
        | some n => showPy vShow (setAttr a n c)
        | none => "bad-op"
      | _ => "bad-op"
    | _, _, _ => "bad-op"
  | _ => "bad-op"

def gstep : List String → String
  | ["gid", i] =>
    match intTok i with
    | some i => showPy showIntV (Gen.PyClient.normalise_beacon_id (C19Gen.getrandbitsX 0) (.int i))
    | none => "bad-op"
  | ["gidr", i] =>
    match intTok i with
    | some i => showPy showIntV (Gen.PyClient.normalise_beacon_id (C19Gen.getrandbitsX i) .none)
    | none => "bad-op"
  | ["gidv", a] =>
    match vTokG a with
    | some a => showPy PyU.vShow (Gen.PyClient.normalise_beacon_id (C19Gen.getrandbitsX 6) a)
    | none => "bad-op"
  | ["ginfov", a, b, c] =>
    match vTokG a, vTokG b, vTokG c with
    | some a, some b, some c => showPy PyU.vShow (Gen.PyClient.make_info a b c)
    | _, _, _ => "bad-op"
  | ["grun", i, c, u, q, ar, dg] =>
    match intTok i, natsTok c, natsTok u, natsTok q, bytesTok ar, bytesTok dg with
    | some i, some c, some u, some q, some ar, some dg =>
      showPy showRunG (C19Gen.runG (C19Gen.getrandbitsX 0) (fun _ _ => .ok (.int (PyU.beNat ar 0))) (fun _ => .ok (.bytes dg))
        (.int i) (.str c) (.str u) (.str q))
    | _, _, _, _, _, _ => "bad-op"
  | "ggh" :: rest =>
    match regsAndLast rest with
    | some (regs, last) =>
      match tasksTok last with
      | some keys =>
        let c := (applyRegs {} regs).1
        let (cv, errs) := C19Gen.applyRegsG C19Gen.encH C19Gen.newClientG regs
        let outs := ghAllG c cv keys
        s!"{if outs.isEmpty then "-" else ",".intercalate outs} {showRegErrs errs} {showViewV cv}"
      | none => "bad-op"
    | none => "bad-op"
  | "gloop" :: sl :: rest =>
    match boolTok sl, regsAndLast rest with
    | some sl, some (regs, last) =>
      match tasksTok last with
      | some tasks =>
        let c := (applyRegs {} regs).1
        let (cv, errs) := C19Gen.applyRegsG C19Gen.encH C19Gen.newClientG regs
        let (evs, r) := runLoopG sl c cv tasks
        s!"{if evs.isEmpty then "-" else ",".intercalate evs} {showOutcome r} {showRegErrs errs} {showViewV cv}"
      | none => "bad-op"
    | _, _ => "bad-op"
  | "pyu" :: rest => pyuStep rest
  | _ => "bad-op"

def step : List String → String
  | ["id", i] =>
    match intTok i with
    | some i => showPy toString (normaliseId i)
    | none => "bad-op"
  | ["idr", i] =>
    match intTok i with
    | some i => showPy toString (defaultId i)
    | none => "bad-op"
  | ["run", i, c, u, q, ar, dg] =>
    match intTok i, natsTok c, natsTok u, natsTok q, bytesTok ar, bytesTok dg with
    | some i, some c, some u, some q, some ar, some dg =>
      let p : Prims := { aesRand := fun _ => ar, sha256 := fun _ => dg }
      showPy (fun (a : Identity) =>
        s!"{a.beaconId} {showBytes a.keys.aesRand} {showBytes a.keys.aesKey} {showBytes a.keys.hmacKey} {showBytes a.info} {metadataLen a.info}")
        (run p i c u q)
    | _, _, _, _, _, _ => "bad-op"
  | ["enc", t] =>
    match natsTok t with
    | some t => showPy showBytes (utf8Encode t)
    | none => "bad-op"
  | ["dec", b] =>
    match bytesTok b with
    | some b => showNats (utf8DecodeIgnore b)
    | none => "bad-op"
  | ["sleep", s, j, un, ud] =>
    match intTok s, intTok j, intTok un, natTok ud with
    | some s, some j, some un, some ud => if ud == 0 then "bad-op" else showFrac (getSleepTime s j ⟨un, ud⟩)
    | _, _, _, _ => "bad-op"
  | "loop" :: sl :: rest =>
    match boolTok sl, regsAndLast rest with
    | some sl, some (regs, last) =>
      match tasksTok last with
      | some tasks =>
        let (c, errs) := applyRegs {} regs
        let (c', evs, r) := runLoop sl c tasks
        s!"{showEvents evs} {showOutcome r} {showRegErrs errs} {showView c'.view}"
      | none => "bad-op"
    | _, _ => "bad-op"
  | "lspec" :: sl :: rest =>
    match boolTok sl, regsAndLast rest with
    | some sl, some (regs, last) =>
      match tasksTok last with
      | some tasks =>
        s!"{showEvents (tasks.flatMap (specStep regs sl))} {showOutcome none}"
      | none => "bad-op"
    | _, _ => "bad-op"
  | "gh" :: rest =>
    match regsAndLast rest with
    | some (regs, last) =>
      match tasksTok last with
      | some keys =>
        let (c, errs) := applyRegs {} regs
        let (outs, c') := ghAll c keys
        s!"{if outs.isEmpty then "-" else ",".intercalate outs} {showRegErrs errs} {showView c'.view}"
      | none => "bad-op"
    | none => "bad-op"
  | "hist" :: toks =>
    if toks.isEmpty then "bad-op"
    else
      match toks.mapM histStepTok, toks.mapM primRow with
      | some steps, some rows =>
        let p := primsOfRows (rows.filterMap id)
        let (st, answers) := runHistory p {} steps
        " ".intercalate (answers.map showAnswer) ++ " " ++ showView st.client.view
      | _, _ => "bad-op"
  | ws => gstep ws

end C19

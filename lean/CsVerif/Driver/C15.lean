import CsVerif.Model.C15
import CsVerif.Model.C15Gen
import CsVerif.Model.PyUShow
/-! Line-protocol driver for the C15 model.

  find   <hay> <needle> <start:int>                                  → int          (bytes.find)
  needle <b|f> <B> <hay> <needle> <start|none> <maxOff> <initpos>    → ok l<offsets> <final tell> | exc <E>
  art    <b|f> <hay> <start|none> <maxrange|none> <initpos>          → ok <n> (<off> <size> <key> <hints> <payload>)* <final tell> | exc <E>
  occ    <hay> <needle>                                              → l<offsets>   (the specification `occ`)
`g-*` streams — the definitions TRANSLATED from the source of the two functions (Gen/PyScan.lean), run with the fuel
`C15Gen.fuelFor` (= len(file) + 3):
  gneedle / gart  <same operands as needle / art>                    → same format (a value of an unexpected shape: `?…`)
  gargn <bufsize:V> <file:V> <needle:V> <start:V> <max:V>            → ok <list:V> <final tell> | exc <E>      (arguments of any kind,
  garga <file:V> <start:V> <maxrange:V>                              → ok <list:V> <final tell> | exc <E>       notation of PyUShow;
                                                                       a file object is `I9000[b<data>;i<pos>;i<kind>]`)
`pyu` stream — the operations of Model/PyU_T15.lean on operands of all kinds:
  pyu fread <file:V> <n:V> | pyu fseek <file:V> <off:V> <whence:V>   → ok <result:V> <tell> | exc <E>
  pyu ftell <file:V> | pyu find <x:V> <sub:V> <start:V>              → ok <result:V> | exc <E>
  pyu range <n:V> | pyu max <a:V> <b:V> | pyu xor <data:V> <key:V>   → ok <result:V> | exc <E>   (`list(range(n))`, `max(a, b)`, `utils.xor`)
-/
namespace C15
open Proto

def kindTok (s : String) : Option FileKind :=
  if s == "b" then some .bytesIO else if s == "f" then some .osFile else none

def showHit (h : Hit) : String :=
  s!"{h.offset} {h.size} {showBytes h.xorkey} {showBytes h.hints} {showBytes h.payload}"

def showNeedle (r : List Int × PyFile) : String := s!"{showInts r.1} {r.2.tell}"

def showArt (r : List Hit × PyFile) : String :=
  " ".intercalate ([toString r.1.length] ++ r.1.map showHit ++ [toString r.2.tell])

/-! ### `g-*` streams: the translated definitions -/

def vInts? : PyU.V → Option (List Int)
  | .list xs => xs.mapM fun x => match x with | .int n => some n | _ => none
  | _ => none

def vTell? (v : PyU.V) : Option Nat := (PyU.asFile v).map (·.2.1)

def vNeedle (v : PyU.V) : String :=
  match v with
  | .tuple [l, f] =>
    match vInts? l, vTell? f with
    | some xs, some t => s!"{showInts xs} {t}"
    | _, _ => "?needle"
  | _ => "?needle"

def vHit? : PyU.V → Option Hit
  | .inst c [.int o, .int sz, .bytes k, .bytes h, .bytes p] =>
    if c == Gen.PyScan.ArtifactKitPayload ∧ 0 ≤ o ∧ 0 ≤ sz then
      some { offset := o.toNat, size := sz.toNat, xorkey := k, hints := h, payload := p }
    else none
  | _ => none

def vArt (v : PyU.V) : String :=
  match v with
  | .tuple [.list hs, f] =>
    match hs.mapM vHit?, vTell? f with
    | some hits, some t => " ".intercalate ([toString hits.length] ++ hits.map showHit ++ [toString t])
    | _, _ => "?art"
  | _ => "?art"

def clsOf (cid : Nat) : Option PyU.Cls :=
  if cid == 9000 then some PyU.FileCls else if cid == 0 then some Gen.PyScan.ArtifactKitPayload else none

def vTok (s : String) : Option PyU.V := PyU.vTok (fun _ => none) clsOf s

/-- fuel for a run on arguments of any kind: `len(file) + 3` when the file argument is a file object -/
def fuelOfV (f : PyU.V) : Nat :=
  match PyU.asFile f with
  | some (d, _, _) => d.length + 3
  | none => 3

/-- `ok <list of yields> <final tell>` -/
def vGen (v : PyU.V) : String :=
  match v with
  | .tuple [l, f] =>
    match vTell? f with
    | some t => s!"{PyU.vShow l} {t}"
    | none => "?gen"
  | _ => "?gen"

def vPair (r : PyU.V × PyU.V) : String :=
  match vTell? r.2 with
  | some t => s!"{PyU.vShow r.1} {t}"
  | none => "?file"

def gstep : List String → String
  | ["gneedle", k, b, h, n, s, m, p] =>
    match kindTok k, natTok b, bytesTok h, bytesTok n, optTok intTok s, natTok m, natTok p with
    | some k, some b, some h, some n, some s, some m, some p =>
      showPy vNeedle (C15Gen.iterFindNeedleG b { data := h, pos := p, kind := k } n s m)
    | _, _, _, _, _, _, _ => "bad-op"
  | ["gart", k, h, s, m, p] =>
    match kindTok k, bytesTok h, optTok intTok s, optTok natTok m, natTok p with
    | some k, some h, some s, some m, some p =>
      showPy vArt (C15Gen.iterArtifactkitG { data := h, pos := p, kind := k } s m)
    | _, _, _, _, _ => "bad-op"
  | ["gargn", b, f, n, s, m] =>
    match vTok b, vTok f, vTok n, vTok s, vTok m with
    | some b, some f, some n, some s, some m => showPy vGen (Gen.PyScan.iter_find_needle b (fuelOfV f) f n s m)
    | _, _, _, _, _ => "bad-op"
  | ["garga", f, s, m] =>
    match vTok f, vTok s, vTok m with
    | some f, some s, some m => showPy vGen (Gen.PyScan.iter_artifactkit_payloads (fuelOfV f) f s m)
    | _, _, _ => "bad-op"
  | ["pyu", "fread", f, n] =>
    match vTok f, vTok n with
    | some f, some n => showPy vPair (PyU.fileRead f n)
    | _, _ => "bad-op"
  | ["pyu", "fseek", f, o, w] =>
    match vTok f, vTok o, vTok w with
    | some f, some o, some w => showPy vPair (PyU.fileSeek f o w)
    | _, _, _ => "bad-op"
  | ["pyu", "ftell", f] =>
    match vTok f with
    | some f => showPy PyU.vShow (PyU.fileTell f)
    | none => "bad-op"
  | ["pyu", "range", n] =>
    match vTok n with
    | some n => showPy PyU.vShow (PyU.rangeV n)
    | none => "bad-op"
  | ["pyu", "max", a, b] =>
    match vTok a, vTok b with
    | some a, some b => showPy PyU.vShow (PyU.max2 a b)
    | _, _ => "bad-op"
  | ["pyu", "xor", a, b] =>
    match vTok a, vTok b with
    | some a, some b => showPy PyU.vShow (Gen.PyScan.xor a b)
    | _, _ => "bad-op"
  | ["pyu", "find", x, sub, st] =>
    match vTok x, vTok sub, vTok st with
    | some x, some sub, some st => showPy PyU.vShow (PyU.find x sub st)
    | _, _, _ => "bad-op"
  | _ => "bad-op"

def step : List String → String
  | ["find", h, n, s] =>
    match bytesTok h, bytesTok n, intTok s with
    | some h, some n, some s => toString (bytesFind h n s)
    | _, _, _ => "bad-op"
  | ["occ", h, n] =>
    match bytesTok h, bytesTok n with
    | some h, some n => showNats (occ h n)
    | _, _ => "bad-op"
  | ["needle", k, b, h, n, s, m, p] =>
    match kindTok k, natTok b, bytesTok h, bytesTok n, optTok intTok s, natTok m, natTok p with
    | some k, some b, some h, some n, some s, some m, some p =>
      showPy showNeedle (iterFindNeedle b { data := h, pos := p, kind := k } n s m)
    | _, _, _, _, _, _, _ => "bad-op"
  | ["art", k, h, s, m, p] =>
    match kindTok k, bytesTok h, optTok intTok s, optTok natTok m, natTok p with
    | some k, some h, some s, some m, some p =>
      showPy showArt (iterArtifactkit { data := h, pos := p, kind := k } s m)
    | _, _, _, _, _ => "bad-op"
  | ws => gstep ws

end C15

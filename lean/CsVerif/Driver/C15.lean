import CsVerif.Model.C15
/-! Line-protocol driver for the C15 model.

  find   <hay> <needle> <start:int>                                  → int          (bytes.find)
  needle <b|f> <B> <hay> <needle> <start|none> <maxOff> <initpos>    → ok l<offsets> <final tell> | exc <E>
  art    <b|f> <hay> <start|none> <maxrange|none> <initpos>          → ok <n> (<off> <size> <key> <hints> <payload>)* <final tell> | exc <E>
  occ    <hay> <needle>                                              → l<offsets>   (the specification `occ`)
-/
namespace C15
open Proto

def kindTok (s : String) : Option FileKind :=
  if s == "b" then some .bytesIO else if s == "f" then some .osFile else none

def showHit (h : Hit) : String :=
  s!"{h.offset} {h.size} {showBytes h.xorkey} {showBytes h.hints} {showBytes h.payload}"

def showNeedle (r : List Int × PyFile) : String := s!"{showInts r.1} {r.2.tell}"

def showArt (r : List Hit × PyFile) : String :=
  " ".intercalate ([toString r.1.length] ++ r.1.map showHit ++ [toString r.2.tell])

def step : List String → String
  | ["find", h, n, s] =>
    match bytesTok h, bytesTok n, intTok s with
    | some h, some n, some s => toString (bytesFind h n s)
    | _, _, _ => "bad-op"
  | ["occ", h, n] =>
    match bytesTok h, bytesTok n with
    | some h, some n => showNats (occ h n)
    | _, _ => "bad-op"
  | ["needle", k, b, h, n, s, m, p] =>
    match kindTok k, natTok b, bytesTok h, bytesTok n, optTok intTok s, natTok m, natTok p with
    | some k, some b, some h, some n, some s, some m, some p =>
      showPy showNeedle (iterFindNeedle b { data := h, pos := p, kind := k } n s m)
    | _, _, _, _, _, _, _ => "bad-op"
  | ["art", k, h, s, m, p] =>
    match kindTok k, bytesTok h, optTok intTok s, optTok natTok m, natTok p with
    | some k, some h, some s, some m, some p =>
      showPy showArt (iterArtifactkit { data := h, pos := p, kind := k } s m)
    | _, _, _, _, _ => "bad-op"
  | _ => "bad-op"

end C15

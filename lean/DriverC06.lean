import CsVerif.Driver.C06
def main : IO Unit := Proto.run C06.top

import CsVerif.Driver.C13
def main : IO Unit := Proto.run C13.step

import CsVerif.Driver.C04
def main : IO Unit := Proto.run C04.step

import CsVerif.Driver.C17
def main : IO Unit := Proto.run C17.step

import CsVerif.Driver.C11
def main : IO Unit := Proto.run C11.driverStep

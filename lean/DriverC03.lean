import CsVerif.Driver.C03
def main : IO Unit := Proto.run C03.step

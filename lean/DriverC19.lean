import CsVerif.Driver.C19
def main : IO Unit := Proto.run C19.step

import CsVerif.Driver.C14
def main : IO Unit := Proto.run C14.step'

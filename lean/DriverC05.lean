import CsVerif.Driver.C05
def main : IO Unit := Proto.run C05.step

import CsVerif.Driver.C08
def main : IO Unit := Proto.run C08.step

import CsVerif.Model.Basic

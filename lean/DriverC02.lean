import CsVerif.Driver.C02
def main : IO Unit := Proto.run C02.step

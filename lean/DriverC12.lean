import CsVerif.Driver.C12
def main : IO Unit := Proto.run C12.step

import CsVerif.Driver.C15
def main : IO Unit := Proto.run C15.step
